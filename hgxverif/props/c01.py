"""C01 -- Hypergraph answers every query as the abstract hypergraph of its history.

Model-based history testing.  A case is a JSON document: universe, constructor
arguments and a list of *abstract* operations (selector integers resolved
against the reference model while the history runs, which makes argument
generation model-aware and still lets the whole history shrink as one value).
After every step the complete public observation of the real object must equal
the observation of the reference model (RefHypergraph: a set of nodes plus a map
node set -> [weight, metadata]).
"""

import copy
from collections import Counter

from hypothesis import strategies as st

from .. import strategies as S
from ..common import Alt, alt_equal, cedge, dc, dedupe, definite, diff_obs, permuted
from ..engine import Clause, Violation, require

ASSUMPTIONS = [
    "oracle = RefHypergraph (plain dict/set reference model in hgxverif/props/c01.py)",
    "unspecified corners are value sets (metadata of a re-inserted hyperedge, of a node "
    "re-added with metadata, of a merged hyperedge, hypergraph metadata after clear) or "
    "excluded and counted (keep_edges=True removal of a node with a singleton hyperedge, "
    "weights passed to add_edges of an unweighted hypergraph)",
    "labels of one universe are mutually comparable; hyperedges list distinct nodes",
]

SIZES = list(range(0, 7))  # hyperedges have 1..5 nodes: 0 and 6 are absent sizes


# --------------------------------------------------------------------------
# reference model


class RefHypergraph:
    def __init__(self, weighted):
        self.weighted = weighted
        self.nodes = {}        # label -> metadata (dict or Alt)
        self.edges = {}        # frozenset -> [weight, metadata (dict or Alt)]
        self.hg_required = {}  # user-set hypergraph metadata fields that must be visible

    # ---- mutators: return True (accepted) / False (rejected, model untouched)
    def add_node(self, n, meta=None):
        if n not in self.nodes:
            self.nodes[n] = {} if meta is None else meta
        elif meta is not None and meta != {}:
            # docstring: "already in the hypergraph, nothing happens"; the code fills in
            # metadata when the stored one is empty.  Both accepted.
            self.nodes[n] = Alt([self.nodes[n], meta])
        return True

    def add_edge(self, nodes, w=None, meta=None):
        if not self.weighted and w is not None and w != 1:
            return False
        key = frozenset(nodes)
        if w is None:
            w = 1
        if key not in self.edges:
            self.edges[key] = [w if self.weighted else 1, {} if meta is None else meta]
        else:
            if self.weighted:
                self.edges[key][0] += w
            old = self.edges[key][1]
            self.edges[key][1] = Alt([old, {} if meta is None else meta])
        for n in nodes:
            self.add_node(n)
        return True

    def remove_edge(self, nodes):
        key = frozenset(nodes)
        if key not in self.edges:
            return False
        del self.edges[key]
        return True

    def remove_node(self, n, keep_edges=False):
        if n not in self.nodes:
            return False
        inc = [e for e in self.edges if n in e]
        if not keep_edges:
            for e in inc:
                del self.edges[e]
        else:
            moved = [(e, self.edges.pop(e)) for e in inc]
            for e, (w, meta) in moved:
                new = e - {n}
                if new in self.edges:
                    if self.weighted:
                        self.edges[new][0] += w
                    self.edges[new][1] = Alt([self.edges[new][1], meta])
                else:
                    self.edges[new] = [w, meta]
        del self.nodes[n]
        return True

    def would_empty(self, ns):
        """keep_edges=True removal of ns (in order) would produce an empty hyperedge."""
        es = set(self.edges)
        for n in ns:
            es2 = set()
            for e in es:
                if n in e:
                    if len(e) == 1:
                        return True
                    es2.add(e - {n})
                else:
                    es2.add(e)
            es = es2
        return False

    def set_weight(self, nodes, w):
        if not self.weighted and w != 1:
            return False
        key = frozenset(nodes)
        if key not in self.edges:
            return False
        self.edges[key][0] = w
        return True

    def clear(self):
        self.nodes = {}
        self.edges = {}
        self.hg_required = {}  # after clear() earlier fields are unconstrained
        return True

    # ---- queries (same signatures as the library)
    def is_weighted(self):
        return self.weighted

    def get_nodes(self, metadata=False):
        if not metadata:
            return list(self.nodes)
        return dict(self.nodes)

    def num_nodes(self):
        return len(self.nodes)

    def check_node(self, n):
        return n in self.nodes

    def _sel(self, order=None, size=None, up_to=False):
        if order is not None and size is not None:
            raise ValueError
        if size is not None:
            order = size - 1
        out = []
        for e in self.edges:
            if order is None or (len(e) - 1 <= order if up_to else len(e) - 1 == order):
                out.append(e)
        return out

    def get_edges(self, order=None, size=None, up_to=False, metadata=False):
        es = self._sel(order, size, up_to)
        if metadata:
            return {tuple(sorted(e)): self.edges[e][1] for e in es}
        return [tuple(sorted(e)) for e in es]

    def num_edges(self, order=None, size=None, up_to=False):
        return len(self._sel(order, size, up_to))

    def check_edge(self, e):
        return frozenset(e) in self.edges

    def get_weight(self, e):
        return self.edges[frozenset(e)][0]

    def get_weights(self, order=None, size=None, up_to=False, asdict=False):
        es = self._sel(order, size, up_to)
        if asdict:
            return {tuple(sorted(e)): self.edges[e][0] for e in es}
        return [self.edges[e][0] for e in es]

    def get_incident_edges(self, n, order=None, size=None):
        return [tuple(sorted(e)) for e in self._sel(order, size) if n in e]

    def get_neighbors(self, n, order=None, size=None):
        out = set()
        for e in self._sel(order, size):
            if n in e:
                out |= e
        out.discard(n)
        return out

    def degree(self, n, order=None, size=None):
        return len(self.get_incident_edges(n, order, size))

    def degree_sequence(self, order=None, size=None):
        return {n: self.degree(n, order, size) for n in self.nodes}

    def degree_distribution(self, order=None, size=None):
        return dict(Counter(self.degree_sequence(order, size).values()))

    def get_sizes(self):
        return [len(e) for e in self.edges]

    def get_orders(self):
        return [len(e) - 1 for e in self.edges]

    def distribution_sizes(self):
        return dict(Counter(self.get_sizes()))

    def max_size(self):
        return max(self.get_sizes())

    def max_order(self):
        return self.max_size() - 1

    def is_uniform(self):
        return len(set(self.get_sizes())) <= 1

    def isolated_nodes(self):
        return [n for n in self.nodes if not self.get_neighbors(n)]

    def is_isolated(self, n):
        return not self.get_neighbors(n)

    def get_node_metadata(self, n):
        return self.nodes[n]

    def get_edge_metadata(self, e):
        return self.edges[frozenset(e)][1]

    def __len__(self):
        return len(self.edges)


# --------------------------------------------------------------------------
# observation through the public API (works on the real object and on the model)

ALT_KEYS = ("nodes_meta", "node_meta", "edges_meta", "edge_meta")


def observe(h, universe, probes, real):
    if real:
        from hypergraphx.measures.degree import degree as m_degree
        from hypergraphx.measures.degree import degree_sequence as m_degree_sequence
        from hypergraphx.measures.degree import degree_distribution as m_degree_dist
    else:
        m_degree = lambda g, n, **kw: g.degree(n, **kw)  # noqa
        m_degree_sequence = lambda g, **kw: g.degree_sequence(**kw)  # noqa
        m_degree_dist = lambda g, **kw: g.degree_distribution(**kw)  # noqa
    o = {}
    nodes = list(h.get_nodes())
    o["get_nodes"] = Counter(nodes)
    o["num_nodes"] = h.num_nodes()
    o["is_weighted"] = h.is_weighted()
    o["check_node"] = {u: h.check_node(u) for u in universe}
    edges = [cedge(e) for e in h.get_edges()]
    o["get_edges"] = Counter(edges)
    o["num_edges"] = h.num_edges()
    o["len"] = len(h)
    o["get_weights"] = Counter(h.get_weights())
    o["get_weights_dict"] = {cedge(k): v for k, v in h.get_weights(asdict=True).items()}
    o["edges_meta"] = {cedge(k): dc(v) for k, v in h.get_edges(metadata=True).items()}
    for k in SIZES:
        for up_to in (False, True):
            for kw in ({"size": k}, {"order": k - 1}):
                tag = (tuple(kw.items())[0], up_to)
                o[("get_edges", tag)] = Counter(cedge(e) for e in h.get_edges(up_to=up_to, **kw))
                o[("num_edges", tag)] = h.num_edges(up_to=up_to, **kw)
                o[("get_weights", tag)] = Counter(h.get_weights(up_to=up_to, **kw))
                o[("get_weights_dict", tag)] = {
                    cedge(a): b for a, b in h.get_weights(up_to=up_to, asdict=True, **kw).items()}
    o["check_edge"] = {}
    o["get_weight"] = {}
    o["edge_meta"] = {}
    eset = set(edges)
    for p in probes:
        rp = tuple(reversed(p))
        o["check_edge"][p] = h.check_edge(rp)
        if p in eset:
            o["get_weight"][p] = h.get_weight(rp)
            o["edge_meta"][p] = dc(h.get_edge_metadata(rp))
    for e in edges:
        if e not in o["get_weight"]:
            o["check_edge"][e] = h.check_edge(e)
            o["get_weight"][e] = h.get_weight(e)
            o["edge_meta"][e] = dc(h.get_edge_metadata(e))
    inc, nei, deg, mdeg, iso, nmeta = {}, {}, {}, {}, {}, {}
    for n in nodes:
        inc[n] = {None: Counter(cedge(e) for e in h.get_incident_edges(n))}
        nei[n] = {None: _setof(h.get_neighbors(n))}
        deg[n] = {None: h.degree(n)}
        mdeg[n] = {None: m_degree(h, n)}
        for k in SIZES:
            inc[n][("size", k)] = Counter(cedge(e) for e in h.get_incident_edges(n, size=k))
            inc[n][("order", k - 1)] = Counter(
                cedge(e) for e in h.get_incident_edges(n, order=k - 1))
            nei[n][("size", k)] = _setof(h.get_neighbors(n, size=k))
            nei[n][("order", k - 1)] = _setof(h.get_neighbors(n, order=k - 1))
            deg[n][("size", k)] = h.degree(n, size=k)
            deg[n][("order", k - 1)] = h.degree(n, order=k - 1)
            mdeg[n][("size", k)] = m_degree(h, n, size=k)
        iso[n] = h.is_isolated(n)
        nmeta[n] = dc(h.get_node_metadata(n))
    o["get_incident_edges"] = inc
    o["get_neighbors"] = nei
    o["degree"] = deg
    o["measures.degree"] = mdeg
    o["is_isolated"] = iso
    o["node_meta"] = nmeta
    o["nodes_meta"] = {k: dc(v) for k, v in h.get_nodes(metadata=True).items()}
    o["degree_sequence"] = {None: dict(h.degree_sequence())}
    o["degree_distribution"] = {None: dict(h.degree_distribution())}
    o["measures.degree_sequence"] = dict(m_degree_sequence(h))
    o["measures.degree_distribution"] = dict(m_degree_dist(h))
    for k in SIZES:
        o["degree_sequence"][("size", k)] = dict(h.degree_sequence(size=k))
        o["degree_sequence"][("order", k - 1)] = dict(h.degree_sequence(order=k - 1))
        o["degree_distribution"][("size", k)] = dict(h.degree_distribution(size=k))
    o["isolated_nodes"] = Counter(h.isolated_nodes())
    o["get_sizes"] = Counter(h.get_sizes())
    o["get_orders"] = Counter(h.get_orders())
    o["distribution_sizes"] = dict(h.distribution_sizes())
    if edges:
        o["max_size"] = h.max_size()
        o["max_order"] = h.max_order()
    o["is_uniform"] = h.is_uniform()
    return o


def _setof(x):
    x = list(x)
    s = set(x)
    if len(s) != len(x):
        raise Violation("neighbour listing repeats a node: %r" % (x,))
    return s


def collapse(model, obs):
    """Resolve the model's value sets to what was observed (already checked to match)."""
    for n, m in list(model.nodes.items()):
        if isinstance(m, Alt):
            model.nodes[n] = dc(obs["node_meta"][n])
    for e, rec in model.edges.items():
        if isinstance(rec[1], Alt):
            rec[1] = dc(obs["edge_meta"][tuple(sorted(e))])


def hg_meta_of(h):
    return dc(h.get_hypergraph_metadata())


# --------------------------------------------------------------------------
# abstract op -> concrete op


def _edge_from(spec, model, U):
    """spec = {"mode","ns","pick","perm"} -> list of labels (in call order)."""
    if spec["mode"] == "existing" and model.edges:
        es = sorted(model.edges, key=lambda e: (len(e), sorted(e)))
        e = es[spec["pick"] % len(es)]
        return permuted(sorted(e), spec["perm"])
    return dedupe([U[i % len(U)] for i in spec["ns"]])


def _node_from(spec, model, U):
    if spec["mode"] == "existing" and model.nodes:
        ns = sorted(model.nodes)
        return ns[spec["pick"] % len(ns)]
    return U[spec["i"] % len(U)]


def _present_field(meta, aop):
    """Mostly aim remove_attr at a field that exists (otherwise it is a rejection)."""
    fp = aop.get("fpick", 0)
    if isinstance(meta, dict) and meta and fp % 4 != 0:
        fs = sorted(meta)
        return fs[fp % len(fs)]
    return aop["field"]


def resolve(aop, model, U):
    """Concrete operation (plain labels), or None when excluded by construction."""
    k = aop["op"]
    c = {"op": k}
    if k == "add_node":
        c["n"] = _node_from(aop["node"], model, U)
        c["meta"] = aop["meta"]
    elif k == "add_nodes":
        c["ns"] = dedupe([U[i % len(U)] for i in aop["ns"]])
        c["metas"] = aop["metas"][: len(c["ns"])] if aop["metas"] is not None else None
        if c["metas"] is not None and len(c["metas"]) < len(c["ns"]):
            c["ns"] = c["ns"][: len(c["metas"])]
    elif k == "add_edge":
        c["e"] = _edge_from(aop["edge"], model, U)
        c["w"] = aop["w"]
        c["meta"] = aop["meta"]
    elif k == "add_edges":
        c["es"] = [_edge_from(s, model, U) for s in aop["edges"]]
        c["ws"] = aop["ws"][: len(c["es"])] if aop["ws"] is not None else None
        if aop.get("short_weights") and c["ws"]:
            c["ws"] = c["ws"][:-1]
        c["metas"] = None
        if aop["metas"] is not None:
            c["metas"] = (aop["metas"] + [{} for _ in c["es"]])[: len(c["es"])]
    elif k in ("remove_edge", "set_weight", "set_edge_metadata", "set_attr_edge",
               "remove_attr_edge"):
        c["e"] = _edge_from(aop["edge"], model, U)
        for f in ("w", "meta", "field", "value"):
            if f in aop:
                c[f] = aop[f]
        if k == "remove_attr_edge" and frozenset(c["e"]) in model.edges:
            c["field"] = _present_field(model.edges[frozenset(c["e"])][1], aop)
    elif k == "remove_edges":
        es = [_edge_from(s, model, U) for s in aop["edges"]]
        seen, out = set(), []
        for i, e in enumerate(es):
            fs = frozenset(e)
            if fs in seen:
                continue
            if fs not in model.edges and i > 0:
                continue  # a failing element only in first position (DESIGN C01: batches)
            seen.add(fs)
            out.append(e)
            if fs not in model.edges:
                break
        c["es"] = out
    elif k == "remove_node":
        c["n"] = _node_from(aop["node"], model, U)
        c["keep"] = aop["keep"]
        if c["keep"] and c["n"] in model.nodes and model.would_empty([c["n"]]):
            return None
    elif k == "remove_nodes":
        ns = dedupe([_node_from(s, model, U) for s in aop["nodes"]])
        out = []
        for i, n in enumerate(ns):
            if n not in model.nodes and i > 0:
                continue
            out.append(n)
            if n not in model.nodes:
                break
        c["ns"] = out
        c["keep"] = aop["keep"]
        if c["keep"] and all(n in model.nodes for n in out) and model.would_empty(out):
            return None
    elif k in ("set_node_metadata", "set_attr_node", "remove_attr_node"):
        c["n"] = _node_from(aop["node"], model, U)
        for f in ("meta", "field", "value"):
            if f in aop:
                c[f] = aop[f]
        if k == "remove_attr_node" and c["n"] in model.nodes:
            c["field"] = _present_field(model.nodes[c["n"]], aop)
    elif k == "set_attr_hg":
        c["field"], c["value"] = aop["field"], aop["value"]
    elif k in ("clear", "copy"):
        pass
    else:
        raise ValueError(k)
    return c


def apply_model(m, c):
    """Apply a concrete op to the model.  True = accepted, False = rejected."""
    k = c["op"]
    if k == "add_node":
        return m.add_node(c["n"], dc(c["meta"]))
    if k == "add_nodes":
        for i, n in enumerate(c["ns"]):
            m.add_node(n, dc(c["metas"][i]) if c["metas"] is not None else None)
        return True
    if k == "add_edge":
        return m.add_edge(c["e"], c["w"], dc(c["meta"]))
    if k == "add_edges":
        ws = c["ws"]
        if ws is not None:
            if len(set(map(tuple, c["es"]))) != len(c["es"]):
                return False
            if len(ws) != len(c["es"]):
                return False
        for i, e in enumerate(c["es"]):
            w = ws[i] if ws is not None else None
            if not m.add_edge(e, w, dc(c["metas"][i]) if c["metas"] is not None else None):
                raise AssertionError("generator produced a partially failing batch")
        return True
    if k == "remove_edge":
        return m.remove_edge(c["e"])
    if k == "remove_edges":
        for e in c["es"]:
            if not m.remove_edge(e):
                return False  # only possible at position 0
        return True
    if k == "remove_node":
        return m.remove_node(c["n"], c["keep"])
    if k == "remove_nodes":
        for n in c["ns"]:
            if not m.remove_node(n, c["keep"]):
                return False
        return True
    if k == "set_weight":
        return m.set_weight(c["e"], c["w"])
    if k == "set_node_metadata":
        if c["n"] not in m.nodes:
            return False
        m.nodes[c["n"]] = dc(c["meta"])
        return True
    if k == "set_edge_metadata":
        key = frozenset(c["e"])
        if key not in m.edges:
            return False
        m.edges[key][1] = dc(c["meta"])
        return True
    if k == "set_attr_node":
        if c["n"] not in m.nodes:
            return False
        m.nodes[c["n"]][c["field"]] = dc(c["value"])
        return True
    if k == "remove_attr_node":
        if c["n"] not in m.nodes or c["field"] not in m.nodes[c["n"]]:
            return False
        del m.nodes[c["n"]][c["field"]]
        return True
    if k == "set_attr_edge":
        key = frozenset(c["e"])
        if key not in m.edges:
            return False
        m.edges[key][1][c["field"]] = dc(c["value"])
        return True
    if k == "remove_attr_edge":
        key = frozenset(c["e"])
        if key not in m.edges or c["field"] not in m.edges[key][1]:
            return False
        del m.edges[key][1][c["field"]]
        return True
    if k == "set_attr_hg":
        m.hg_required[c["field"]] = dc(c["value"])
        return True
    if k == "clear":
        return m.clear()
    raise ValueError(k)


def apply_real(h, c):
    k = c["op"]
    if k == "add_node":
        if c["meta"] is None:
            h.add_node(c["n"])
        else:
            h.add_node(c["n"], metadata=dc(c["meta"]))
    elif k == "add_nodes":
        if c["metas"] is None:
            h.add_nodes(list(c["ns"]))
        else:
            h.add_nodes(list(c["ns"]),
                        metadata={n: dc(c["metas"][i]) for i, n in enumerate(c["ns"])})
    elif k == "add_edge":
        kw = {}
        if c["w"] is not None:
            kw["weight"] = c["w"]
        if c["meta"] is not None:
            kw["metadata"] = dc(c["meta"])
        h.add_edge(tuple(c["e"]), **kw)
    elif k == "add_edges":
        kw = {}
        if c["ws"] is not None:
            kw["weights"] = list(c["ws"])
        if c["metas"] is not None:
            kw["metadata"] = [dc(m) for m in c["metas"]]  # no aliasing between entries
        h.add_edges([tuple(e) for e in c["es"]], **kw)
    elif k == "remove_edge":
        h.remove_edge(tuple(c["e"]))
    elif k == "remove_edges":
        h.remove_edges([tuple(e) for e in c["es"]])
    elif k == "remove_node":
        if c["keep"]:
            h.remove_node(c["n"], keep_edges=True)
        else:
            h.remove_node(c["n"])
    elif k == "remove_nodes":
        h.remove_nodes(list(c["ns"]), keep_edges=c["keep"])
    elif k == "set_weight":
        h.set_weight(tuple(c["e"]), c["w"])
    elif k == "set_node_metadata":
        h.set_node_metadata(c["n"], dc(c["meta"]))
    elif k == "set_edge_metadata":
        h.set_edge_metadata(tuple(c["e"]), dc(c["meta"]))
    elif k == "set_attr_node":
        h.set_attr_to_node_metadata(c["n"], c["field"], dc(c["value"]))
    elif k == "remove_attr_node":
        h.remove_attr_from_node_metadata(c["n"], c["field"])
    elif k == "set_attr_edge":
        h.set_attr_to_edge_metadata(tuple(c["e"]), c["field"], dc(c["value"]))
    elif k == "remove_attr_edge":
        h.remove_attr_from_edge_metadata(tuple(c["e"]), c["field"])
    elif k == "set_attr_hg":
        h.set_attr_to_hypergraph_metadata(c["field"], dc(c["value"]))
    elif k == "clear":
        h.clear()
    else:
        raise ValueError(k)


# --------------------------------------------------------------------------
# the check


def build_initial(case, U):
    from hypergraphx import Hypergraph

    init = case["init"]
    weighted = case["weighted"]
    model = RefHypergraph(weighted)
    kw = {"weighted": weighted}
    if init["hg_meta"] is not None:
        kw["hypergraph_metadata"] = dc(init["hg_meta"])
        model.hg_required = dc(init["hg_meta"])
    if init["node_meta"] is not None:
        nm = {}
        for i, meta in init["node_meta"]:
            nm[U[i % len(U)]] = meta  # later entries win, as in a dict literal
        kw["node_metadata"] = dc(nm)
        for n, meta in nm.items():
            model.add_node(n, dc(meta))
            # add_node with metadata on a *new* node is definite
    es = []
    seen = set()
    for ns in init["edges"]:
        e = dedupe([U[i % len(U)] for i in ns])
        if frozenset(e) not in seen:
            seen.add(frozenset(e))
            es.append(e)
    if es:
        kw["edge_list"] = [tuple(e) for e in es]
        ws = None
        if weighted and init["weights"] is not None:
            ws = (init["weights"] * len(es))[: len(es)]
            kw["weights"] = list(ws)
        metas = None
        if init["edge_meta"] is not None:
            metas = (init["edge_meta"] + [{} for _ in es])[: len(es)]
            kw["edge_metadata"] = [dc(m) for m in metas]
        for i, e in enumerate(es):
            model.add_edge(e, ws[i] if ws is not None else None,
                           dc(metas[i]) if metas is not None else None)
    h = Hypergraph(**kw)
    return h, model, kw


def check_against_model(h, model, U, probes, step_desc, prev_obs=None):
    obs = observe(h, U, probes, real=True)
    exp = observe(model, U, probes, real=False)
    d = diff_obs(exp, obs, ALT_KEYS)
    if d is not None:
        raise Violation("after %s: %s" % (step_desc, d))
    hm = hg_meta_of(h)
    for f, v in model.hg_required.items():
        if not (isinstance(hm, dict) and f in hm and hm[f] == v):
            raise Violation("after %s: hypergraph metadata field %r expected %r, metadata is %r"
                            % (step_desc, f, v, hm))
    collapse(model, obs)
    obs["__hg_meta__"] = hm
    return obs


def check_history(case, ctx):
    U = case["universe"]["labels"]
    h, model, kw = build_initial(case, U)
    probes = []

    def note_probe(e):
        p = tuple(sorted(e))
        if p not in probes and len(probes) < 40:
            probes.append(p)

    trace = [{"init": {k: v for k, v in kw.items()}}]
    ctx.trace = trace
    frozen = []  # (object, model, obs) of originals left behind by copy()
    cur_obs = check_against_model(h, model, U, probes, "construction")
    seen_removal = False
    inserted_after = False
    reinsertion = False
    n_reject = 0
    for step, aop in enumerate(case["ops"]):
        c = resolve(aop, model, U)
        if c is None:
            ctx.exclude("keep_edges=True removal that would leave an empty hyperedge")
            continue
        trace.append(c)
        desc = "step %d %r" % (step, c)
        n_probes = len(probes)
        if "e" in c:
            note_probe(c["e"])
        for e in c.get("es", []):
            note_probe(e)
        if len(probes) != n_probes:  # the observation now asks about more hyperedges
            cur_obs = observe(h, U, probes, real=True)
            cur_obs["__hg_meta__"] = hg_meta_of(h)
            for i, (h0, m0, o0) in enumerate(frozen):
                o0 = observe(h0, U, probes, real=True)
                o0["__hg_meta__"] = hg_meta_of(h0)
                frozen[i] = (h0, m0, o0)
        if c["op"] == "copy":
            ctx.label("op:copy")
            h2 = h.copy()
            frozen.append((h, dc(model), cur_obs))
            h = h2
            cur_obs = check_against_model(h, model, U, probes, desc)
            continue
        # classification (before the model changes)
        if c["op"] in ("add_edge",) and frozenset(c["e"]) in model.edges:
            reinsertion = True
            ctx.label("reinsert_existing")
            if tuple(c["e"]) != tuple(sorted(c["e"])):
                ctx.label("reinsert_permuted")
        if c["op"] == "add_edges" and any(frozenset(e) in model.edges for e in c["es"]):
            reinsertion = True
            ctx.label("reinsert_existing_batch")
        m2 = dc(model)
        accepted = apply_model(m2, c)
        raised = None
        try:
            apply_real(h, c)
        except Violation:
            raise
        except Exception as e:  # the library rejected (or crashed on) the operation
            raised = e
        ctx.label("op:" + c["op"])
        if accepted:
            if raised is not None:
                import traceback
                tb = traceback.extract_tb(raised.__traceback__)[-1]
                raise Violation(
                    "%s is a valid operation but raised %s: %s (%s:%d)"
                    % (desc, type(raised).__name__, str(raised)[:200],
                       tb.filename.split("/")[-1], tb.lineno),
                    key="valid-op-raised:%s" % c["op"])
            model = m2
            if c["op"] in ("remove_edge", "remove_edges", "remove_node", "remove_nodes"):
                seen_removal = True
                if c.get("keep"):
                    reinsertion = True  # a keep_edges shrink re-inserts hyperedges
                    ctx.label("keep_edges_shrink")
            elif c["op"] in ("add_edge", "add_edges") and seen_removal:
                inserted_after = True
            cur_obs = check_against_model(h, model, U, probes, desc)
        else:
            n_reject += 1
            ctx.label("rejected:" + c["op"])
            obs = observe(h, U, probes, real=True)
            obs["__hg_meta__"] = hg_meta_of(h)
            d = diff_obs(cur_obs, obs)
            if d is not None:
                raise Violation(
                    "%s must be rejected (%s) but the observable state changed: %s"
                    % (desc, "raised %s" % type(raised).__name__ if raised else "no exception", d),
                    key="rejected-op-changed-state:%s" % c["op"])
        # originals left behind by copy() must not move
        for (h0, m0, o0) in frozen:
            obs0 = observe(h0, U, probes, real=True)
            obs0["__hg_meta__"] = hg_meta_of(h0)
            d = diff_obs({k: o0[k] for k in obs0 if k in o0}, obs0)
            if d is not None:
                raise Violation("%s on a copy changed the original: %s" % (desc, d),
                                key="copy-aliasing")
    if frozen:
        ctx.label("has_copy")
    if n_reject:
        ctx.label("has_rejection")
    ctx.label("weighted" if case["weighted"] else "unweighted")
    ctx.label("labels:" + case["universe"]["kind"])
    ctx.nontrivial(seen_removal and reinsertion)
    if seen_removal and inserted_after:
        ctx.label("insert_after_removal")


# --------------------------------------------------------------------------
# generators

sel = st.integers(0, 30)
idx = st.integers(0, 7)


def edge_spec(modes=("existing", "fresh")):
    return st.fixed_dictionaries({
        "mode": st.sampled_from(list(modes)),
        "ns": st.lists(idx, min_size=1, max_size=5, unique=True),
        "pick": sel, "perm": sel})


def node_spec():
    return st.fixed_dictionaries({
        "mode": st.sampled_from(["existing"] * 4 + ["fresh"]), "i": idx, "pick": sel})


def weight_for(weighted):
    if weighted:
        return st.one_of(st.none(), st.integers(1, 9), st.sampled_from([0.5, 2.5]))
    # 1/None accepted; anything else is an intended rejection
    return st.sampled_from([None, None, None, 1, 1, 3])


KINDS = (["add_edge"] * 8 + ["add_edges"] * 3 + ["add_node"] * 2 + ["add_nodes"]
         + ["remove_edge"] * 4 + ["remove_edges"] * 2 + ["remove_node"] * 4 + ["remove_nodes"] * 2
         + ["set_weight"] * 2 + ["set_node_metadata", "set_edge_metadata", "set_attr_node",
            "remove_attr_node", "set_attr_edge", "remove_attr_edge", "set_attr_hg"]
         + ["copy"])


@st.composite
def op_strategy(draw, weighted, kinds=None):
    kinds = kinds or KINDS
    # clear() is rare: it wipes the history that makes later steps interesting
    k = "clear" if draw(st.integers(0, 59)) == 59 else draw(st.sampled_from(kinds))
    field = st.sampled_from(S.ATTRS)
    # operations on hyperedges / nodes mostly aim at existing ones (the rest are
    # intended rejections or fresh insertions)
    e_exist = edge_spec(["existing"] * 4 + ["fresh"])
    e_mixed = edge_spec(["existing", "fresh"])
    op = {"op": k}
    if k == "add_node":
        op.update(node=draw(node_spec()), meta=draw(S.opt_metadata()))
    elif k == "add_nodes":
        op.update(ns=draw(st.lists(idx, min_size=1, max_size=4, unique=True)),
                  metas=draw(st.one_of(st.none(), st.lists(S.metadata(), min_size=1, max_size=4))))
    elif k == "add_edge":
        op.update(edge=draw(e_mixed), w=draw(weight_for(weighted)), meta=draw(S.opt_metadata()))
    elif k == "add_edges":
        ws = (st.one_of(st.none(), st.lists(st.integers(1, 9), min_size=4, max_size=4))
              if weighted else st.none())
        op.update(edges=draw(st.lists(e_mixed, min_size=1, max_size=4)), ws=draw(ws),
                  short_weights=draw(st.integers(0, 9)) == 9,
                  metas=draw(st.one_of(st.none(), st.lists(S.metadata(), max_size=4))))
    elif k == "remove_edge":
        op.update(edge=draw(e_exist))
    elif k == "remove_edges":
        op.update(edges=draw(st.lists(e_exist, min_size=1, max_size=3)))
    elif k == "remove_node":
        op.update(node=draw(node_spec()), keep=draw(st.booleans()))
    elif k == "remove_nodes":
        op.update(nodes=draw(st.lists(node_spec(), min_size=1, max_size=3)),
                  keep=draw(st.booleans()))
    elif k == "set_weight":
        op.update(edge=draw(e_exist),
                  w=draw(st.integers(1, 9) if weighted else st.sampled_from([1, 1, 1, 4])))
    elif k == "set_node_metadata":
        op.update(node=draw(node_spec()), meta=draw(S.metadata()))
    elif k == "set_edge_metadata":
        op.update(edge=draw(e_exist), meta=draw(S.metadata()))
    elif k == "set_attr_node":
        op.update(node=draw(node_spec()), field=draw(field), value=draw(S.json_values))
    elif k == "remove_attr_node":
        op.update(node=draw(node_spec()), field=draw(field), fpick=draw(sel))
    elif k == "set_attr_edge":
        op.update(edge=draw(e_exist), field=draw(field), value=draw(S.json_values))
    elif k == "remove_attr_edge":
        op.update(edge=draw(e_exist), field=draw(field), fpick=draw(sel))
    elif k == "set_attr_hg":
        op.update(field=draw(field), value=draw(S.json_values))
    return op


@st.composite
def histories(draw, max_steps):
    weighted = draw(st.booleans())
    universe = draw(S.universes(min_size=3, max_size=8, kinds=("ints", "strs", "range", "ints")))
    with_init = draw(st.booleans())
    init = {"edges": [], "weights": None, "node_meta": None, "edge_meta": None, "hg_meta": None}
    if with_init:
        init = {
            "edges": draw(st.lists(st.lists(idx, min_size=1, max_size=5, unique=True), max_size=5)),
            "weights": draw(st.one_of(st.none(), st.lists(st.integers(1, 9), min_size=1, max_size=5))),
            "node_meta": draw(st.one_of(st.none(), st.lists(st.tuples(idx, S.metadata()), max_size=3))),
            "edge_meta": draw(st.one_of(st.none(), st.lists(S.metadata(), max_size=5))),
            "hg_meta": draw(st.one_of(st.none(), S.metadata())),
        }
        if init["node_meta"] is not None:
            init["node_meta"] = [list(t) for t in init["node_meta"]]
    min_steps = draw(st.sampled_from([1, 8, 16]))
    ops = draw(st.lists(op_strategy(weighted), min_size=min_steps, max_size=max_steps))
    return {"weighted": weighted, "universe": universe, "init": init, "ops": ops}


def _strategy(tier):
    return histories(30 if tier == "quick" else 50)


CLAUSES = [
    Clause(
        "history", _strategy, check_history, quick=150, thorough=400, shards_quick=4,
        rule="history with at least one removal (edge or node) and at least one re-insertion of "
             "an existing hyperedge key or a keep_edges=True shrink; distinct by canonical JSON "
             "of the whole case",
    ),
]
