"""C14 -- random generators honour their structural contracts and their seeds.

One clause per function.  All of them draw from the *global* ``random`` /
``numpy.random`` state (some re-seed one of the two from a ``seed`` argument),
so every call is preceded by ``random.seed(k); numpy.random.seed(k)`` with ``k``
from the case; "whatever the random draws" is sampled with several seeds per
input.  The oracles are structural invariants that every outcome must satisfy;
they never predict *which* hyperedges are drawn.
"""

import itertools
import math
import random
from collections import Counter
from fractions import Fraction

import numpy as np
from hypothesis import strategies as st

from .. import strategies as S
from ..common import dc, permuted
from ..engine import Clause, require
from ..common import with_history  # noqa: E402

ASSUMPTIONS = [
    "oracle = structural invariants of every outcome (node set, sizes, distinctness, counts, "
    "untouched remainder, reproducibility), never the particular draw; the global random / "
    "numpy.random states are seeded from the case before every call and several seeds are run "
    "per input",
    "generative models are called inside their documented domain: hyperedge sizes >= 2 and <= "
    "number of nodes (random_hypergraph / random_uniform_hypergraph: sizes >= 1, their docstrings "
    "set no lower bound); scale_free counts <= C(n,size)/2 (size = n: <= 1) and scales > 0 (the "
    "rejection sampling terminates); corr_target in [0,1] only with correlated=True or omitted "
    "and num_shuffles=0; "
    "HOAD orders 1..N-1 and activities in [0,1]; add_random_edges asks for at most C(n,size) "
    "hyperedges",
    "random_shuffle: 'replacement nodes only from the rewired hyperedges' is decided as: there "
    "is a set R of old hyperedges of the size with |R| <= ceil(p*m) (docstring: 'replacing a "
    "fraction p of them') that contains every hyperedge that disappeared and whose nodes cover "
    "every hyperedge that appeared (exhaustive search over R, m <= 8)",
    "a drawn hyperedge that coincides with an existing one (add_random_edge(s)) may update that "
    "hyperedge (add_edge documents the weight update), but only in this shape: weight unchanged "
    "or increased by a whole number, metadata unchanged or reset to {}; at most "
    "num_edges - |new| existing hyperedges of the requested size may change, all others not",
    "HOADmodel: a record of size o+1 stems from order o (orders are distinct keys) and is created "
    "by a member node that activated with probability activities[o][node]; so it holds a node of "
    "positive activity at order o and an all-zero order emits nothing (random() == 0.0 aside)",
    "inplace=False returns an independent object (copy()): after the checks the returned "
    "hypergraph is modified through the public API (metadata attributes, weight, a hyperedge "
    "removed, one added) and the argument must still be unchanged (key 'argument-aliased')",
    "omitted arguments take their documented defaults: inplace=True (add_random_edge(s), "
    "random_shuffle, random_shuffle_all_orders), p=1.0, correlated=True",
    "a seed argument is varied from call to call within a case (seed, seed+1, ...)",
    "for 0 < p < 1 weights/metadata of the hyperedges of the shuffled size are not claimed; "
    "for p = 0 the complete public observation (nodes+metadata, hyperedges+weights+metadata, "
    "degrees, weighted flag, hypergraph metadata) must be unchanged",
    "seed reproducibility is claimed (and checked) only for random_hypergraph / "
    "random_uniform_hypergraph; listing order is never compared",
    "labels returned as numpy scalars (random_shuffle, scale_free) are compared by value",
]


# (Hypothesis 6.168 rewrites .filter(bool) on dictionaries() into a broken min_size; build
# the non-empty variant directly)
NONEMPTY_META = st.dictionaries(st.sampled_from(S.ATTRS), S.json_values, min_size=1, max_size=2)


def _seed(k):
    random.seed(k)
    np.random.seed(k)


def _py(x):
    return x.item() if isinstance(x, np.generic) else x


def _cedge(e, what):
    """Canonical form (sorted python values) of a hyperedge returned by the library."""
    e = tuple(_py(x) for x in e)
    require(len(set(e)) == len(e),
            lambda: "%s: hyperedge %r lists a node twice (nodes of a hyperedge must be distinct)"
            % (what, e), key="dup-node")
    return tuple(sorted(e))


def _short(x, n=500):
    s = repr(x)
    return s if len(s) <= n else s[:n] + "..."


# ---------------------------------------------------------------------------
# random_hypergraph / random_uniform_hypergraph


def _obs_generated(out, what):
    from hypergraphx import Hypergraph
    require(isinstance(out, Hypergraph),
            lambda: "%s returned %r, not a Hypergraph" % (what, type(out).__name__), key="type")
    nodes = [_py(x) for x in out.get_nodes()]
    edges = [_cedge(e, what) for e in out.get_edges()]
    dup = [e for e, c in Counter(edges).items() if c > 1]
    require(not dup, lambda: "%s: hyperedge %r listed more than once" % (what, dup[0]),
            key="dup-edge")
    return nodes, edges


def _check_generated(what, n, requested, nodes, edges, exact):
    require(Counter(nodes) == Counter(range(n)),
            lambda: "%s: nodes must be exactly 0..%d, got %s" % (what, n - 1, _short(sorted(
                nodes, key=repr))), key="nodes")
    for e in edges:
        require(len(e) in requested,
                lambda: "%s: hyperedge %r has size %d, requested sizes are %r"
                % (what, e, len(e), sorted(requested)), key="size")
        require(all(isinstance(x, int) and not isinstance(x, bool) and 0 <= x < n for x in e),
                lambda: "%s: hyperedge %r has a node outside 0..%d" % (what, e, n - 1),
                key="foreign-node")
    by = Counter(len(e) for e in edges)
    for k, c in requested.items():
        if exact:
            require(by[k] == c,
                    lambda: "%s: %d distinct hyperedges of size %d requested, %d returned"
                    % (what, c, k, by[k]), key="count")
        else:
            lo = 1 if c >= 1 else 0
            require(lo <= by[k] <= c,
                    lambda: "%s: %d hyperedges of size %d requested, %d returned (expected %d..%d)"
                    % (what, c, k, by[k], lo, c), key="count")


def _seed_arg(case, i):
    """The seed argument of the i-th call of a case: varied per call, so that calls with a seed
    argument do not all repeat one draw (a pure function of the case)."""
    return None if case["seed"] is None else case["seed"] + i


def _check_rh(case, ctx, uniform):
    from hypergraphx.generation.random import random_hypergraph, random_uniform_hypergraph
    n = case["n"]
    requested = {int(k): int(c) for k, c in case["sizes"]}

    def call(g, seed):
        _seed(g)
        kw = {} if seed is None else {"seed": seed}
        if uniform:
            (k, c), = requested.items()
            return random_uniform_hypergraph(n, k, c, **kw)
        return random_hypergraph(n, dict(requested), **kw)

    results = []
    for i, g in enumerate(case["gseeds"]):
        seed = _seed_arg(case, i)
        if uniform:
            what = "random_uniform_hypergraph(%d, %d, %d, seed=%r)" % (
                (n,) + tuple(requested.items())[0] + (seed,))
        else:
            what = "random_hypergraph(%d, %r, seed=%r)" % (n, requested, seed)
        out = call(g, seed)
        nodes, edges = _obs_generated(out, what + " [global seed %d]" % g)
        ctx.trace = {"call": what, "global_seed": g, "edges": [list(e) for e in edges]}
        _check_generated(what + " [global seed %d]" % g, n, requested, nodes, edges, exact=False)
        results.append((Counter(nodes), set(edges)))
        if seed is not None:
            # the seed argument alone decides the outcome, whatever the global state was
            again = call(g + 1, seed)
            nodes2, edges2 = _obs_generated(again, what)
            require((Counter(nodes2), set(edges2)) == results[-1],
                    lambda: "%s called twice (global RNG state different) returned different "
                    "hypergraphs: %s vs %s" % (what, _short(sorted(edges)),
                                               _short(sorted(edges2))), key="seed")
    if case["seed"] is not None:
        ctx.label("seed argument")
    else:
        # no seed argument: nothing is claimed about reproducibility (the property speaks of
        # "the same seed"; a generator that owns its random source would be correct too)
        ctx.label("global seed")
    pos = [k for k, c in requested.items() if c >= 1]
    ctx.label("sizes requested: %d" % len(requested))
    if 1 in requested:
        ctx.label("size 1 requested")
    if any(c == 0 for c in requested.values()):
        ctx.label("a count of 0")
    if any(c > math.comb(n, k) for k, c in requested.items()):
        ctx.label("count > C(n,size)")
    if len({frozenset(r[1]) for r in results}) > 1:
        ctx.label("outcomes differ between calls")
        if case["seed"] is not None:
            ctx.label("seed argument varied: outcomes differ between calls")
    ctx.nontrivial(len(pos) >= 2 if not uniform else (len(pos) == 1 and requested[pos[0]] >= 2))


def check_random_hypergraph(case, ctx):
    _check_rh(case, ctx, False)


def check_random_uniform(case, ctx):
    _check_rh(case, ctx, True)


@st.composite
def _rh_cases(draw, tier, uniform):
    n = draw(st.integers(2, 9 if tier != "quick" else 8))
    # sizes 2..5 first (Hypothesis favours the head of the list); singletons are admissible too
    # (the docstrings set no lower bound on the size)
    ks = list(range(2, min(n, 5) + 1)) + ([1] if draw(st.sampled_from([False, False, True]))
                                          else [])
    if uniform:
        sizes = [[draw(st.sampled_from(ks)), draw(st.sampled_from([3, 0, 1, 2, 5, 8, 12]))]]
    else:
        want = draw(st.sampled_from([2, 1, 2, 3]))
        chosen = draw(st.lists(st.sampled_from(ks), min_size=min(len(ks), want),
                               max_size=len(ks), unique=True))
        sizes = [[k, draw(st.sampled_from([3, 0, 1, 2, 5, 8, 12]))] for k in chosen]
    return {"n": n, "sizes": sizes,
            "seed": draw(st.one_of(S.seeds, st.none(), st.just(0))),
            "gseeds": draw(st.lists(S.seeds, min_size=2, max_size=3, unique=True))}


# ---------------------------------------------------------------------------
# scale_free_hypergraph

MODES = ["default", "uncorrelated", "corr_target", "shuffles", "correlated_only",
         "corr_target_only"]


def check_scale_free(case, ctx):
    from hypergraphx.generation.scale_free import scale_free_hypergraph
    n = case["n"]
    requested = {int(k): int(c) for k, c, _s in case["sizes"]}
    mode = case["mode"]
    kw = {}
    if mode == "uncorrelated":
        kw = {"correlated": False}
    elif mode == "corr_target":
        kw = {"correlated": True, "corr_target": case["corr_target"]}
    elif mode == "shuffles":
        kw = {"num_shuffles": case["num_shuffles"]}
    elif mode == "correlated_only":
        kw = {"correlated": True}
    elif mode == "corr_target_only":
        # corr_target given, `correlated` left at its default (True: the combination is valid)
        kw = {"corr_target": case["corr_target"]}
    what0 = "scale_free_hypergraph(%d, %r, %r%s)" % (
        n, requested, {int(k): s for k, _c, s in case["sizes"]},
        "".join(", %s=%r" % kv for kv in kw.items()))
    outcomes = set()
    for g in case["gseeds"]:
        what = what0 + " [numpy seed %d]" % g
        _seed(g)
        out = scale_free_hypergraph(n, {int(k): c for k, c, _s in case["sizes"]},
                                    {int(k): s for k, _c, s in case["sizes"]}, **kw)
        nodes, edges = _obs_generated(out, what)
        ctx.trace = {"call": what, "edges": [list(e) for e in edges]}
        _check_generated(what, n, requested, nodes, edges, exact=True)
        outcomes.add(frozenset(edges))
    ctx.label("mode=" + mode, "sizes requested: %d" % len(requested))
    if any(c == 0 for c in requested.values()):
        ctx.label("a count of 0")
    if n in requested:
        ctx.label("size = number of nodes")
    if len(outcomes) > 1:
        ctx.label("outcomes differ between seeds")
    ctx.nontrivial(sum(1 for c in requested.values() if c >= 1) >= 2)


@st.composite
def _sf_cases(draw, tier):
    n = draw(st.sampled_from([6, 3, 4, 5, 7, 8] + ([9] if tier != "quick" else [])))
    # k = n is admissible too, with a count of at most 1 (there is one such hyperedge: asking
    # for more never terminates)
    ks = [k for k in (2, 3, 4) if k < n] + (
        [n] if n <= 5 and draw(st.sampled_from([False, False, True])) else [])
    chosen = draw(st.lists(st.sampled_from(ks), min_size=min(len(ks), draw(st.sampled_from(
        [2, 1, 2, 3]))), max_size=len(ks), unique=True))
    sizes = []
    for k in chosen:
        # rejection sampling of distinct hyperedges terminates
        cap = math.comb(n, k) // 2 if k < n else 1
        c = draw(st.sampled_from([min(cap, x) for x in (3, 0, 1, 2, 5, 8, cap)]))
        sizes.append([k, c, draw(st.sampled_from([1.0, 0.5, 2.0, 10.0]))])
    mode = draw(st.sampled_from(MODES))
    return {"n": n, "sizes": sizes, "mode": mode,
            "corr_target": draw(st.sampled_from([0.5, 0.0, 0.25, 0.9, 1.0])),
            "num_shuffles": draw(st.sampled_from([2, 0, 1, 5, 20])),
            "gseeds": draw(st.lists(S.seeds, min_size=2, max_size=3, unique=True))}


# ---------------------------------------------------------------------------
# HOADmodel


def check_hoad(case, ctx):
    from hypergraphx import TemporalHypergraph
    from hypergraphx.generation.activity_driven import HOADmodel
    N = case["N"]
    acts = {int(o): list(a) for o, a in case["orders"]}
    time = case["time"]
    horizon = 100 if time is None else time
    sizes_ok = {o + 1 for o in acts}
    total = 0
    for g in case["gseeds"]:
        what = "HOADmodel(%d, %r%s) [random seed %d]" % (
            N, acts, "" if time is None else ", time=%d" % time, g)
        _seed(g)
        if time is None:
            out = HOADmodel(N, {o: list(a) for o, a in acts.items()})
        else:
            out = HOADmodel(N, {o: list(a) for o, a in acts.items()}, time=time)
        require(isinstance(out, TemporalHypergraph),
                lambda: "%s returned %r, not a TemporalHypergraph" % (what, type(out).__name__),
                key="type")
        recs = list(out.get_edges())
        ctx.trace = {"call": what, "records": _short(recs, 2000)}
        for rec in recs:
            require(isinstance(rec, tuple) and len(rec) == 2,
                    lambda: "%s: record %r is not a (time, hyperedge) pair" % (what, rec),
                    key="record")
            t, e = rec
            e = tuple(_py(x) for x in e)
            require(len(e) in sizes_ok,
                    lambda: "%s: record %r has size %d, expected order+1 in %r"
                    % (what, rec, len(e), sorted(sizes_ok)), key="size")
            require(len(set(e)) == len(e),
                    lambda: "%s: record %r lists a node twice" % (what, rec), key="dup-node")
            require(all(isinstance(x, int) and 0 <= x < N for x in e),
                    lambda: "%s: record %r has a node outside 0..%d" % (what, rec, N - 1),
                    key="foreign-node")
            require(isinstance(_py(t), int) and 0 <= t < horizon,
                    lambda: "%s: record %r has a time outside [0, %d)" % (what, rec, horizon),
                    key="time")
            # activity-driven sampling rule: a hyperedge of order o is created by a node that
            # activates with probability activities[o][node] and is a member of the hyperedge
            # it creates.  Orders are distinct keys, so a record of size o+1 stems from order o
            # and holds a node whose activity at order o is positive (a node of activity 0
            # never activates; "0 > random()" is impossible).
            a = acts[len(e) - 1]
            require(any(a[x] > 0 for x in e),
                    lambda: "%s: record %r has size %d but none of its nodes is active at order "
                    "%d (activities %r): no node can have created it"
                    % (what, rec, len(e), len(e) - 1, a), key="no-activator")
        for x in out.get_nodes():
            require(isinstance(_py(x), int) and 0 <= x < N,
                    lambda: "%s: node %r outside 0..%d" % (what, x, N - 1), key="foreign-node")
        total += len(recs)
    ctx.label("orders: %d" % len(acts), "time omitted" if time is None else
              "time=0" if time == 0 else "time>0")
    ctx.label("no record emitted" if total == 0 else "records emitted")
    zero = [o for o, a in acts.items() if not any(a)]
    if zero and len(zero) < len(acts):
        ctx.label("an all-zero order next to an active one")
    if any(0 < sum(1 for x in a if x > 0) < N for a in acts.values()):
        ctx.label("some nodes inactive at an order")
    ctx.nontrivial(total >= 2 and len(acts) >= 1 and horizon >= 2)


@st.composite
def _hoad_cases(draw, tier):
    N = draw(st.integers(2, 7))
    orders = draw(st.lists(st.integers(1, min(N - 1, 4)), min_size=1, max_size=min(N - 1, 3),
                           unique=True))
    act = st.sampled_from([0.5, 0.0, 1.0, 0.1, 0.9])
    recs = []
    for o in orders:
        # all-zero vectors (the order emits nothing) and vectors with a single active node make
        # "which order / which node created this record" decidable
        kind = draw(st.sampled_from(["mixed", "zero", "single", "mixed", "sparse"]))
        if kind == "zero":
            vec = [0.0] * N
        elif kind == "single":
            vec = [0.0] * N
            vec[draw(st.integers(0, N - 1))] = draw(st.sampled_from([1.0, 0.5, 0.9]))
        elif kind == "sparse":
            vec = draw(st.lists(st.sampled_from([0.0, 0.0, 1.0, 0.5]), min_size=N, max_size=N))
        else:
            vec = draw(st.lists(act, min_size=N, max_size=N))
        recs.append([o, vec])
    time = draw(st.sampled_from([3, 0, 1, 2, 6, 10, None]))
    return {"N": N, "orders": recs, "time": time,
            "gseeds": draw(st.lists(S.seeds, min_size=1 if time is None else 2,
                                    max_size=1 if time is None else 3, unique=True))}


# ---------------------------------------------------------------------------
# inputs for the functions that modify a given Hypergraph


@with_history
def _build(case):
    from hypergraphx import Hypergraph
    U = case["labels"]
    edges = [tuple(U[i] for i in permuted(e, case["perm"])) for e in case["edges"]]
    kw = {}
    if case["weighted"]:
        kw.update(weighted=True, weights=list(case["weights"]))
    if case["emeta"] is not None:
        kw["edge_metadata"] = [dc(m) for m in case["emeta"]]
    if case["nmeta"]:
        kw["node_metadata"] = {U[i]: dc(m) for i, m in case["nmeta"]}
    h = Hypergraph(edge_list=edges, **kw)
    if case["all_nodes"]:
        h.add_nodes(list(U))
    return h


def _obs(h, what):
    """Complete public observation of a Hypergraph (order-free)."""
    from hypergraphx import Hypergraph
    require(isinstance(h, Hypergraph),
            lambda: "%s: expected a Hypergraph, got %r" % (what, type(h).__name__), key="type")
    nodes = [_py(x) for x in h.get_nodes()]
    require(len(set(nodes)) == len(nodes),
            lambda: "%s: get_nodes() repeats a node: %r" % (what, nodes), key="dup-node")
    edges = {}
    for e in h.get_edges():
        ce = _cedge(e, what)
        require(ce not in edges, lambda: "%s: get_edges() lists %r twice" % (what, ce),
                key="dup-edge")
        edges[ce] = (h.get_weight(e), dc(h.get_edge_metadata(e)))
    return {
        "weighted": h.is_weighted(),
        "nodes": {n: dc(h.get_node_metadata(n)) for n in nodes},
        "edges": edges,
        "degree": {n: h.degree(n) for n in nodes},
        "num_edges": h.num_edges(),
        "hypergraph_metadata": dc(h.get_hypergraph_metadata()),
    }


def _diff(a, b):
    for k in a:
        if a[k] != b[k]:
            if isinstance(a[k], dict):
                for kk in sorted(set(a[k]) | set(b[k]), key=repr):
                    if a[k].get(kk, "<absent>") != b[k].get(kk, "<absent>"):
                        return "%s[%r]: before %s, after %s" % (
                            k, kk, _short(a[k].get(kk, "<absent>")),
                            _short(b[k].get(kk, "<absent>")))
            return "%s: before %s, after %s" % (k, _short(a[k]), _short(b[k]))
    return None


def _unchanged(what, before, after, key):
    d = _diff(before, after)
    require(d is None, lambda: "%s: %s" % (what, d), key=key)


def _result(what, fn_inplace_none, hg, ret, inplace, before):
    """The object carrying the result; checks the inplace contract."""
    from hypergraphx import Hypergraph
    if inplace:
        if fn_inplace_none:
            require(ret is None, lambda: "%s: documented to return None when inplace=True, "
                    "returned %r" % (what, type(ret).__name__), key="inplace-return")
        else:
            require(ret is hg, lambda: "%s: documented to return the original hypergraph when "
                    "inplace=True, returned %s" % (what, "another object" if ret is not None
                                                   else "None"), key="inplace-return")
        return hg
    require(isinstance(ret, Hypergraph) and ret is not hg,
            lambda: "%s: inplace=False must return a new Hypergraph, returned %s"
            % (what, "its argument" if ret is hg else type(ret).__name__), key="inplace-return")
    _unchanged(what + ": inplace=False must leave its argument untouched, but", before,
               _obs(hg, what), "argument-modified")
    return ret


def _independent(what, hg, ret, before, ctx):
    """inplace=False: the returned object shares nothing with the argument (copy()'s contract):
    changes made to it afterwards through the public API do not show in the argument."""
    edges = sorted((_cedge(e, what) for e in ret.get_edges()), key=lambda e: (len(e), repr(e)))
    nodes = sorted((_py(x) for x in ret.get_nodes()), key=repr)
    weighted = ret.is_weighted()
    ret.set_attr_to_hypergraph_metadata("probe", 1)
    if nodes:
        ret.set_attr_to_node_metadata(nodes[0], "probe", 1)
        ret.set_node_metadata(nodes[-1], {"probe": 2})
    if edges:
        ret.set_attr_to_edge_metadata(edges[0], "probe", 1)
        if weighted:
            ret.set_weight(edges[0], ret.get_weight(edges[0]) + 7)
        ret.remove_edge(edges[-1])
    have = set(edges)
    fresh = next((c for k in (2, 3, 1) for c in itertools.combinations(nodes, k)
                  if tuple(sorted(c)) not in have), None)
    if fresh is not None:
        ret.add_edge(fresh, weight=3 if weighted else None, metadata={"probe": 3})
    _unchanged(what + ": inplace=False: changes made afterwards to the RETURNED hypergraph show "
               "in the argument:", before, _obs(hg, what), "argument-aliased")
    ctx.label("inplace=False: returned object modified afterwards")


# None = argument omitted (documented default: inplace=True)
INPLACE = st.sampled_from([False, True, False, True, None])


def _inplace(case):
    return True if case["inplace"] is None else case["inplace"]


def _own_md(md):
    # the entries 'weighted' and 'type' are written by the constructor itself: a result that was
    # built afresh has them even when the argument's record had been replaced wholesale before
    # (weightedness itself is compared through is_weighted())
    return {k: v for k, v in md.items() if k not in ("weighted", "type")} \
        if isinstance(md, dict) else md


def _context_kept(what, before, after):
    for k in ("weighted", "nodes", "hypergraph_metadata"):
        a, b = before[k], after[k]
        if k == "hypergraph_metadata":
            a, b = _own_md(a), _own_md(b)
        require(a == b,
                lambda: "%s: %s changed: before %s, after %s"
                % (what, k, _short(before[k]), _short(after[k])), key="context-" + k)


@st.composite
def _hg_inputs(draw, tier, main_min=(4, 2, 3, 5), sizes=(1, 2, 3, 4)):
    big = tier != "quick"
    u = draw(S.universes(min_size=4, max_size=8 if big else 7))
    n = len(u["labels"])
    k = draw(st.sampled_from([k for k in (3, 2, 2, 3, 4) if k < n]))
    ksub = st.lists(st.integers(0, n - 1), min_size=k, max_size=k, unique=True)
    cap = math.comb(n, k)
    main = draw(st.lists(ksub, min_size=min(cap, draw(st.sampled_from(list(main_min)))),
                         max_size=min(cap, 8), unique_by=lambda e: tuple(sorted(e))))
    pool = [j for j in sizes if j <= n]
    other = st.sampled_from(pool).flatmap(
        lambda j: st.lists(st.integers(0, n - 1), min_size=j, max_size=j, unique=True))
    extra = draw(st.lists(other, min_size=draw(st.sampled_from([2, 0, 1, 3])), max_size=4,
                          unique_by=lambda e: tuple(sorted(e))))
    seen = {tuple(sorted(e)) for e in main}
    edges = list(main)
    for e in extra:
        if tuple(sorted(e)) not in seen:
            seen.add(tuple(sorted(e)))
            edges.append(e)
    edges = permuted(edges, draw(st.integers(0, 999)))
    m = len(edges)
    weighted = draw(st.sampled_from([True, False]))
    case = {
        "kind": u["kind"], "labels": u["labels"], "edges": edges, "main_size": k,
        "perm": draw(st.integers(0, 999)),
        "weighted": weighted,
        "weights": draw(st.lists(st.integers(2, 9), min_size=m, max_size=m)) if weighted else [],
        "emeta": draw(st.one_of(
            st.lists(NONEMPTY_META, min_size=m, max_size=m), st.none(),
            st.lists(S.metadata(), min_size=m, max_size=m))),
        "nmeta": draw(st.lists(st.tuples(st.integers(0, n - 1), NONEMPTY_META).map(
            list), max_size=3, unique_by=lambda x: x[0])),
        "all_nodes": draw(st.booleans()),
    }
    return case


def _label_input(case, ctx):
    ctx.label("labels=" + case["kind"], "weighted" if case["weighted"] else "unweighted")
    if case["emeta"] is not None and any(case["emeta"]):
        ctx.label("edge metadata")
    if case["nmeta"]:
        ctx.label("node metadata")


def _size_arg(case, sizes_present, n_nodes):
    """size_sel = 0 -> the main size; 1.. -> another present size; 9 -> an absent size."""
    sel = case["size_sel"]
    if sel == 9:
        absent = [k for k in range(1, n_nodes + 1) if k not in sizes_present]
        if absent:
            return absent[0]
        sel = 0
    if sel == 0:
        return case["main_size"]
    others = sorted(sizes_present)
    return others[sel % len(others)]


def _size_kw(case, size):
    return {"size": size} if case["by"] == "size" else {"order": size - 1}


# ---------------------------------------------------------------------------
# add_random_edge / add_random_edges


def _check_added(what, before, after, size, num, ctx):
    _context_kept(what, before, after)
    b, a = before["edges"], after["edges"]
    gone = [e for e in b if e not in a]
    require(not gone, lambda: "%s: hyperedge %r disappeared" % (what, gone[0]), key="edge-lost")
    new = [e for e in a if e not in b]
    for e in new:
        require(len(e) == size,
                lambda: "%s: added hyperedge %r has size %d, requested %d"
                % (what, e, len(e), size), key="size")
        require(all(x in before["nodes"] for x in e),
                lambda: "%s: added hyperedge %r uses a node that was not in the hypergraph"
                % (what, e), key="foreign-node")
    changed = [e for e in b if b[e] != a[e]]
    for e in changed:
        require(len(e) == size,
                lambda: "%s: hyperedge %r of another size changed: (weight, metadata) before %s, "
                "after %s" % (what, e, _short(b[e]), _short(a[e])), key="other-changed")
        # the statement is silent on what a coinciding draw does to the existing hyperedge;
        # add_edge documents "its weight is updated": a weight may stay or grow by a whole
        # number (one per coinciding draw), metadata may stay or be reset -- nothing else
        (wb, mb), (wa, ma) = b[e], a[e]
        require(wa == wb or (wa > wb and float(wa - wb).is_integer()),
                lambda: "%s: existing hyperedge %r (a coinciding draw at most): weight before %r, "
                "after %r (expected unchanged or increased by a whole number)"
                % (what, e, wb, wa), key="coinciding-weight")
        require(ma == mb or ma == {},
                lambda: "%s: existing hyperedge %r (a coinciding draw at most): metadata before "
                "%s, after %s (expected unchanged or reset to {})"
                % (what, e, _short(mb), _short(ma)), key="coinciding-metadata")
    require(len(new) + len(changed) <= num,
            lambda: "%s: %d hyperedge(s) requested but %d appeared (%s) and %d existing one(s) "
            "changed (%s)" % (what, num, len(new), _short(new), len(changed), _short(changed)),
            key="too-many")
    n_after = sum(1 for e in a if len(e) == size)
    # (no lower bound: the statement says the functions ONLY add hyperedges of that size; how
    # many of the drawn ones are new is not claimed)
    if n_after < num:
        ctx.label("fewer hyperedges of the size than requested draws")
    if changed:
        ctx.exclude("drawn hyperedge coincides with an existing one: its weight may grow by a "
                    "whole number and its metadata may be reset")
    if len(new) < num:
        ctx.label("a drawn hyperedge already existed")
    return new


def _check_add(case, ctx, many):
    from hypergraphx.generation.random import add_random_edge, add_random_edges
    _label_input(case, ctx)
    ever_new = False
    inplace = _inplace(case)
    for i, g in enumerate(case["gseeds"]):
        hg = _build(case)
        before = _obs(hg, "input")
        n_nodes = len(before["nodes"])
        size = 1 + case["size_raw"] % min(n_nodes, 5)
        kw = dict(_size_kw(case, size))
        if case["inplace"] is not None:
            kw["inplace"] = case["inplace"]
        if case["seed"] is not None:
            kw["seed"] = _seed_arg(case, i)
        if many:
            num = min(case["num"], math.comb(n_nodes, size))
            what = "add_random_edges(h, %d, %s) [global seed %d]" % (
                num, ", ".join("%s=%r" % kv for kv in kw.items()), g)
            _seed(g)
            ret = add_random_edges(hg, num, **kw)
        else:
            num = 1
            what = "add_random_edge(h, %s) [global seed %d]" % (
                ", ".join("%s=%r" % kv for kv in kw.items()), g)
            _seed(g)
            ret = add_random_edge(hg, **kw)
        ctx.trace = {"call": what, "input_edges": _short(sorted(before["edges"].items(),
                                                              key=repr), 1500)}
        res = _result(what, True, hg, ret, inplace, before)
        after = _obs(res, what)
        new = _check_added(what, before, after, size, num, ctx)
        ever_new = ever_new or bool(new)
        if not inplace:
            _independent(what, hg, ret, before, ctx)
    ctx.label("inplace=%s" % ("omitted" if case["inplace"] is None else case["inplace"]),
              "by=" + case["by"],
              "seed argument" if case["seed"] is not None else "global seed")
    if many:
        ctx.label("num=0" if case["num"] == 0 else "num>=1")
    ctx.nontrivial(ever_new and len(case["edges"]) >= 3)


def check_add_random_edge(case, ctx):
    _check_add(case, ctx, False)


def check_add_random_edges(case, ctx):
    _check_add(case, ctx, True)


@st.composite
def _add_cases(draw, tier, many):
    case = draw(_hg_inputs(tier, main_min=(3, 2, 4)))
    case["size_raw"] = draw(st.integers(0, 4)) if draw(st.booleans()) else case["main_size"] - 1
    case["by"] = draw(st.sampled_from(["size", "order"]))
    case["inplace"] = draw(INPLACE)
    case["seed"] = draw(st.one_of(st.none(), S.seeds))
    if many:
        case["num"] = draw(st.sampled_from([3, 0, 1, 2, 4, 6]))
    case["gseeds"] = draw(st.lists(S.seeds, min_size=2, max_size=3, unique=True))
    return case


# ---------------------------------------------------------------------------
# random_shuffle / random_shuffle_all_orders


def _rewired_ok(in_s, out_s, cap):
    """Is there R with removed <= R <= in_s, |R| <= cap, whose nodes cover every new hyperedge?"""
    removed = [e for e in in_s if e not in out_s]
    new = [e for e in out_s if e not in in_s]
    if len(removed) > cap:
        return False, "%d hyperedges disappeared (%s) but at most ceil(p*m) = %d may be replaced" % (
            len(removed), _short(removed), cap)
    need = set().union(*[set(e) for e in new]) if new else set()
    base = set().union(*[set(e) for e in removed]) if removed else set()
    if need <= base:
        return True, None
    rest = [e for e in in_s if e in out_s]
    for r in range(1, cap - len(removed) + 1):
        for extra in itertools.combinations(rest, r):
            if need <= base.union(*[set(e) for e in extra]):
                return True, None
    return False, ("new hyperedge(s) %s use nodes %s that no admissible set of at most %d rewired "
                   "hyperedges (which must contain the vanished %s) provides"
                   % (_short(new), _short(sorted(need - base, key=repr)), cap, _short(removed)))


def _check_shuffled_size(what, before, after, size, p):
    in_s = {e: v for e, v in before["edges"].items() if len(e) == size}
    out_s = {e: v for e, v in after["edges"].items() if len(e) == size}
    m = len(in_s)
    require(len(out_s) <= m,
            lambda: "%s: %d hyperedges of size %d before, %d after (a rewired hyperedge keeps its "
            "size; none can appear)" % (what, m, size, len(out_s)), key="count")
    if m:
        require(len(out_s) >= 1,
                lambda: "%s: all %d hyperedges of size %d vanished" % (what, m, size),
                key="count")
    cap = math.ceil(Fraction(p[0], p[1]) * m)
    ok, why = _rewired_ok(list(in_s), list(out_s), cap)
    require(ok, lambda: "%s (size %d, m=%d, p=%d/%d): %s; before %s, after %s"
            % (what, size, m, p[0], p[1], why, _short(sorted(in_s)), _short(sorted(out_s))),
            key="pool")
    return in_s, out_s


def _others_kept(what, before, after, shuffled_sizes):
    b = {e: v for e, v in before["edges"].items() if len(e) not in shuffled_sizes}
    a = {e: v for e, v in after["edges"].items() if len(e) not in shuffled_sizes}
    if a != b:
        for e in sorted(set(a) | set(b), key=repr):
            require(a.get(e) == b.get(e),
                    lambda: "%s: hyperedge %r of a size that is not shuffled: (weight, metadata) "
                    "before %s, after %s" % (what, e, _short(b.get(e, "<absent>")),
                                             _short(a.get(e, "<absent>"))), key="others-changed")


def _shuffle_call(case, hg, g, all_orders, p, size, i=0):
    from hypergraphx.generation.random import random_shuffle, random_shuffle_all_orders
    kw = {}
    if not all_orders:
        kw.update(_size_kw(case, size))
    if p is not None:                     # None = argument omitted (documented default 1.0)
        kw["p"] = p[0] / p[1]
    if case["inplace"] is not None:
        kw["inplace"] = case["inplace"]
    if case["preserve_degree"]:
        kw["preserve_degree"] = True
    if case["seed"] is not None:
        kw["seed"] = _seed_arg(case, i)
    name = "random_shuffle_all_orders" if all_orders else "random_shuffle"
    what = "%s(h, %s) [global seed %d]" % (name, ", ".join("%s=%r" % kv for kv in kw.items()), g)
    _seed(g)
    ret = (random_shuffle_all_orders if all_orders else random_shuffle)(hg, **kw)
    return what, ret


def _check_shuffle(case, ctx, all_orders):
    _label_input(case, ctx)
    p_arg = case["p"]
    p = [1, 1] if p_arg is None else p_arg
    inplace = _inplace(case)
    changed = False
    m_main = 0
    for i, g in enumerate(case["gseeds"]):
        hg = _build(case)
        before = _obs(hg, "input")
        present = {len(e) for e in before["edges"]}
        size = None if all_orders else _size_arg(case, present, len(before["nodes"]))
        what, ret = _shuffle_call(case, hg, g, all_orders, p_arg, size, i)
        ctx.trace = {"call": what, "input": _short(sorted(before["edges"].items(), key=repr), 1500)}
        res = _result(what, not all_orders, hg, ret, inplace, before)
        after = _obs(res, what)
        ctx.trace["output"] = _short(sorted(after["edges"].items(), key=repr), 1500)
        _context_kept(what, before, after)
        shuffled = present if all_orders else {size}
        _others_kept(what, before, after, shuffled)
        for k in sorted(shuffled):
            in_s, out_s = _check_shuffled_size(what, before, after, k, p)
            changed = changed or set(in_s) != set(out_s)
            m_main = max(m_main, len(in_s))
        extra_sizes = {len(e) for e in after["edges"]} - present - set(shuffled)
        require(not extra_sizes, lambda: "%s: hyperedges of new sizes %r appeared"
                % (what, sorted(extra_sizes)), key="size")
        if not inplace:
            _independent(what, hg, ret, before, ctx)
    ctx.label("inplace=%s" % ("omitted" if case["inplace"] is None else case["inplace"]),
              "p omitted" if p_arg is None else "p=1" if p[0] == p[1] else "0<p<1",
              "changed" if changed else "unchanged",
              "seed argument" if case["seed"] is not None else "global seed")
    if case["preserve_degree"]:
        ctx.label("preserve_degree")
    if not all_orders:
        ctx.label("by=" + case["by"], "size absent" if m_main == 0 else "size present")
    ctx.nontrivial(p[0] < p[1] and m_main >= 4 and changed)


def check_random_shuffle(case, ctx):
    _check_shuffle(case, ctx, False)


def check_random_shuffle_all(case, ctx):
    _check_shuffle(case, ctx, True)


def check_shuffle_p0(case, ctx):
    """p = 0 changes nothing observable (both functions, in place or not)."""
    _label_input(case, ctx)
    all_orders = case["fn"] == "all_orders"
    inplace = _inplace(case)
    for i, g in enumerate(case["gseeds"]):
        hg = _build(case)
        before = _obs(hg, "input")
        present = {len(e) for e in before["edges"]}
        size = None if all_orders else _size_arg(case, present, len(before["nodes"]))
        what, ret = _shuffle_call(case, hg, g, all_orders, [0, 1], size, i)
        ctx.trace = {"call": what, "input": _short(sorted(before["edges"].items(), key=repr), 1500)}
        res = _result(what, not all_orders, hg, ret, inplace, before)
        after = _obs(res, what)
        _unchanged(what + ": p=0 must change nothing observable, but", before, after, "p0-changed")
        if not inplace:
            _independent(what, hg, ret, before, ctx)
    ctx.label("fn=" + case["fn"],
              "inplace=%s" % ("omitted" if case["inplace"] is None else case["inplace"]))
    carries = case["weighted"] or (case["emeta"] is not None and any(case["emeta"]))
    ctx.nontrivial(carries and len(case["edges"]) >= 3)


# None = argument omitted (documented default p=1.0)
P_POOL = [[1, 2], [1, 1], [1, 4], [1, 3], [2, 3], [3, 4], [1, 10], [9, 10], None]


@st.composite
def _shuffle_cases(draw, tier, all_orders, p0=False):
    case = draw(_hg_inputs(tier))
    if p0:
        case["fn"] = draw(st.sampled_from(["shuffle", "all_orders"]))
    else:
        case["p"] = draw(st.sampled_from(P_POOL))
    case["size_sel"] = draw(st.sampled_from([0, 0, 1, 2, 9]))
    case["by"] = draw(st.sampled_from(["size", "order"]))
    case["inplace"] = draw(INPLACE)
    case["preserve_degree"] = draw(st.sampled_from([False, True]))
    case["seed"] = draw(st.one_of(st.none(), S.seeds))
    case["gseeds"] = draw(st.lists(S.seeds, min_size=2, max_size=3, unique=True))
    return case


CLAUSES = [
    Clause("random_hypergraph", lambda tier: _rh_cases(tier, False), check_random_hypergraph,
           quick=300, thorough=2000,
           rule="at least two sizes requested with a positive count"),
    Clause("random_uniform_hypergraph", lambda tier: _rh_cases(tier, True), check_random_uniform,
           quick=200, thorough=2000,
           rule="at least two hyperedges requested"),
    Clause("scale_free_hypergraph", _sf_cases, check_scale_free,
           quick=300, thorough=2000,
           rule="at least two sizes requested with a positive count"),
    Clause("HOADmodel", _hoad_cases, check_hoad,
           quick=200, thorough=2000,
           rule="at least two records emitted over the drawn seeds and a horizon of >= 2 steps"),
    Clause("add_random_edge", lambda tier: _add_cases(tier, False), check_add_random_edge,
           quick=250, thorough=2000,
           rule="input with >= 3 hyperedges and a genuinely new hyperedge for some seed"),
    Clause("add_random_edges", lambda tier: _add_cases(tier, True), check_add_random_edges,
           quick=250, thorough=2000,
           rule="input with >= 3 hyperedges and a genuinely new hyperedge for some seed"),
    Clause("random_shuffle", lambda tier: _shuffle_cases(tier, False), check_random_shuffle,
           quick=400, thorough=2000,
           rule="0 < p < 1, at least 4 hyperedges of the shuffled size, hyperedge set changed for "
                "some seed"),
    Clause("random_shuffle_all_orders", lambda tier: _shuffle_cases(tier, True),
           check_random_shuffle_all, quick=400, thorough=2000,
           rule="0 < p < 1, some size with at least 4 hyperedges, hyperedge set changed for some "
                "seed"),
    Clause("shuffle_p0", lambda tier: _shuffle_cases(tier, False, p0=True), check_shuffle_p0,
           quick=300, thorough=2000,
           rule="p = 0 on an input with >= 3 hyperedges that carries weights or edge metadata"),
]
