"""C05 -- sub-hypergraph extraction and copy are faithful and leave the source untouched.

A *source* is built through the public mutators from a drawn op list (some
hyperedges are inserted and removed first, so internal edge id != position !=
weight), while a plain dict/set content model is kept next to it.  Each clause
then performs one kind of extraction (or copy()) and compares the complete
public observation of the returned object with the observation computed from
the abstract content restricted by the selection; the source must answer every
query exactly as before.  In part of the cases the same extraction was already
called once (result discarded) before the last mutations of the source, and the
extracted object is finally mutated itself and must behave as a hypergraph of
the restricted content.  copy(): both sides are mutated in turn (public
mutators and in-place edits of nested metadata values); the other side must not
move.
"""

from collections import Counter

from hypothesis import strategies as st

from .. import strategies as S
from ..common import cedge, dc, dedupe, diff_obs, permuted
from ..common import nodes_with_metadata
from ..engine import Clause, Violation, require
from ..oracles.partition import components

ASSUMPTIONS = [
    "oracle = content model (dict node -> metadata, dict hyperedge key -> [weight, metadata]) "
    "kept while the source is built; the selection is evaluated on that content, never on the library",
    "the source is built only with unambiguous mutators (a hyperedge that is already present is "
    "updated with set_weight/set_edge_metadata instead of being re-inserted: metadata after a "
    "re-insert is unspecified, see C01) and must itself answer as its content before the extraction",
    "aliasing between an extracted hypergraph and its source is not claimed by the property and is "
    "not checked (metadata is compared by value); hypergraph-level metadata of an extracted object "
    "is unspecified and not compared",
    "subhypergraph_largest_component: any component of maximum size is accepted; with an order/size "
    "filter the hyperedge set may be either all hyperedges inside the component or only those of the "
    "filtered size (the docstring says 'induced by the nodes' and 'hyperedges to consider')",
    "subhypergraph(nodes) is called with a list of distinct nodes of the source (node subset)",
    "copy(): mutation means calls of the public mutators and in-place edits of list-/dict-valued "
    "metadata values reached through the getters (get_node_metadata, get_edge_metadata, "
    "get_hypergraph_metadata, get_all_incidences_metadata) of one side; whether a getter hands out "
    "the stored object or a copy is not claimed: the edited item is read back into the model and only "
    "the other side is required not to move",
    "the extracted object is afterwards mutated with add_edge/remove_edge/set_weight/add_node/"
    "set_edge_metadata/set_node_metadata (wholesale replacements only, no set_attr_*) and must answer "
    "as the restricted content with these changes; nothing is claimed about the source once its "
    "extract has been mutated (metadata dicts may be shared)",
    "get_all_nodes_metadata() (undocumented) is the dict node -> metadata of exactly the nodes "
    "(Hypergraph) or the list of its values (DirectedHypergraph); get_all_edges_metadata() is keyed by "
    "internal ids, only the multiset of its values is compared: one entry per hyperedge",
    "weights 0, 0.0 and -1.5 are weights like any other; a weight keeps its Python type (int/float) "
    "through an extraction and copy() (separate key 'weight-type')",
    "an early, discarded call of the same extraction (or copy()) in the middle of the build is "
    "content-neutral for the source",
    "directed hyperedges have disjoint non-empty source and target; labels of one universe are "
    "mutually comparable",
]

# ---------------------------------------------------------------------------
# keys, records


def _labels(ns, U):
    return dedupe([U[i % len(U)] for i in ns])


def rec_of(spec, U, directed):
    """Hyperedge as listed in the call (node order as drawn), or None."""
    labs = _labels(spec["ns"], U)
    if not directed:
        return labs
    if len(labs) < 2:
        return None
    cut = 1 + spec["cut"] % (len(labs) - 1)
    return [labs[:cut], labs[cut:]]


def key_of(rec, directed):
    if directed:
        return (frozenset(rec[0]), frozenset(rec[1]))
    return frozenset(rec)


def api_edge(rec, directed):
    if directed:
        return (tuple(rec[0]), tuple(rec[1]))
    return tuple(rec)


def canon_key(key, directed):
    if directed:
        return (tuple(sorted(key[0])), tuple(sorted(key[1])))
    return tuple(sorted(key))


def rec_of_key(key, perm, directed):
    if directed:
        return [permuted(sorted(key[0]), perm), permuted(sorted(key[1]), perm + 1)]
    return permuted(sorted(key), perm)


def nodes_of(key, directed):
    return (key[0] | key[1]) if directed else key


def cdedge(e):
    s, t = e
    s, t = tuple(s), tuple(t)
    if len(set(s)) != len(s) or len(set(t)) != len(t) or set(s) & set(t):
        raise Violation("directed hyperedge %r lists a node twice" % (e,))
    return (tuple(sorted(s)), tuple(sorted(t)))


def canon_lib(e, directed):
    return cdedge(e) if directed else cedge(e)


class Bag:
    """Multiset of (unhashable) values compared by ==."""

    def __init__(self, items):
        self.items = list(items)

    def __eq__(self, other):
        if not isinstance(other, Bag) or len(self.items) != len(other.items):
            return False
        rest = list(other.items)
        for x in self.items:
            for i, y in enumerate(rest):
                if x == y:
                    del rest[i]
                    break
            else:
                return False
        return True

    def __ne__(self, other):
        return not self.__eq__(other)

    __hash__ = None

    def __repr__(self):
        return "Bag(%s)" % sorted(repr(x) for x in self.items)


class Table:
    """What get_all_nodes_metadata() returned: Hypergraph returns the dict node -> metadata,
    DirectedHypergraph the list of its values (neither is documented): a dict is compared as a
    dict, a list as a multiset of values."""

    def __init__(self, got):
        self.mapping = dict(got) if isinstance(got, dict) else None
        self.values = Bag(got.values() if isinstance(got, dict) else got)

    def __eq__(self, other):
        if not isinstance(other, Table):
            return False
        if self.mapping is not None and other.mapping is not None:
            return self.mapping == other.mapping
        return self.values == other.values

    def __ne__(self, other):
        return not self.__eq__(other)

    __hash__ = None

    def __repr__(self):
        return repr(self.mapping) if self.mapping is not None else repr(self.values)


class Content:
    """Abstract content of a hypergraph: what every query is a function of."""

    def __init__(self, weighted, directed):
        self.weighted = weighted
        self.directed = directed
        self.nodes = {}      # label -> metadata dict
        self.edges = {}      # key -> [weight, metadata dict]
        self.ids = {}        # key -> insertion counter (classification only)
        self.ctr = 0

    def sorted_keys(self):
        return sorted(self.edges, key=lambda k: repr(canon_key(k, self.directed)))

    def size(self, key):
        return len(nodes_of(key, self.directed))

    def restrict(self, node_set, keys):
        c = Content(self.weighted, self.directed)
        c.nodes = {n: dc(self.nodes[n]) for n in node_set}
        c.edges = {k: dc(self.edges[k]) for k in keys}
        # (classification only, but apply_op maintains it when the restricted content becomes the
        # model of an extracted object that is mutated afterwards)
        c.ids = {k: self.ids.get(k, i) for i, k in enumerate(keys)}
        c.ctr = max(list(c.ids.values()) + [-1]) + 1
        return c


# ---------------------------------------------------------------------------
# building the source through the public API


def _new(directed, **kw):
    from hypergraphx import DirectedHypergraph, Hypergraph
    return (DirectedHypergraph if directed else Hypergraph)(**kw)


def apply_op(h, m, op, U, ctx=None):
    """Apply one abstract op to the real object and to the content model.

    Only unambiguous calls; returns a short description (None when skipped)."""
    d = m.directed
    k = op["op"]
    if k == "add":
        rec = rec_of(op["edge"], U, d)
        if rec is None:
            return None
        key = key_of(rec, d)
        e = api_edge(rec, d)
        w = op["w"] if m.weighted else 1
        meta = op["meta"]
        if key not in m.edges:
            kw = {}
            if m.weighted:
                kw["weight"] = w
            if meta is not None:
                kw["metadata"] = dc(meta)
            h.add_edge(e, **kw)
            m.edges[key] = [w, dc(meta) if meta is not None else {}]
            m.ids[key] = m.ctr
            m.ctr += 1
            for n in nodes_of(key, d):
                m.nodes.setdefault(n, {})
            return "add_edge(%r, %r)" % (e, kw)
        # already present: update through the dedicated setters
        if m.weighted:
            h.set_weight(e, w)
            m.edges[key][0] = w
        h.set_edge_metadata(e, dc(meta) if meta is not None else {})
        m.edges[key][1] = dc(meta) if meta is not None else {}
        return "set_weight/set_edge_metadata(%r, %r, %r)" % (e, w, meta)
    if k == "del":
        if not m.edges:
            return None
        ks = m.sorted_keys()
        key = ks[op["pick"] % len(ks)]
        e = api_edge(rec_of_key(key, op["pick"], d), d)
        h.remove_edge(e)
        del m.edges[key]
        del m.ids[key]
        return "remove_edge(%r)" % (e,)
    if k == "node":
        n = U[op["i"] % len(U)]
        meta = op["meta"]
        if n not in m.nodes:
            if meta is None:
                h.add_node(n)
            else:
                h.add_node(n, metadata=dc(meta))
            m.nodes[n] = dc(meta) if meta is not None else {}
            return "add_node(%r, %r)" % (n, meta)
        h.set_node_metadata(n, dc(meta) if meta is not None else {})
        m.nodes[n] = dc(meta) if meta is not None else {}
        return "set_node_metadata(%r, %r)" % (n, meta)
    if k == "delnode":
        if not m.nodes:
            return None
        ns = sorted(m.nodes)
        n = ns[op["pick"] % len(ns)]
        h.remove_node(n)
        for key in [x for x in m.edges if n in nodes_of(x, d)]:
            del m.edges[key]
            del m.ids[key]
        del m.nodes[n]
        return "remove_node(%r)" % (n,)
    if k == "eattr":
        if not m.edges:
            return None
        ks = m.sorted_keys()
        key = ks[op["pick"] % len(ks)]
        e = api_edge(rec_of_key(key, op["pick"], d), d)
        h.set_attr_to_edge_metadata(e, op["field"], dc(op["value"]))
        m.edges[key][1][op["field"]] = dc(op["value"])
        return "set_attr_to_edge_metadata(%r, %r, %r)" % (e, op["field"], op["value"])
    if k == "nattr":
        if not m.nodes:
            return None
        ns = sorted(m.nodes)
        n = ns[op["pick"] % len(ns)]
        h.set_attr_to_node_metadata(n, op["field"], dc(op["value"]))
        m.nodes[n][op["field"]] = dc(op["value"])
        return "set_attr_to_node_metadata(%r, %r, %r)" % (n, op["field"], op["value"])
    if k == "edelattr":
        cands = [x for x in m.sorted_keys() if m.edges[x][1]]
        if not cands:
            return None
        key = cands[op["pick"] % len(cands)]
        fs = sorted(m.edges[key][1])
        f = fs[op["pick"] % len(fs)]
        e = api_edge(rec_of_key(key, op["pick"], d), d)
        h.remove_attr_from_edge_metadata(e, f)
        del m.edges[key][1][f]
        return "remove_attr_from_edge_metadata(%r, %r)" % (e, f)
    if k == "ndelattr":
        cands = [x for x in sorted(m.nodes) if m.nodes[x]]
        if not cands:
            return None
        n = cands[op["pick"] % len(cands)]
        fs = sorted(m.nodes[n])
        f = fs[op["pick"] % len(fs)]
        h.remove_attr_from_node_metadata(n, f)
        del m.nodes[n][f]
        return "remove_attr_from_node_metadata(%r, %r)" % (n, f)
    if k == "hgattr":
        h.set_attr_to_hypergraph_metadata(op["field"], dc(op["value"]))
        return "set_attr_to_hypergraph_metadata(%r, %r)" % (op["field"], op["value"])
    if k == "setw":
        if not m.edges or not m.weighted:
            return None
        ks = m.sorted_keys()
        key = ks[op["pick"] % len(ks)]
        e = api_edge(rec_of_key(key, op["pick"], d), d)
        h.set_weight(e, op["w"])
        m.edges[key][0] = op["w"]
        return "set_weight(%r, %r)" % (e, op["w"])
    if k == "incmeta":
        if not m.edges:
            return None
        ks = m.sorted_keys()
        key = ks[op["pick"] % len(ks)]
        e = canon_key(key, d)
        n = sorted(nodes_of(key, d))[op["pick"] % len(nodes_of(key, d))]
        h.set_incidence_metadata(e, n, dc(op["value"]))
        return "set_incidence_metadata(%r, %r, %r)" % (e, n, op["value"])
    if k == "nested":
        return nested_edit(h, m, op)
    raise ValueError(k)


def _container(v):
    return isinstance(v, (list, dict))


def nested_edit(h, m, op):
    """In-place edit of a list-/dict-valued metadata VALUE that a public getter of `h` hands out.

    Whether the getter hands out the stored object or a copy is not promised, so nothing is
    claimed about the edited side: the item is read back into the model.  The caller compares
    the OTHER side (copy vs original), which must not move in either case."""
    d = m.directed
    cands = []
    for n in sorted(m.nodes):
        cands += [("node", n, f) for f in sorted(m.nodes[n]) if _container(m.nodes[n][f])]
    for key in m.sorted_keys():
        cands += [("edge", key, f) for f in sorted(m.edges[key][1])
                  if _container(m.edges[key][1][f])]
    # hypergraph-level and incidence metadata are not part of the content model: read them
    hg = h.get_hypergraph_metadata()
    cands += [("hg", None, f) for f in sorted(hg, key=repr) if _container(hg[f])]
    inc = h.get_all_incidences_metadata()
    cands += [("inc", ik, None) for ik in sorted(inc, key=repr) if _container(inc[ik])]
    if not cands:
        return None
    what, item, f = cands[op["pick"] % len(cands)]
    if what == "node":
        v = h.get_node_metadata(item)[f]
        where = "get_node_metadata(%r)[%r]" % (item, f)
    elif what == "edge":
        e = api_edge(rec_of_key(item, op["pick"], d), d)
        v = h.get_edge_metadata(e)[f]
        where = "get_edge_metadata(%r)[%r]" % (e, f)
    elif what == "hg":
        v = hg[f]
        where = "get_hypergraph_metadata()[%r]" % (f,)
    else:
        v = inc[item]
        where = "get_all_incidences_metadata()[%r]" % (item,)
    if not _container(v):
        raise Violation("%s is %r, the value that was stored is a list or dict" % (where, v),
                        key="mutated-side")
    if isinstance(v, list):
        v.append(dc(op["value"]))
        did = "%s.append(%r)" % (where, op["value"])
    else:
        v["z"] = dc(op["value"])
        did = "%s['z'] = %r" % (where, op["value"])
    if what == "node":
        m.nodes[item] = dc(h.get_node_metadata(item))
    elif what == "edge":
        m.edges[item][1] = dc(h.get_edge_metadata(e))
    return "nested-edit:%s %s" % (what, did)


def build(src, ctx, warm=None, warm_at=None):
    """(real object, content model, trace) for a source case.

    warm(h, m) -> description | None, called once before op number warm_at % len(ops): the clause's
    own extraction, result discarded, so that the real call is not the first one the object sees
    and something remembered by the early call is out of date by then."""
    U = src["universe"]["labels"]
    d = src["directed"]
    m = Content(src["weighted"], d)
    kw = {"weighted": src["weighted"]}
    if src["hg_meta"] is not None:
        kw["hypergraph_metadata"] = dc(src["hg_meta"])
    nm = {}
    for i, meta in src["node_meta"]:
        nm[U[i % len(U)]] = dc(meta)
    if nm:
        kw["node_metadata"] = dc(nm)
        for n, meta in nm.items():
            m.nodes[n] = dc(meta)
    h = _new(d, **kw)
    trace = ["%s(%r)" % ("DirectedHypergraph" if d else "Hypergraph", kw)]
    ops = src["ops"]
    pos = warm_at % len(ops) if (warm is not None and warm_at is not None and ops) else None
    snap = None
    for i, op in enumerate(ops):
        if i == pos:
            t = warm(h, m)
            if t is not None:
                trace.append("(early call, result discarded) " + t)
                snap = (dc(m.nodes), dc(m.edges))
        t = apply_op(h, m, op, U)
        if t is not None:
            trace.append(t)
    if snap is not None:
        ctx.label("early-call")
        if snap != (m.nodes, m.edges):
            ctx.label("early-call:content-changed-afterwards")
    if src.get("wholesale_hg") is not None:
        # the hypergraph metadata replaced wholesale: the implementation-set fields
        # ('weighted', 'type') are gone, so an extraction that writes them back into the
        # source's own dict is visible
        h.set_hypergraph_metadata(dc(src["wholesale_hg"]))
        trace.append("set_hypergraph_metadata(%r)" % (src["wholesale_hg"],))
        ctx.label("source:hypergraph-metadata-replaced")
    return h, m, trace


# ---------------------------------------------------------------------------
# observation through the public API, and the same observation computed from content


def observe(h, directed):
    o = {}
    nodes = list(h.get_nodes())
    o["is_weighted"] = h.is_weighted()
    o["get_nodes"] = Counter(nodes)
    o["num_nodes"] = h.num_nodes()
    o["get_node_metadata"] = {n: dc(h.get_node_metadata(n)) for n in set(nodes)}
    o["get_nodes(metadata=True)"] = {n: dc(v) for n, v in nodes_with_metadata(h).items()}
    edges = [canon_lib(e, directed) for e in h.get_edges()]
    o["get_edges"] = Counter(edges)
    o["num_edges"] = h.num_edges()
    o["get_weight"] = {e: h.get_weight(e) for e in set(edges)}
    o["get_weights(asdict=True)"] = {
        canon_lib(k, directed): v for k, v in h.get_weights(asdict=True).items()}
    o["get_weights"] = Counter(h.get_weights())
    o["get_edge_metadata"] = {e: dc(h.get_edge_metadata(e)) for e in set(edges)}
    o["get_edges(metadata=True)"] = {
        canon_lib(k, directed): dc(v) for k, v in h.get_edges(metadata=True).items()}
    # the whole tables: an entry for something that is not a member (left behind, or carried over
    # from the source of an extraction) shows here.  The hyperedge table is keyed by internal
    # ids: only its values are compared, as a multiset
    o["get_all_nodes_metadata"] = Table(dc(h.get_all_nodes_metadata()))
    o["get_all_edges_metadata:values"] = Bag(dc(list(h.get_all_edges_metadata().values())))
    if directed:
        o["get_source_edges"] = {
            n: Counter(cdedge(e) for e in h.get_source_edges(n)) for n in set(nodes)}
        o["get_target_edges"] = {
            n: Counter(cdedge(e) for e in h.get_target_edges(n)) for n in set(nodes)}
    else:
        o["get_incident_edges"] = {
            n: Counter(cedge(e) for e in h.get_incident_edges(n)) for n in set(nodes)}
    return o


def expected(c):
    d = c.directed
    o = {}
    o["is_weighted"] = c.weighted
    o["get_nodes"] = Counter(list(c.nodes))
    o["num_nodes"] = len(c.nodes)
    o["get_node_metadata"] = dc(c.nodes)
    o["get_nodes(metadata=True)"] = dc(c.nodes)
    es = {canon_key(k, d): v for k, v in c.edges.items()}
    o["get_edges"] = Counter(list(es))
    o["num_edges"] = len(es)
    o["get_weight"] = {e: v[0] for e, v in es.items()}
    o["get_weights(asdict=True)"] = {e: v[0] for e, v in es.items()}
    o["get_weights"] = Counter(v[0] for v in es.values())
    o["get_edge_metadata"] = {e: dc(v[1]) for e, v in es.items()}
    o["get_edges(metadata=True)"] = {e: dc(v[1]) for e, v in es.items()}
    o["get_all_nodes_metadata"] = Table(dc(c.nodes))
    o["get_all_edges_metadata:values"] = Bag(dc(v[1]) for v in es.values())
    if d:
        o["get_source_edges"] = {
            n: Counter(canon_key(k, d) for k in c.edges if n in k[0]) for n in c.nodes}
        o["get_target_edges"] = {
            n: Counter(canon_key(k, d) for k in c.edges if n in k[1]) for n in c.nodes}
    else:
        o["get_incident_edges"] = {
            n: Counter(canon_key(k, d) for k in c.edges if n in k) for n in c.nodes}
    return o


def full_obs(h, directed):
    """Everything observable about an object that must not move: content + hypergraph-level
    metadata + incidence metadata."""
    o = observe(h, directed)
    o["get_hypergraph_metadata"] = dc(h.get_hypergraph_metadata())
    o["get_all_incidences_metadata"] = dc(h.get_all_incidences_metadata())
    return o


# ---------------------------------------------------------------------------
# the extraction check


def classify_source(m, ctx):
    ctx.label("weighted" if m.weighted else "unweighted")
    keys = m.sorted_keys()
    # (classification only) id = insertion counter, position = rank in insertion order
    by_id = sorted(keys, key=lambda k: m.ids[k])
    ids_shifted = any(m.ids[k] != pos for pos, k in enumerate(by_id))
    w_ne_id = any(m.edges[k][0] != m.ids[k] for k in keys)
    has_meta = any(m.nodes.values()) or any(v[1] for v in m.edges.values())
    iso = any(all(n not in nodes_of(k, m.directed) for k in keys) for n in m.nodes)
    single = any(m.size(k) == 1 for k in keys)
    if ids_shifted:
        ctx.label("src:id!=position")
    if m.weighted and w_ne_id:
        ctx.label("src:weight!=id")
    if has_meta:
        ctx.label("src:metadata")
    if iso:
        ctx.label("src:isolated-node")
    if single:
        ctx.label("src:singleton-edge")
    if not keys:
        ctx.label("src:no-edges")
    if m.weighted and any(not m.edges[k][0] for k in keys):
        ctx.label("src:zero-weight")
    if m.weighted and any(m.edges[k][0] < 0 for k in keys):
        ctx.label("src:negative-weight")
    return bool(keys) and ids_shifted and has_meta and (w_ne_id or not m.weighted)


def weight_types(h, directed):
    return {canon_lib(e, directed): type(h.get_weight(e)).__name__ for e in h.get_edges()}


def check_weight_types(src_types, obj, directed, what):
    """(separate key) a weight arrives as the number it was: 2 stays an int, 0.0 stays a float."""
    got = weight_types(obj, directed)
    bad = {e: (src_types.get(e), t) for e, t in got.items() if src_types.get(e) != t}
    require(not bad, lambda: "%s: weights changed their type {hyperedge: (source, result)}: %r"
            % (what, bad), key="weight-type")


def check_extraction(case, ctx, make):
    """make(h, m) -> (call, description, alternatives) | None for the content m of h;
    alternatives: list of (node_set, key_set) the documentation allows for this call.

    Returns (source, its content model, source is 'good' by classify_source, the matching
    alternative or None when make declined)."""
    def warm(h0, m0):
        made = make(h0, m0)
        if made is None:
            return None
        made[0]()
        return made[1]

    h, m, trace = build(case["src"], ctx, warm, case.get("warm_at"))
    good = classify_source(m, ctx)
    made = make(h, m)
    if made is None:
        return h, m, good, None
    call, desc, alternatives = made
    d = m.directed
    ctx.trace = trace + [desc]
    dsrc = diff_obs(expected(m), observe(h, d))
    require(dsrc is None,
            lambda: "the source does not answer as the content it was built with: %s" % dsrc,
            key="source-content")
    before = full_obs(h, d)
    sub = call()
    after = full_obs(h, d)
    dd = diff_obs(before, after)
    require(dd is None, lambda: "%s changed the source: %s" % (desc, dd), key="source-changed")
    require(type(sub) is type(h),
            lambda: "%s returned a %s, expected a %s" % (desc, type(sub).__name__,
                                                          type(h).__name__),
            key="result-type")
    obs = observe(sub, d)
    first = None
    for node_set, key_set in alternatives:
        model = m.restrict(node_set, key_set)
        df = diff_obs(expected(model), obs)
        if df is None:
            break
        if first is None:
            first = df
    else:
        raise Violation("%s on the source built by %r: %s%s" % (
            desc, trace, first,
            "" if len(alternatives) == 1 else " (nor any of the other %d admissible results)"
            % (len(alternatives) - 1)), key="extraction")
    check_weight_types(weight_types(h, d), sub, d, desc)
    # reading the result must not have changed the source either
    dd = diff_obs(before, full_obs(h, d))
    require(dd is None, lambda: "querying the result of %s changed the source: %s" % (desc, dd),
            key="source-changed")
    # the result is a hypergraph in its own right: it takes structural mutations like one that was
    # built with the same content.  (Nothing is said about the source from here on: metadata
    # dicts may be shared between the two, which the property does not exclude.)
    U = case["src"]["universe"]["labels"]
    done = []
    for op in case.get("sub_ops", []):
        t = apply_op(sub, model, op, U)
        if t is not None:
            done.append(t)
    if done:
        ctx.label("result-mutated")
        ctx.trace = trace + [desc] + ["result." + t for t in done]
        dm = diff_obs(expected(model), observe(sub, d))
        require(dm is None, lambda: "the result of %s (source built by %r) after %r does not "
                "answer as its content: %s" % (desc, trace, done, dm), key="result-mutated")
    return h, m, good, (node_set, key_set)


def _sel_labels(ctx, m, key_set):
    if not m.edges:
        return False
    if not key_set:
        ctx.label("sel:no-edges")
    elif len(key_set) == len(m.edges):
        ctx.label("sel:all-edges")
    else:
        ctx.label("sel:proper")
    return 0 < len(key_set) < len(m.edges)


def _must_raise(fn, exc, desc):
    try:
        fn()
    except exc:
        return
    raise Violation("%s must raise %s and returned normally" % (desc, exc.__name__),
                    key="no-rejection")


# ---- subhypergraph(nodes)

def _induced_selection(case, m):
    ns = sorted(m.nodes)
    chosen = permuted([n for i, n in enumerate(ns) if case["mask"][i % len(case["mask"])]],
                      case["perm"])
    # a list that names a node twice still selects the same node subset
    for r in case.get("repeat", []):
        if chosen:
            chosen.insert(r % (len(chosen) + 1), chosen[r % len(chosen)])
    return chosen


def check_induced(case, ctx):
    def make(h, m):
        chosen = _induced_selection(case, m)
        cs = set(chosen)
        keys = {k for k in m.edges if nodes_of(k, False) <= cs}
        return (lambda: h.subhypergraph(list(chosen)), "subhypergraph(%r)" % (chosen,),
                [(cs, keys)])

    h, m, good, (cs, keys) = check_extraction(case, ctx, make)
    if len(_induced_selection(case, m)) > len(cs):
        ctx.label("nodes:listed-twice")
    proper = _sel_labels(ctx, m, keys)
    ctx.label("nodes:%s" % ("none" if not cs else "all" if len(cs) == len(m.nodes) else "proper"))
    ctx.nontrivial(good and proper)


# ---- subhypergraph_by_orders

def check_by_orders(case, ctx):
    sel = case["sel"]
    sizes = list(sel["sizes"])
    kw = {}
    if sel["by"] == "orders":
        kw["orders"] = [s - 1 for s in sizes]
    else:
        kw["sizes"] = list(sizes)
    if sel["keep_nodes"] is not None:
        kw["keep_nodes"] = sel["keep_nodes"]
    keep = sel["keep_nodes"] is not False

    def make(h, m):
        keys = {k for k in m.edges if m.size(k) in set(sizes)}
        if keep:
            node_set = set(m.nodes)
        else:
            node_set = set()
            for x in keys:
                node_set |= nodes_of(x, False)
        return (lambda: h.subhypergraph_by_orders(**dc(kw)),
                "subhypergraph_by_orders(%s)" % ", ".join("%s=%r" % kv for kv in kw.items()),
                [(node_set, keys)])

    h, m, good, (node_set, keys) = check_extraction(case, ctx, make)
    proper = _sel_labels(ctx, m, keys)
    present = {m.size(k) for k in m.edges}
    if len(set(sizes)) != len(sizes):
        ctx.label("list:repeated-value" + ("-present" if any(
            sizes.count(s) > 1 and s in present for s in sizes) else ""))
    if any(s not in present for s in sizes):
        ctx.label("list:absent-size")
    if not sizes:
        ctx.label("list:empty")
    ctx.label("keep_nodes=%r" % (sel["keep_nodes"],))
    ctx.label("by:" + sel["by"])
    _must_raise(lambda: h.subhypergraph_by_orders(), ValueError,
                "subhypergraph_by_orders() without orders and sizes")
    _must_raise(lambda: h.subhypergraph_by_orders(orders=[1], sizes=[2]), ValueError,
                "subhypergraph_by_orders(orders=[1], sizes=[2])")
    ctx.nontrivial(good and proper)


# ---- get_edges(subhypergraph=True)  (both classes)

def check_filter(case, ctx):
    d = case["src"]["directed"]
    sel = case["sel"]
    kw = {"subhypergraph": True}
    k = sel["k"]
    if sel["by"] == "size":
        kw["size"] = k
    elif sel["by"] == "order":
        kw["order"] = k - 1
    if sel["up_to"] is not None:
        kw["up_to"] = sel["up_to"]
    if sel["keep_iso"] is not None:
        kw["keep_isolated_nodes"] = sel["keep_iso"]

    def make(h, m):
        if sel["by"] is None:
            keys = set(m.edges)
        elif sel["up_to"]:
            keys = {x for x in m.edges if m.size(x) <= k}
        else:
            keys = {x for x in m.edges if m.size(x) == k}
        if sel["keep_iso"]:
            node_set = set(m.nodes)
        else:
            node_set = set()
            for x in keys:
                node_set |= nodes_of(x, d)
        return (lambda: h.get_edges(**kw),
                "get_edges(%s)" % ", ".join("%s=%r" % kv for kv in kw.items()),
                [(node_set, keys)])

    h, m, good, (node_set, keys) = check_extraction(case, ctx, make)
    proper = _sel_labels(ctx, m, keys)
    ctx.label("by:%s" % sel["by"], "up_to=%r" % (sel["up_to"],), "keep_iso=%r" % (sel["keep_iso"],))
    if not sel["keep_iso"] and any(m.nodes[n] for n in node_set):
        ctx.label("kept-node-has-metadata")
    _must_raise(lambda: h.get_edges(order=1, size=2, subhypergraph=True), ValueError,
                "get_edges(order=1, size=2, subhypergraph=True)")
    ctx.nontrivial(good and proper)


# ---- subhypergraph_largest_component

def _largest_alts(m, sel):
    considered = [x for x in m.edges if sel["by"] is None or m.size(x) == sel["k"]]
    comps = components(m.nodes, considered)
    top = max(len(c) for c in comps)
    alts = []
    for c in comps:
        if len(c) != top:
            continue
        induced = {x for x in m.edges if x <= c}
        alts.append((set(c), induced))
        if sel["by"] is not None:
            narrow = {x for x in considered if x <= c}
            if narrow != induced:
                alts.append((set(c), narrow))
    return alts, comps, top


def check_largest(case, ctx):
    sel = case["sel"]
    kw = {}
    if sel["by"] == "size":
        kw["size"] = sel["k"]
    elif sel["by"] == "order":
        kw["order"] = sel["k"] - 1

    def make(h, m):
        if not m.nodes:
            return None
        return (lambda: h.subhypergraph_largest_component(**kw),
                "subhypergraph_largest_component(%s)" % ", ".join(
                    "%s=%r" % kv for kv in kw.items()), _largest_alts(m, sel)[0])

    h, m, good, matched = check_extraction(case, ctx, make)
    if matched is None:
        ctx.exclude("source without nodes: the largest component of nothing is undefined")
        return
    alts, comps, top = _largest_alts(m, sel)
    ctx.label("by:%s" % sel["by"])
    ctx.label("components:%s" % ("1" if len(comps) == 1 else "tie" if
                                 sum(1 for c in comps if len(c) == top) > 1 else "many"))
    proper = top < len(m.nodes)
    if proper:
        ctx.label("sel:proper")
    ctx.nontrivial(good and proper and top > 1)


# ---- copy()

def check_copy(case, ctx):
    src = case["src"]
    U = src["universe"]["labels"]
    def warm(h0, m0):
        h0.copy()
        return "copy()"

    h, m, trace = build(src, ctx, warm, case.get("warm_at"))
    d = m.directed
    good = classify_source(m, ctx)
    ctx.trace = trace
    dsrc = diff_obs(expected(m), observe(h, d))
    require(dsrc is None,
            lambda: "the source does not answer as the content it was built with: %s" % dsrc,
            key="source-content")
    o0 = full_obs(h, d)
    c = h.copy()
    require(type(c) is type(h), lambda: "copy() returned a %s" % type(c).__name__,
            key="result-type")
    require(c is not h, "copy() returned the object itself", key="copy-is-self")
    dd = diff_obs(o0, full_obs(c, d))
    require(dd is None, lambda: "copy() of the source built by %r is not equal to it: %s"
            % (trace, dd), key="copy-not-equal")
    dd = diff_obs(o0, full_obs(h, d))
    require(dd is None, lambda: "copy() changed the source: %s" % dd, key="source-changed")
    check_weight_types(weight_types(h, d), c, d, "copy()")

    sides = {"copy": (c, dc(m)), "original": (h, m)}
    order = ["copy", "original"] if case["copy_first"] else ["original", "copy"]
    n_applied = 0
    inplace = False
    for who in order:
        obj, mod = sides[who]
        other_name = "original" if who == "copy" else "copy"
        other = sides[other_name][0]
        frozen = full_obs(other, d)
        for op in case["mut_" + who]:
            t = apply_op(obj, mod, op, U)
            if t is None:
                continue
            n_applied += 1
            inplace = inplace or op["op"] in ("eattr", "nattr", "edelattr", "ndelattr", "hgattr",
                                              "nested")
            if op["op"] == "nested":
                ctx.label(t.split(" ")[0])
            trace.append("%s.%s" % (who, t))
            dd = diff_obs(frozen, full_obs(other, d))
            require(dd is None, lambda: "%s on the %s changed the %s (history %r): %s"
                    % (t, who, other_name, trace, dd), key="copy-aliasing")
        # the mutated side is still a hypergraph with exactly the content the calls produce
        dm = diff_obs(expected(mod), observe(obj, d))
        require(dm is None, lambda: "after the mutations %r the %s does not answer as its "
                "content: %s" % (trace, who, dm), key="mutated-side")
    ctx.label("mutations:%d" % min(n_applied, 6))
    if inplace:
        ctx.label("in-place-attr-edit")
    ctx.nontrivial(good and n_applied >= 2 and inplace)


# ---------------------------------------------------------------------------
# generators

idx = st.integers(0, 7)
sel_int = st.integers(0, 30)
# 0, 0.0 and a negative weight are weights like any other ("their original weights"): a falsy
# weight must not be replaced by a default on the way into the extracted object
WEIGHTS = st.one_of(st.integers(1, 9), st.integers(1, 9), st.sampled_from([0.5, 2.5, 12]),
                    st.sampled_from([0, 0.0, -1.5]))
FIELD = st.sampled_from(S.ATTRS)


OPT_META = st.one_of(st.none(), S.metadata(), S.metadata())


def _edge_spec(directed):
    return st.fixed_dictionaries({
        "ns": st.lists(idx, min_size=2 if directed else 1, max_size=5, unique=True),
        "cut": st.integers(0, 3),
    })


def _op_table(directed):
    """kind -> strategy of abstract ops (built once: no strategy is constructed inside a draw)."""
    pick = {"pick": sel_int}
    return {
        "add": st.fixed_dictionaries({"op": st.just("add"), "edge": _edge_spec(directed),
                                      "w": WEIGHTS, "meta": OPT_META}),
        "del": st.fixed_dictionaries({"op": st.just("del"), **pick}),
        "delnode": st.fixed_dictionaries({"op": st.just("delnode"), **pick}),
        "node": st.fixed_dictionaries({"op": st.just("node"), "i": idx, "meta": OPT_META}),
        "eattr": st.fixed_dictionaries({"op": st.just("eattr"), **pick, "field": FIELD,
                                        "value": S.json_values}),
        "nattr": st.fixed_dictionaries({"op": st.just("nattr"), **pick, "field": FIELD,
                                        "value": S.json_values}),
        "incmeta": st.fixed_dictionaries({"op": st.just("incmeta"), **pick, "field": FIELD,
                                          "value": S.json_values}),
        "edelattr": st.fixed_dictionaries({"op": st.just("edelattr"), **pick}),
        "ndelattr": st.fixed_dictionaries({"op": st.just("ndelattr"), **pick}),
        "hgattr": st.fixed_dictionaries({"op": st.just("hgattr"), "field": FIELD,
                                         "value": S.json_values}),
        "setw": st.fixed_dictionaries({"op": st.just("setw"), **pick, "w": WEIGHTS}),
        "nested": st.fixed_dictionaries({"op": st.just("nested"), **pick,
                                         "value": S.json_scalars}),
    }


BUILD_KINDS = (["add"] * 8 + ["del"] * 2 + ["node"] * 3 + ["delnode", "eattr", "nattr"]
               # incidence / hypergraph-level metadata and re-weighting also before the extraction
               + ["incmeta", "incmeta", "hgattr", "setw"])
MUT_KINDS = (["add"] * 3 + ["del"] * 2 + ["node"] * 2 + ["delnode"] + ["eattr"] * 3
             + ["nattr"] * 3 + ["edelattr", "ndelattr", "hgattr", "hgattr", "setw", "setw",
                                "incmeta"]
             # in-place edit of a list-/dict-valued metadata value handed out by a getter
             + ["nested"] * 5)
# what is done to an extracted object after it was compared (structural only: the metadata dicts
# of the result may be the source's own, so no set_attr_*)
SUB_KINDS = ["add"] * 5 + ["del"] * 2 + ["setw"] * 2 + ["node"] * 2
UNIVERSES = S.universes(min_size=3, max_size=8, kinds=("ints", "strs", "range", "ints"))
NODE_META = st.lists(st.tuples(idx, S.metadata()), max_size=3)
OPT_HG_META = st.one_of(st.none(), S.metadata())
_CACHE = {}


def _ops(directed, kinds_name):
    """Strategy of one abstract op; the kind is drawn with the multiplicities of the list."""
    key = (directed, kinds_name)
    if key not in _CACHE:
        table = _op_table(directed)
        kinds = {"build": BUILD_KINDS, "mut": MUT_KINDS, "sub": SUB_KINDS}[kinds_name]
        # weighted choice of the kind (one_of would drop the repetitions), then the prebuilt strategy
        _CACHE[key] = st.sampled_from(kinds).flatmap(table.__getitem__)
    return _CACHE[key]


def sources(directed=False, big=False):
    key = ("src", directed, big)
    if key in _CACHE:
        return _CACHE[key]
    add = _op_table(directed)["add"]
    op = _ops(directed, "build")
    hi = 14 if big else 10
    body = st.one_of(st.lists(op, min_size=1, max_size=hi), st.lists(op, min_size=4, max_size=hi),
                     st.lists(op, min_size=7, max_size=hi))
    raw = st.fixed_dictionaries({
        "directed": st.just(directed),
        "weighted": st.sampled_from([True, True, False]),
        "universe": UNIVERSES,
        "hg_meta": OPT_HG_META,
        "node_meta": NODE_META,
        "junk": st.lists(add, min_size=1, max_size=3),
        "drops": st.lists(sel_int, min_size=1, max_size=3),
        "body": body,
        "wholesale_hg": st.integers(0, 3).flatmap(
            lambda i: st.none() if i else S.metadata()),
    })

    def assemble(r):
        drops = [{"op": "del", "pick": p} for p in r["drops"][: len(r["junk"])]]
        return {
            "directed": r["directed"], "weighted": r["weighted"], "universe": r["universe"],
            "hg_meta": r["hg_meta"], "node_meta": [list(t) for t in r["node_meta"]],
            "ops": r["junk"] + drops + r["body"],
            "wholesale_hg": r["wholesale_hg"],
        }

    _CACHE[key] = raw.map(assemble)
    return _CACHE[key]


def _big(tier):
    return tier != "quick"


# position (mod the number of ops) of the early, discarded call of the clause's own extraction;
# None = no early call
WARM_AT = st.one_of(st.none(), st.integers(0, 40), st.integers(0, 40))


def _sub_ops(directed):
    return st.lists(_ops(directed, "sub"), min_size=1, max_size=3)


def induced_cases(tier):
    return st.fixed_dictionaries({
        "src": sources(False, _big(tier)),
        "warm_at": WARM_AT,
        "sub_ops": _sub_ops(False),
        "mask": st.lists(st.sampled_from([True, True, True, False]), min_size=8, max_size=8),
        "perm": sel_int,
        # in one case out of three the selection list repeats one or two of its nodes
        "repeat": st.integers(0, 2).flatmap(
            lambda i: st.just([]) if i else st.lists(st.integers(0, 40), min_size=1, max_size=2)),
    })


# hyperedges have 1..5 nodes (small ones dominate): 6 is always absent
SIZE_VALUES = st.sampled_from([2, 1, 3, 2, 4, 3, 5, 6, 1])


def by_orders_cases(tier):
    return st.fixed_dictionaries({
        "src": sources(False, _big(tier)),
        "warm_at": WARM_AT,
        "sub_ops": _sub_ops(False),
        "sel": st.fixed_dictionaries({
            "by": st.sampled_from(["orders", "sizes"]),
            "sizes": st.one_of(st.lists(SIZE_VALUES, min_size=1, max_size=4),
                               st.lists(SIZE_VALUES, min_size=2, max_size=4),
                               st.lists(SIZE_VALUES, min_size=0, max_size=1)),
            "keep_nodes": st.sampled_from([None, True, False, False]),
        }),
    })


def filter_cases(directed):
    def strat(tier):
        return st.fixed_dictionaries({
            "src": sources(directed, _big(tier)),
            "warm_at": WARM_AT,
            "sub_ops": _sub_ops(directed),
            "sel": st.fixed_dictionaries({
                "by": st.sampled_from(["size", "order", "size", "order", None]),
                "k": SIZE_VALUES,
                "up_to": st.sampled_from([None, False, True, True]),
                "keep_iso": st.sampled_from([None, False, True]),
            }),
        })
    return strat


def largest_cases(tier):
    return st.fixed_dictionaries({
        "src": sources(False, _big(tier)),
        "warm_at": WARM_AT,
        "sub_ops": _sub_ops(False),
        "sel": st.fixed_dictionaries({
            "by": st.sampled_from([None, None, None, "size", "order"]),
            "k": st.integers(1, 5),
        }),
    })


def copy_cases(directed):
    def strat(tier):
        op = _ops(directed, "mut")
        muts = st.one_of(st.lists(op, min_size=2, max_size=6), st.lists(op, min_size=4, max_size=6),
                         st.lists(op, min_size=0, max_size=6))
        return st.fixed_dictionaries({
            "src": sources(directed, _big(tier)),
            "warm_at": WARM_AT,
            "copy_first": st.booleans(),
            "mut_copy": muts,
            "mut_original": muts,
        })
    return strat


_RULE = ("source with at least one hyperedge whose internal id differs from its position "
         "(insert/remove history), with node or hyperedge metadata and, when weighted, a weight "
         "different from the id; selection keeps some but not all hyperedges")

CLAUSES = [
    Clause("induced", induced_cases, check_induced, quick=320, thorough=1500, shards_quick=2,
           rule=_RULE + " (subhypergraph(nodes))"),
    Clause("by_orders", by_orders_cases, check_by_orders, quick=320, thorough=1500,
           shards_quick=2, rule=_RULE + " (subhypergraph_by_orders)"),
    Clause("filter", filter_cases(False), check_filter, quick=320, thorough=1500, shards_quick=2,
           rule=_RULE + " (Hypergraph.get_edges(subhypergraph=True))"),
    Clause("largest_component", largest_cases, check_largest, quick=250, thorough=1000,
           shards_quick=2,
           rule="source as above; the largest component has more than one node and is not the "
                "whole node set"),
    Clause("directed_filter", filter_cases(True), check_filter, quick=250, thorough=1000,
           shards_quick=2, rule=_RULE + " (DirectedHypergraph.get_edges(subhypergraph=True))"),
    Clause("copy", copy_cases(False), check_copy, quick=200, thorough=1000, shards_quick=2,
           rule="source as above; at least two effective mutations, one of them an in-place "
                "set_attr_*/remove_attr_* edit or an in-place edit of a nested metadata value, "
                "applied to the copy and to the original"),
    Clause("directed_copy", copy_cases(True), check_copy, quick=200, thorough=1000,
           shards_quick=2,
           rule="as C05.copy for DirectedHypergraph"),
]
