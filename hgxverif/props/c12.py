"""C12 -- directed measures follow their definitions; exact <= strong <= weak reciprocity.

Every oracle works on the abstract content of the case: a set of
(source set, target set) pairs plus a node set, never on the library object.

  degrees      in_degree(n)  = #hyperedges (matching the order/size filter) with n in the source,
               out_degree(n) = ... with n in the target; the two sequences are dicts whose keys are
               exactly the nodes (isolated ones included).
  signature    vector of length (M-1)^2, cell (s-1)(M-1)+(t-1) = #hyperedges with |source| = s,
               |target| = t and s+t <= M; the cells sum to the number of hyperedges of size <= M.
               M = the bound, or the largest hyperedge size when no bound is passed (documented).
  reciprocity  on the size-bounded hyperedge set E_M = {e : |e| <= M}, for every size k in 2..M
               exact(k)  = #{(S,T) in E_M, |S|+|T| = k : (T,S) in E_M} / #{e in E_M : |e| = k}
               strong(k) = ... S is a subset of the union of the targets of the hyperedges of E_M
                           that have a node of T in their source ...
               weak(k)   = ... some i in S, j in T and some hyperedge of E_M with j in its source
                           and i in its target ...
               0 for sizes without hyperedges; keys exactly 2..M; values in [0,1];
               exact <= strong <= weak.  Compared in exact rational arithmetic.
"""

import numbers
import random
from collections import Counter
from fractions import Fraction

from hypothesis import strategies as st

from ..engine import Clause, require
from ..strategies import universes
from ..common import with_history  # noqa: E402

ASSUMPTIONS = [
    "source and target sets are generated disjoint and non-empty, total size 2..6; repeated "
    "(source,target) pairs are dropped by construction",
    "reach and pair tables of the strong/weak reciprocity are built from the hyperedges of size <= "
    "max_hyperedge_size only ('the maximum hyperedge size to consider'), as DESIGN C12 fixes it",
    "ratios are compared with exact Fractions: |observed - p/q| <= 1e-12 (one IEEE division of two "
    "small integers is the only rounding a correct implementation can make)",
    "hyperedge_signature_vector without a bound uses the largest hyperedge size (documented); an "
    "empty hypergraph without a bound is excluded (the statement is silent about it)",
    "calls with both order and size, or with a node that is not in the hypergraph, are outside the "
    "statement and not generated",
    "bounds: 2..max+1, max+2 and the fixed 8 (keys 2..M and length (M-1)^2 are documented for every "
    "M >= 2, also far above the largest hyperedge); the warm-up of the history detours asks every "
    "measure with every bound 2..8, positionally and by keyword, before the content is restored",
    "DirectedHypergraph.remove_node(keep_edges=True) is not used as a history step: it drops the "
    "node from the node set but leaves the hyperedges that contain it untouched, so it is not a "
    "content-preserving detour (and outside the statement)",
]

TOL = Fraction(1, 10 ** 12)
BIG_BOUND = 8  # a fixed bound well above every generated hyperedge size (2..6)

# --------------------------------------------------------------------------
# building the object


def _abstract(case):
    labels = case["labels"]
    recs = [[[labels[i] for i in s], [labels[i] for i in t]] for s, t in case["edges"]]
    keys = []
    for s, t in recs:
        k = (frozenset(s), frozenset(t))
        if k not in keys:
            keys.append(k)
    iso = [labels[i] for i in case.get("isolated", [])]
    nodes = set(iso)
    for s, t in keys:
        nodes |= s | t
    return recs, keys, iso, nodes


def _warmup(h):
    """Ask the directed measures once; results are discarded."""
    from hypergraphx.measures import directed as DM
    DM.in_degree_sequence(h)
    DM.out_degree_sequence(h)
    DM.hyperedge_signature_vector(h)
    # every bound a clause may ask afterwards (2..7 and the fixed large one), in both call forms
    for M in (2, 3, 4, 5, 6, 7, BIG_BOUND):
        DM.hyperedge_signature_vector(h, M)
        DM.exact_reciprocity(h, M)
        DM.strong_reciprocity(h, M)
        DM.weak_reciprocity(h, M)
        DM.hyperedge_signature_vector(h, max_hyperedge_size=M)
        DM.exact_reciprocity(h, max_hyperedge_size=M)
        DM.strong_reciprocity(h, max_hyperedge_size=M)
        DM.weak_reciprocity(h, max_hyperedge_size=M)


@with_history(warmup=_warmup)
def _build(case, recs, iso):
    from hypergraphx import DirectedHypergraph
    es = [(tuple(s), tuple(t)) for s, t in recs]
    how = case.get("build", "ctor")
    weighted = bool(case.get("weighted"))
    ws = [1 + (3 * i) % 4 for i in range(len(es))]
    if how == "ctor":
        h = DirectedHypergraph(edge_list=es, weighted=weighted, weights=ws if weighted else None)
    elif how == "add_edges":
        h = DirectedHypergraph(weighted=weighted)
        if weighted:
            h.add_edges(es, weights=ws)
        else:
            h.add_edges(es)
    else:
        h = DirectedHypergraph(weighted=weighted)
        if len(es) % 2:
            # the nodes declared first, in ONE bulk call (their per-node tables must be
            # independent of each other), the hyperedges afterwards
            first = []
            for s_, t_ in es:
                for n in list(s_) + list(t_):
                    if n not in first:
                        first.append(n)
            h.add_nodes(first + [n for n in iso if n not in first])
        for j, (e, w) in enumerate(zip(es, ws)):
            kw = {"weight": w} if weighted else {}
            # (how the container treats sides handed over in another container type, e.g. as
            # frozensets, is C02's subject: the measures are judged on the documented tuple form)
            h.add_edge(e, **kw)
    if iso:
        h.add_nodes(list(iso))
    return h


def _size(k):
    return len(k[0]) + len(k[1])


def _show(keys):
    return [(sorted(s), sorted(t)) for s, t in keys]


# --------------------------------------------------------------------------
# degrees


def check_degrees(case, ctx):
    from hypergraphx.measures.directed import (in_degree, in_degree_sequence, out_degree,
                                               out_degree_sequence)
    recs, keys, iso, nodes = _abstract(case)
    h = _build(case, recs, iso)
    sizes_present = sorted({_size(k) for k in keys})
    filters = [{}] + [{"size": k} for k in range(1, 8)] + [{"order": k} for k in range(0, 7)]

    def sel(f):
        if "size" in f:
            return [k for k in keys if _size(k) == f["size"]]
        if "order" in f:
            return [k for k in keys if _size(k) - 1 == f["order"]]
        return keys

    ctx.label("sizes_present=%d" % min(len(sizes_present), 4),
              "isolated=%d" % min(len(set(iso) - {v for k in keys for v in k[0] | k[1]}), 2),
              "labels=%s" % case["kind"])
    both = [n for n in nodes if any(n in k[0] for k in keys) and any(n in k[1] for k in keys)]
    ctx.nontrivial(len(sizes_present) >= 2 and bool(both))
    for f in filters:
        es = sel(f)
        exp_in = {n: sum(1 for k in es if n in k[0]) for n in nodes}
        exp_out = {n: sum(1 for k in es if n in k[1]) for n in nodes}
        for n in sorted(nodes, key=repr):
            got = in_degree(h, n, **f)
            require(got == exp_in[n] and isinstance(got, numbers.Integral), lambda: (
                "in_degree(node=%r, %s) = %r, expected %d (hyperedges with the node in the source) "
                "on %s" % (n, f, got, exp_in[n], _show(keys))), key="in_degree")
            got = out_degree(h, n, **f)
            require(got == exp_out[n] and isinstance(got, numbers.Integral), lambda: (
                "out_degree(node=%r, %s) = %r, expected %d (hyperedges with the node in the target) "
                "on %s" % (n, f, got, exp_out[n], _show(keys))), key="out_degree")
        for name, fn, exp in (("in_degree_sequence", in_degree_sequence, exp_in),
                              ("out_degree_sequence", out_degree_sequence, exp_out)):
            seq = fn(h, **f)
            if not isinstance(seq, dict):
                seq_items = list(seq)
                require(len(seq_items) == len({a for a, _ in seq_items}), lambda: (
                    "%s(%s) lists a node twice: %r" % (name, f, seq_items)), key="sequence")
                seq = dict(seq_items)
            require(dict(seq) == exp, lambda: (
                "%s(%s) = %r, expected %r (every node once) on %s, isolated nodes %s"
                % (name, f, dict(seq), exp, _show(keys), iso)), key="sequence")
    if sizes_present:
        ctx.label("node_both_source_and_target" if both else "no_node_in_both_roles")


# --------------------------------------------------------------------------
# signature


def check_signature(case, ctx):
    import numpy as np
    from hypergraphx.measures.directed import hyperedge_signature_vector
    recs, keys, iso, nodes = _abstract(case)
    M = case["M"]
    if not keys and M is None:
        ctx.exclude("empty hypergraph without a bound (statement silent)")
        return
    h = _build(case, recs, iso)
    maxsize = max([_size(k) for k in keys], default=0)
    got = hyperedge_signature_vector(h) if M is None else \
        hyperedge_signature_vector(h, max_hyperedge_size=M)
    bound = maxsize if M is None else M
    ctx.label("bound=%s" % ("none" if M is None else "below_max" if M < maxsize else
                            "max" if M == maxsize else "max+1" if M == maxsize + 1 else
                            "beyond_max+1"),
              "shapes=%d" % min(len({(len(s), len(t)) for s, t in keys}), 4))
    what = "hyperedge_signature_vector(max_hyperedge_size=%s) on %s" % (M, _show(keys))
    vec = np.asarray(got)
    require(vec.ndim == 1 and vec.shape[0] == (bound - 1) ** 2, lambda: (
        "%s has shape %s, expected a vector of length (M-1)^2 = %d"
        % (what, vec.shape, (bound - 1) ** 2)), key="length")
    inside = [k for k in keys if _size(k) <= bound]
    exp = Counter((len(s), len(t)) for s, t in inside)
    for s in range(1, bound):
        for t in range(1, bound):
            cell = vec[(s - 1) * (bound - 1) + (t - 1)]
            require(cell == exp.get((s, t), 0), lambda: (
                "%s: cell (source size %d, target size %d) = %r, expected %d"
                % (what, s, t, cell, exp.get((s, t), 0))), key="cell")
    require(vec.sum() == len(inside), lambda: (
        "%s: cells sum to %r, expected %d hyperedges of size <= %d"
        % (what, vec.sum(), len(inside), bound)), key="sum")
    ctx.nontrivial(len(exp) >= 2 and len(inside) >= 3)
    ctx.trace = {"edges": _show(keys), "M": M, "expected": sorted(exp.items())}
    if M is not None and keys and len(keys) % 2:
        # the same object emptied by clear(): with an explicit bound every cell is 0 (a listing
        # memoised for the bound must not outlive the hyperedges; an empty vector is accepted too)
        h.clear()
        vec = np.asarray(hyperedge_signature_vector(h, max_hyperedge_size=M))
        require(vec.shape in (((M - 1) ** 2,), (0,)) and not vec.any(), lambda: (
            "hyperedge_signature_vector(max_hyperedge_size=%s) after clear(): %r, expected %d "
            "zeros (the hyperedges before clear() were %s)"
            % (M, vec.tolist(), (M - 1) ** 2, _show(keys))), key="after-clear")
        ctx.label("asked_again_after_clear")


# --------------------------------------------------------------------------
# reciprocity


def _reciprocity_oracle(keys, M):
    E = [k for k in keys if 2 <= _size(k) <= M]
    es = set(E)
    reach = {}
    pairs = set()
    for s, t in E:
        for i in s:
            reach.setdefault(i, set()).update(t)
            for j in t:
                pairs.add((i, j))
    tot = Counter(_size(k) for k in E)
    num = {"exact": Counter(), "strong": Counter(), "weak": Counter()}
    status = {}
    for s, t in E:
        k = _size((s, t))
        ex = (t, s) in es
        covered = set()
        for j in t:
            covered |= reach.get(j, set())
        strong = s <= covered
        weak = any((j, i) in pairs for i in s for j in t)
        status[(s, t)] = (ex, strong, weak)
        num["exact"][k] += ex
        num["strong"][k] += strong
        num["weak"][k] += weak
    exp = {name: {k: (Fraction(num[name][k], tot[k]) if tot[k] else Fraction(0))
                  for k in range(2, M + 1)} for name in num}
    return exp, tot, status


def check_reciprocity(case, ctx):
    from hypergraphx.measures.directed import (exact_reciprocity, strong_reciprocity,
                                               weak_reciprocity)
    recs, keys, iso, nodes = _abstract(case)
    M = case["M"]
    h = _build(case, recs, iso)
    exp, tot, status = _reciprocity_oracle(keys, M)
    maxsize = max([_size(k) for k in keys], default=0)
    got = {"exact": exact_reciprocity(h, M), "strong": strong_reciprocity(h, M),
           "weak": weak_reciprocity(h, M)}
    ctx.label("bound=%s" % ("below_max" if M < maxsize else "max" if M == maxsize else
                            "max+1" if M == maxsize + 1 else "beyond_max+1"))
    ctx.trace = {"edges": _show(keys), "M": M,
                 "expected": {n: {k: str(v) for k, v in d.items()} for n, d in exp.items()}}
    for name in ("exact", "strong", "weak"):
        what = "%s_reciprocity(max_hyperedge_size=%d) on %s" % (name, M, _show(keys))
        g = got[name]
        require(isinstance(g, dict) and sorted(g.keys()) == list(range(2, M + 1)), lambda: (
            "%s has keys %r, expected exactly the sizes 2..%d"
            % (what, sorted(g.keys()) if isinstance(g, dict) else g, M)), key="keys")
        for k in range(2, M + 1):
            v = g[k]
            require(isinstance(v, numbers.Real) and not isinstance(v, bool) and 0 <= v <= 1,
                    lambda: "%s: value for size %d is %r, outside [0, 1]" % (what, k, v),
                    key="range")
            require(abs(Fraction(float(v)) - exp[name][k]) <= TOL, lambda: (
                "%s: size %d gives %r, expected %s (%d hyperedges of that size within the bound)"
                % (what, k, v, exp[name][k], tot[k])), key=name)
            if not tot[k]:
                require(v == 0, lambda: "%s: size %d has no hyperedge but the ratio is %r"
                        % (what, k, v), key="empty-size")
    strict = False
    for k in range(2, M + 1):
        e, s, w = got["exact"][k], got["strong"][k], got["weak"][k]
        require(e <= s + float(TOL) and s <= w + float(TOL), lambda: (
            "size %d: exact %r <= strong %r <= weak %r does not hold (max_hyperedge_size=%d) on %s"
            % (k, e, s, w, M, _show(keys))), key="ordering")
        ee, ss, ww = exp["exact"][k], exp["strong"][k], exp["weak"][k]
        if 0 < ee < ss < ww:
            strict = True
        if ee < ss:
            ctx.label("size_with_exact<strong")
        if ss < ww:
            ctx.label("size_with_strong<weak")
        if 0 < ww < 1:
            ctx.label("size_with_0<weak<1")
    # hyperedges whose reciprocity status depends on the bound (a reciprocating
    # hyperedge is larger than the bound)
    full = _reciprocity_oracle(keys, max(maxsize, M))[2]
    if any(full[k] != status[k] for k in status):
        ctx.label("status_depends_on_bound")
    if strict:
        ctx.label("0<exact<strong<weak")
    ctx.nontrivial(strict)


# --------------------------------------------------------------------------
# strategies


@st.composite
def _dedge(draw, n, sizes, min_src=1):
    k = min(draw(st.sampled_from(sizes)), n)
    ns = draw(st.lists(st.integers(0, n - 1), min_size=k, max_size=k, unique=True))
    cut = draw(st.integers(min(min_src, k - 1), k - 1))
    return [ns[:cut], ns[cut:]]


_ECHO = ["exact", "exact", "exact", "subsrc", "subsrc", "subtgt", "subtgt", "supsrc", "pair",
         "pair", "cover"]


def _echoes(edge, kind, n, rnd):
    """Hyperedges that reciprocate ``edge`` = [S, T] exactly, strongly or weakly."""
    s, t = edge
    out_nodes = [v for v in range(n) if v not in s and v not in t]
    if kind == "exact":
        return [[t[:], s[:]]]
    if kind == "subsrc":      # all of S reached from part of T -> strong, not exact
        if len(t) >= 2:
            return [[rnd.sample(t, rnd.randint(1, len(t) - 1)), s[:]]]
        kind = "supsrc"
    if kind == "supsrc":      # (T + x -> S): strong, one size larger
        if out_nodes and len(s) + len(t) < 6:
            return [[t + [rnd.choice(out_nodes)], s[:]]]
        kind = "pair"
    if kind == "subtgt":      # only part of S reached -> weak, not strong
        if len(s) >= 2:
            return [[t[:], rnd.sample(s, rnd.randint(1, len(s) - 1))]]
        kind = "pair"
    if kind == "cover":       # every source reached through its own dyad -> strong
        return [[[rnd.choice(t)], [i]] for i in s]
    return [[[rnd.choice(t)], [rnd.choice(s)]]]   # pair: one reversed dyad -> weak


@st.composite
def _directed(draw, tier):
    u = draw(universes(min_size=4, max_size=8, kinds=("ints", "strs")))
    labels = u["labels"]
    n = len(labels)
    mode = draw(st.sampled_from(["free", "free", "cluster", "cluster", "cluster"]))
    if mode == "free":
        sizes = draw(st.sampled_from([[2, 3], [3], [3, 3, 4], [2, 3, 3, 4, 4, 5, 6], [3, 4, 5],
                                      [2, 3, 4, 5, 6]]))
        m = draw(st.sampled_from([0, 1, 2, 3, 4, 5, 6, 7]))
        base = draw(st.lists(_dedge(n, sizes), min_size=m, max_size=m))
        kinds = draw(st.lists(st.lists(st.sampled_from(_ECHO), max_size=2),
                              min_size=m, max_size=m))
    else:
        # several hyperedges of ONE size with at least two sources, reciprocated
        # exactly / strongly / weakly / not at all in a drawn assignment, so that the
        # three ratios of that size differ (with |source| = 1 strong and weak coincide)
        k = draw(st.sampled_from([3, 3, 4, 4, 5]))
        m = draw(st.integers(3, 7))
        base = draw(st.lists(_dedge(n, [k], min_src=2), min_size=m, max_size=m))
        plan = draw(st.permutations(["exact", "strong", "weak", "none"]))
        kinds = []
        for i in range(m):
            what = plan[i % 4] if i < 4 else draw(st.sampled_from(plan))
            if what == "exact":
                kinds.append(["exact"])
            elif what == "strong":
                kinds.append([draw(st.sampled_from(["subsrc", "cover", "supsrc"]))])
            elif what == "weak":
                kinds.append([draw(st.sampled_from(["subtgt", "pair"]))])
            else:
                kinds.append([])
    rnd = random.Random(draw(st.integers(0, 2 ** 20)))
    edges = []
    for e, ks in zip(base, kinds):
        edges.append(e)
        for k in ks:
            edges.extend(_echoes(e, k, n, rnd))
    # listing order of the hyperedges and of the nodes inside source and target
    edges = [[rnd.sample(s, len(s)), rnd.sample(t, len(t))] for s, t in edges]
    rnd.shuffle(edges)
    return {
        "kind": u["kind"], "mode": mode, "labels": labels, "edges": edges,
        "isolated": draw(st.lists(st.integers(0, n - 1), max_size=2)),
        "build": draw(st.sampled_from(["ctor", "add_edge", "add_edges"])),
        "weighted": draw(st.sampled_from([False, False, False, True])),
    }


def _bound(draw, case, allow_none):
    sizes = [len(s) + len(t) for s, t in case["edges"]]
    top = max(sizes, default=2) + 1
    # keys 2..M and length (M-1)^2 are documented for any M: also bounds well above the largest
    # hyperedge (top = max + 1, top + 1 and the fixed BIG_BOUND)
    choices = list(range(2, top + 1)) + [top - 1, top - 1, top, top + 1, BIG_BOUND]
    if allow_none:
        choices += [None, None, None]
    return draw(st.sampled_from(choices))


@st.composite
def _degree_cases(draw, tier):
    return draw(_directed(tier))


@st.composite
def _signature_cases(draw, tier):
    case = draw(_directed(tier))
    case["M"] = _bound(draw, case, True)
    return case


@st.composite
def _reciprocity_cases(draw, tier):
    case = draw(_directed(tier))
    case["M"] = _bound(draw, case, False)
    return case


CLAUSES = [
    Clause("degrees", _degree_cases, check_degrees, quick=150, thorough=1500, shards_quick=2,
           rule="hyperedges of at least two different sizes and a node that is a source of one "
                "hyperedge and a target of another (all filters size=1..7, order=0..6 and none are "
                "evaluated on every node of every case)"),
    Clause("signature", _signature_cases, check_signature, quick=300, thorough=3000, shards_quick=2,
           rule="at least 3 hyperedges within the bound, of at least 2 different (source size, "
                "target size) shapes"),
    Clause("reciprocity", _reciprocity_cases, check_reciprocity, quick=400, thorough=5000,
           shards_quick=4,
           rule="some size k with 0 < exact(k) < strong(k) < weak(k) in the oracle"),
]
