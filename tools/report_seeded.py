"""Prints the markdown table of /verif/seeded/*/*/meta.json (pasted into DESIGN.md section 7)."""
import glob, json, os
V = os.path.dirname(os.path.dirname(os.path.abspath(__file__)))
print("| change | needs to manifest | tests pass with it | verdict of the current check (re-run after round 5) | first report of the check |")
print("|---|---|---|---|---|")
for f in sorted(glob.glob(os.path.join(V, "seeded", "*", "*", "meta.json"))):
    m = json.load(open(f))
    run = [r for r in m["ran"] if "hgxverif.run" in r["cmd"]]
    first = (run[0]["first_reports"][0] if run and run[0].get("first_reports") else "")
    first = first.replace("|", "/")[:170]
    note = m.get("history_note", "")
    rc = m.get("recheck") or {}
    verdict = rc.get("verdict") or m.get("check_verdict")
    if rc.get("first"):
        first = rc["first"][0].replace("|", "/")[:170]
    print("| %s/%s | %s | %s | %s%s | %s |" % (
        m["property"], m["k"], m["needs_to_manifest"].replace("|", "/"),
        "yes" if m.get("suite_passes_with_patch") else "NO",
        verdict, (" — " + note) if note else "", first))
