"""Generic model-based history machine for the four container classes (C01-C04).

A case = {"weighted", "universe", "init", "ops"}; ops are *abstract* (selector
integers, resolved against the reference model while the history runs).  An
Adapter supplies the class-specific parts: the reference model, how a hyperedge
record is drawn / canonicalised / passed to the real API, and the observation.
"""

import traceback
from collections import Counter

from hypothesis import strategies as st

from . import strategies as S
from .common import Alt, dc, dedupe, diff_obs, permuted
from .engine import Violation, canon

SIZES = list(range(0, 7))  # hyperedges have 1..5 nodes: 0 and 6 are absent sizes


class RefBase:
    """Set of nodes + map record-key -> [weight, metadata]."""

    def __init__(self, weighted):
        self.weighted = weighted
        self.nodes = {}        # label -> metadata (dict or Alt)
        self.edges = {}        # key -> [weight, metadata (dict or Alt)]
        self.hg_required = {}  # user-set hypergraph metadata fields that must be visible
        self.hg_absent = set()  # fields dropped by a wholesale set_hypergraph_metadata
        self.cleared = False

    # -- to be provided by subclasses
    def nodes_of(self, key):
        raise NotImplementedError

    def shrink(self, key, n):
        """key with node n taken out, or None when nothing is left."""
        raise NotImplementedError

    # -- mutators: True = accepted, False = rejected (model untouched)
    def add_node(self, n, meta=None):
        if n not in self.nodes:
            self.nodes[n] = {} if meta is None else meta
        elif meta is not None and meta != {}:
            # docstring: "already in the hypergraph, nothing happens"; the code fills in
            # metadata when the stored record is EMPTY.  Both accepted -- but a non-empty
            # record is never replaced by a re-insertion.
            cur = self.nodes[n]
            alts = list(cur.values) if isinstance(cur, Alt) else [cur]
            if any(a == {} for a in alts):
                self.nodes[n] = Alt(alts + [meta])
        return True

    def valid_key(self, key):
        return True

    def add_edge(self, key, w=None, meta=None):
        if not self.valid_key(key):
            return False
        if not self.weighted and w is not None and w != 1:
            return False
        if w is None:
            w = 1
        if key not in self.edges:
            self.edges[key] = [w if self.weighted else 1, {} if meta is None else meta]
        else:
            if self.weighted:
                self.edges[key][0] += w
            old = self.edges[key][1]
            self.edges[key][1] = Alt([old, {} if meta is None else meta])
        for n in self.nodes_of(key):
            self.add_node(n)
        return True

    def remove_edge(self, key):
        if key not in self.edges:
            return False
        del self.edges[key]
        return True

    def remove_node(self, n, keep_edges=False):
        if n not in self.nodes:
            return False
        inc = [k for k in self.edges if n in self.nodes_of(k)]
        if not keep_edges:
            for k in inc:
                del self.edges[k]
        else:
            moved = [(k, self.edges.pop(k)) for k in inc]
            for k, (w, meta) in moved:
                new = self.shrink(k, n)
                if new is None:
                    continue
                if new in self.edges:
                    if self.weighted:
                        self.edges[new][0] += w
                    self.edges[new][1] = Alt([self.edges[new][1], meta])
                else:
                    self.edges[new] = [w, meta]
        del self.nodes[n]
        return True

    def would_empty(self, ns):
        """keep_edges=True removal of ns (in order) would shrink a hyperedge to nothing."""
        ks = set(self.edges)
        for n in ns:
            ks2 = set()
            for k in ks:
                if n in self.nodes_of(k):
                    new = self.shrink(k, n)
                    if new is None:
                        return True
                    ks2.add(new)
                else:
                    ks2.add(k)
            ks = ks2
        return False

    def set_weight(self, key, w):
        if not self.weighted and w != 1:
            return False
        if key not in self.edges:
            return False
        self.edges[key][0] = w
        return True

    def clear(self):
        self.nodes = {}
        self.edges = {}
        self.hg_required = {}  # after clear() earlier fields are unconstrained
        self.hg_absent = set()
        self.cleared = True
        return True


class Adapter:
    """Class-specific glue.  A *record* is the JSON form of one hyperedge as it is
    passed to the API (node order as listed in the call)."""

    name = "?"
    keep_edges_allowed = True       # remove_node(keep_edges=True) in the quantifier
    empty_shrink_excluded = True    # exclude shrinks that leave nothing (unspecified)
    has_clear = True
    has_copy = True
    has_remove_edges = True
    has_remove_nodes = True
    has_add_nodes_metadata = True
    has_set_edge_metadata = True
    has_set_node_metadata = True
    dup_check_in_weighted_batch = True
    other_containers = False        # add_edge also tried with list / frozenset node containers
    container = None
    alt_keys = ("nodes_meta", "node_meta", "edges_meta", "edge_meta")

    # ---- records
    def fresh_record(self, spec, U):
        raise NotImplementedError

    def record_of_key(self, key, perm):
        raise NotImplementedError

    def key_of(self, rec):
        raise NotImplementedError

    def batch_dup_token(self, rec):
        """What the library's duplicate test in a weighted batch looks at."""
        return repr(rec)

    def sort_key(self, key):
        return repr(key)

    def variant_of_key(self, key, spec, U):
        return self.fresh_record(spec, U)

    def sanitize_batch(self, es, model):
        return es

    def permuted_repeat(self, es):
        """A weighted batch that lists one hyperedge twice in different spellings (node order):
        whether the library's "no repeated edges" test looks at the spelling or at the
        hyperedge is not specified, so such batches are excluded by construction."""
        if not self.dup_check_in_weighted_batch:
            return False
        keys = [self.key_of(e) for e in es]
        toks = [self.batch_dup_token(e) for e in es]
        return len(set(keys)) != len(keys) and len(set(toks)) == len(toks)

    def ambiguous_weighted_batch(self, es):
        return self.permuted_repeat(es)

    # ---- construction / calls on the real object
    def new_model(self, weighted):
        raise NotImplementedError

    def construct(self, weighted, recs, ws, metas, node_meta, hg_meta):
        raise NotImplementedError

    def r_add_node(self, h, n, meta):
        if meta is None:
            h.add_node(n)
        else:
            h.add_node(n, metadata=meta)

    def r_add_nodes(self, h, ns, metas, skip_first=False):
        if metas is None:
            h.add_nodes(list(ns))
        else:
            h.add_nodes(list(ns), metadata={n: metas[i] for i, n in enumerate(ns)
                                            if not (skip_first and i == 0)})

    def r_remove_node(self, h, n, keep):
        if keep:
            h.remove_node(n, keep_edges=True)
        else:
            h.remove_node(n)

    def r_remove_nodes(self, h, ns, keep):
        if keep:
            h.remove_nodes(list(ns), keep_edges=True)
        else:
            h.remove_nodes(list(ns))   # the documented default drops the incident hyperedges

    def r_set_node_metadata(self, h, n, meta):
        h.set_node_metadata(n, meta)

    def r_get_node_metadata(self, h, n):
        return h.get_node_metadata(n)

    def r_get_edge_metadata(self, h, e):
        raise NotImplementedError

    def observe(self, h, U, probes, real):
        raise NotImplementedError

    def hg_meta_of(self, h):
        return dc(h.get_hypergraph_metadata())

    def collapse(self, model, obs):
        for n, m in list(model.nodes.items()):
            if isinstance(m, Alt):
                model.nodes[n] = dc(obs["node_meta"][n])
        for k, rec in model.edges.items():
            if isinstance(rec[1], Alt):
                rec[1] = dc(obs["edge_meta"][self.probe_of_key(k)])

    def probe_of_key(self, key):
        raise NotImplementedError

    def rejection_must_raise(self, c):
        """Operations whose rejection the property states explicitly (not only 'state unchanged
        if it raises'): the call has to raise."""
        return False

    def sibling_keys(self, key):
        """Keys that a confused implementation could mistake for `key` (asked about as well)."""
        return []

    def extra_checks(self, h, model, U, step, ctx, final):
        """Derived-object checks (snapshots, aggregation...)."""


# --------------------------------------------------------------------------
# abstract op -> concrete op


def _edge_from(ad, spec, model, U):
    if spec["mode"] == "recent":
        # a hyperedge of the immediately preceding insertion (aliasing between the items of
        # one batch shows only if one of them is edited in place right afterwards)
        recs = getattr(ad, "recent_recs", None) or []
        if recs:
            return recs[spec["pick"] % len(recs)]
        spec = dict(spec, mode="existing")
    if spec["mode"] == "variant" and model.edges:
        # an existing record changed in the class-specific coordinate
        # (reversed direction / other time / other layer)
        ks = sorted(model.edges, key=ad.sort_key)
        return ad.variant_of_key(ks[spec["pick"] % len(ks)], spec, U)
    if spec["mode"] == "existing" and model.edges:
        ks = sorted(model.edges, key=ad.sort_key)
        return ad.record_of_key(ks[spec["pick"] % len(ks)], spec["perm"])
    return ad.fresh_record(spec, U)


def _node_from(spec, model, U, ad=None):
    if spec["mode"] == "recent":
        ns = [n for n in (getattr(ad, "recent_nodes", None) or []) if n in model.nodes]
        if ns:
            return ns[spec["pick"] % len(ns)]
        spec = dict(spec, mode="existing")
    if spec["mode"] == "existing" and model.nodes:
        ns = sorted(model.nodes)
        return ns[spec["pick"] % len(ns)]
    return U[spec["i"] % len(U)]


def _present_field(meta, aop):
    """Mostly aim remove_attr at a field that exists (otherwise it is a rejection)."""
    fp = aop.get("fpick", 0)
    if isinstance(meta, dict) and meta and fp % 4 != 0:
        fs = sorted(meta)
        return fs[fp % len(fs)]
    return aop["field"]


def resolve(ad, aop, model, U):
    """Concrete operation (plain labels), or None when excluded by construction."""
    k = aop["op"]
    c = {"op": k}
    ad.cur_op = k  # lets an adapter restrict special records (e.g. invalid times) to insertions
    if k == "add_node":
        c["n"] = _node_from(aop["node"], model, U, ad)
        c["meta"] = aop["meta"]
    elif k == "add_nodes":
        c["ns"] = dedupe([U[i % len(U)] for i in aop["ns"]])
        c["metas"] = aop["metas"][: len(c["ns"])] if aop["metas"] is not None else None
        if not ad.has_add_nodes_metadata:
            c["metas"] = None
        if c["metas"] is not None and len(c["metas"]) < len(c["ns"]):
            c["ns"] = c["ns"][: len(c["metas"])]
        if aop.get("first_meta_missing") and c["metas"] is not None:
            # the metadata map lacks the FIRST listed node: documented ValueError, and since the
            # first element fails nothing may have been added
            c["first_meta_missing"] = True
    elif k == "add_edge":
        c["e"] = _edge_from(ad, aop["edge"], model, U)
        c["w"] = aop["w"]
        c["meta"] = aop["meta"]
        if aop.get("container") and ad.other_containers:
            # the node set handed over in a container other than the documented tuple (list,
            # frozenset): storing it correctly and refusing it cleanly (TypeError / ValueError,
            # nothing changed) are both allowed -- storing something else is not
            c["container"] = aop["container"]
            c["either"] = True
    elif k == "add_edges":
        c["es"] = [_edge_from(ad, s, model, U) for s in aop["edges"]]
        c["ws"] = aop["ws"][: len(c["es"])] if aop["ws"] is not None else None
        if aop.get("short_weights") and c["ws"]:
            c["ws"] = c["ws"][:-1]
        c["es"] = ad.sanitize_batch(c["es"], model)
        if c["ws"] is not None and ad.ambiguous_weighted_batch(c["es"]):
            if ad.permuted_repeat(c["es"]) and len(c["ws"]) == len(c["es"]):
                # one hyperedge twice in different node orders, with weights: refusing the batch
                # (a stricter duplicate test) and accepting it with the weights summed are both
                # allowed -- anything else (e.g. a weight counted twice) is not
                c["either"] = True
            else:
                return None
        c["metas"] = None
        if aop["metas"] is not None:
            c["metas"] = (aop["metas"] + [{} for _ in c["es"]])[: len(c["es"])]
    elif k in ("remove_edge", "set_weight", "set_edge_metadata", "set_attr_edge",
               "remove_attr_edge", "rmw_edge"):
        c["e"] = _edge_from(ad, aop["edge"], model, U)
        for f in ("w", "meta", "field", "value"):
            if f in aop:
                c[f] = aop[f]
        key = ad.key_of(c["e"])
        if k == "remove_attr_edge" and key in model.edges:
            c["field"] = _present_field(model.edges[key][1], aop)
    elif k == "remove_edges":
        es = [_edge_from(ad, s, model, U) for s in aop["edges"]]
        seen, out = set(), []
        first_missing = bool(es) and ad.key_of(es[0]) not in model.edges
        for i, e in enumerate(es):
            key = ad.key_of(e)
            if key in seen:
                continue
            if key not in model.edges and i > 0:
                continue  # a failing element only in first position (DESIGN C01: batches)
            seen.add(key)
            out.append(e)
        # [missing, existing...]: rejected on its first element, so NOTHING may be applied --
        # the existing hyperedges listed after it must keep their incidences too
        c["es"] = out
        if first_missing:
            c["rejected_batch_tail"] = len(out) - 1
    elif k == "remove_node":
        c["n"] = _node_from(aop["node"], model, U, ad)
        c["keep"] = aop["keep"] and ad.keep_edges_allowed
        if (c["keep"] and ad.empty_shrink_excluded and c["n"] in model.nodes
                and model.would_empty([c["n"]])):
            return None
    elif k == "remove_nodes":
        ns = dedupe([_node_from(s, model, U) for s in aop["nodes"]])
        out = []
        for i, n in enumerate(ns):
            if n not in model.nodes and i > 0:
                continue
            out.append(n)
        c["ns"] = out   # [missing, existing...] is rejected on its first element
        c["keep"] = aop["keep"] and ad.keep_edges_allowed
        if (c["keep"] and ad.empty_shrink_excluded and all(n in model.nodes for n in out)
                and model.would_empty(out)):
            return None
    elif k in ("set_node_metadata", "set_attr_node", "remove_attr_node", "rmw_node"):
        c["n"] = _node_from(aop["node"], model, U, ad)
        for f in ("meta", "field", "value"):
            if f in aop:
                c[f] = aop[f]
        if k == "remove_attr_node" and c["n"] in model.nodes:
            c["field"] = _present_field(model.nodes[c["n"]], aop)
    elif k == "set_attr_hg":
        c["field"], c["value"] = aop["field"], aop["value"]
    elif k == "set_layer_meta":
        # multiplex: metadata of one layer / of the dataset, kept inside the hypergraph metadata
        c["field"], c["value"] = LAYERS[aop["layer"] % len(LAYERS)], aop["meta"]
    elif k == "set_dataset_meta":
        c["field"], c["value"] = "multiplex_metadata", aop["meta"]
    elif k == "set_hg_metadata":
        c["meta"] = aop["meta"]
    elif k in ("clear", "copy"):
        pass
    else:
        raise ValueError(k)
    return c


def apply_model(ad, m, c):
    """Apply a concrete op to the model.  True = accepted, False = rejected."""
    k = c["op"]
    if k == "add_node":
        return m.add_node(c["n"], dc(c["meta"]))
    if k == "add_nodes":
        if c.get("first_meta_missing"):
            return False
        for i, n in enumerate(c["ns"]):
            m.add_node(n, dc(c["metas"][i]) if c["metas"] is not None else None)
        return True
    if k == "add_edge":
        return m.add_edge(ad.key_of(c["e"]), c["w"], dc(c["meta"]))
    if k == "add_edges":
        ws = c["ws"]
        if ws is not None:
            if ad.dup_check_in_weighted_batch and \
                    len(set(ad.batch_dup_token(e) for e in c["es"])) != len(c["es"]):
                return False
            if len(ws) != len(c["es"]):
                return False
        for i, e in enumerate(c["es"]):
            w = ws[i] if ws is not None else None
            if not m.add_edge(ad.key_of(e), w,
                              dc(c["metas"][i]) if c["metas"] is not None else None):
                if i == 0:
                    return False  # fails on its first element: nothing applied
                raise AssertionError("generator produced a partially failing batch")
        return True
    if k == "remove_edge":
        return m.remove_edge(ad.key_of(c["e"]))
    if k == "remove_edges":
        for e in c["es"]:
            if not m.remove_edge(ad.key_of(e)):
                return False  # only possible at position 0
        return True
    if k == "remove_node":
        return m.remove_node(c["n"], c["keep"])
    if k == "remove_nodes":
        for n in c["ns"]:
            if not m.remove_node(n, c["keep"]):
                return False
        return True
    if k == "set_weight":
        return m.set_weight(ad.key_of(c["e"]), c["w"])
    if k == "set_node_metadata":
        if c["n"] not in m.nodes:
            return False
        m.nodes[c["n"]] = dc(c["meta"])
        return True
    if k == "set_edge_metadata":
        key = ad.key_of(c["e"])
        if key not in m.edges:
            return False
        m.edges[key][1] = dc(c["meta"])
        return True
    if k in ("set_attr_node", "rmw_node"):
        if c["n"] not in m.nodes:
            return False
        m.nodes[c["n"]][c["field"]] = dc(c["value"])
        return True
    if k == "remove_attr_node":
        if c["n"] not in m.nodes or c["field"] not in m.nodes[c["n"]]:
            return False
        del m.nodes[c["n"]][c["field"]]
        return True
    if k in ("set_attr_edge", "rmw_edge"):
        key = ad.key_of(c["e"])
        if key not in m.edges:
            return False
        m.edges[key][1][c["field"]] = dc(c["value"])
        return True
    if k == "remove_attr_edge":
        key = ad.key_of(c["e"])
        if key not in m.edges or c["field"] not in m.edges[key][1]:
            return False
        del m.edges[key][1][c["field"]]
        return True
    if k in ("set_attr_hg", "set_layer_meta", "set_dataset_meta"):
        m.hg_required[c["field"]] = dc(c["value"])
        m.hg_absent.discard(c["field"])
        return True
    if k == "set_hg_metadata":
        m.hg_absent = (m.hg_absent | set(m.hg_required)) - set(c["meta"])
        m.hg_required = dc(c["meta"])
        return True
    if k == "clear":
        return m.clear()
    raise ValueError(k)


def apply_real(ad, h, c):
    k = c["op"]
    if k == "add_node":
        ad.r_add_node(h, c["n"], dc(c["meta"]))
    elif k == "add_nodes":
        metas = [dc(m) for m in c["metas"]] if c["metas"] is not None else None
        if c.get("first_meta_missing"):
            ad.r_add_nodes(h, c["ns"], metas, skip_first=True)
        else:
            ad.r_add_nodes(h, c["ns"], metas)
    elif k == "add_edge":
        ad.container = c.get("container")
        try:
            ad.r_add_edge(h, c["e"], c["w"], dc(c["meta"]))
        finally:
            ad.container = None
    elif k == "add_edges":
        ad.r_add_edges(h, c["es"], list(c["ws"]) if c["ws"] is not None else None,
                       [dc(m) for m in c["metas"]] if c["metas"] is not None else None)
    elif k == "remove_edge":
        ad.r_remove_edge(h, c["e"])
    elif k == "remove_edges":
        ad.r_remove_edges(h, c["es"])
    elif k == "remove_node":
        ad.r_remove_node(h, c["n"], c["keep"])
    elif k == "remove_nodes":
        ad.r_remove_nodes(h, c["ns"], c["keep"])
    elif k == "set_weight":
        ad.r_set_weight(h, c["e"], c["w"])
    elif k == "set_node_metadata":
        ad.r_set_node_metadata(h, c["n"], dc(c["meta"]))
    elif k == "set_edge_metadata":
        ad.r_set_edge_metadata(h, c["e"], dc(c["meta"]))
    elif k == "rmw_node":
        # read-modify-write: the dict a getter returned is edited and handed back to the setter
        md = ad.r_get_node_metadata(h, c["n"])
        md[c["field"]] = dc(c["value"])
        ad.r_set_node_metadata(h, c["n"], md)
    elif k == "rmw_edge":
        md = ad.r_get_edge_metadata(h, c["e"])
        md[c["field"]] = dc(c["value"])
        ad.r_set_edge_metadata(h, c["e"], md)
    elif k == "set_attr_node":
        h.set_attr_to_node_metadata(c["n"], c["field"], dc(c["value"]))
    elif k == "remove_attr_node":
        h.remove_attr_from_node_metadata(c["n"], c["field"])
    elif k == "set_attr_edge":
        ad.r_set_attr_edge(h, c["e"], c["field"], dc(c["value"]))
    elif k == "remove_attr_edge":
        ad.r_remove_attr_edge(h, c["e"], c["field"])
    elif k == "set_attr_hg":
        h.set_attr_to_hypergraph_metadata(c["field"], dc(c["value"]))
    elif k == "set_layer_meta":
        h.set_layer_metadata(c["field"], dc(c["value"]))
        got = h.get_layer_metadata(c["field"])
        if got != c["value"]:
            raise Violation("get_layer_metadata(%r) = %r right after set_layer_metadata(%r, %r)"
                            % (c["field"], got, c["field"], c["value"]), key="layer-metadata")
    elif k == "set_dataset_meta":
        h.set_dataset_metadata(dc(c["value"]))
        got = h.get_dataset_metadata()
        if got != c["value"]:
            raise Violation("get_dataset_metadata() = %r right after set_dataset_metadata(%r)"
                            % (got, c["value"]), key="dataset-metadata")
    elif k == "set_hg_metadata":
        h.set_hypergraph_metadata(dc(c["meta"]))
    elif k == "clear":
        h.clear()
    else:
        raise ValueError(k)


# --------------------------------------------------------------------------
# the check


def build_initial(ad, case, U):
    init = case["init"]
    weighted = case["weighted"]
    model = ad.new_model(weighted)
    hg_meta = dc(init["hg_meta"])
    if hg_meta is not None:
        model.hg_required = dc(hg_meta)
    node_meta = None
    if init["node_meta"] is not None:
        node_meta = {}
        for i, meta in init["node_meta"]:
            node_meta[U[i % len(U)]] = dc(meta)  # later entries win, as in a dict literal
        for n, meta in node_meta.items():
            model.add_node(n, dc(meta))
    recs, seen = [], set()
    for spec in init["edges"]:
        r = ad.fresh_record(spec, U)
        if r is None:
            continue
        k = ad.key_of(r)
        if k not in seen and model.valid_key(k):
            seen.add(k)
            recs.append(r)
    ws = metas = None
    if recs and weighted and init["weights"] is not None:
        # the duplicate test of a weighted batch is only specified for exact repeats
        toks, uniq = set(), []
        for r in recs:
            if ad.batch_dup_token(r) not in toks:
                toks.add(ad.batch_dup_token(r))
                uniq.append(r)
        recs = uniq
    if recs and not (weighted and init["weights"] is not None):
        # the constructor is handed a hyperedge it already got, spelled in another node order
        # (no weights given: an insertion like any other -- weight summed / idempotent)
        for pick, perm in init.get("repeats") or []:
            recs.append(ad.record_of_key(ad.key_of(recs[pick % len(recs)]), perm))
    if recs:
        if weighted and init["weights"] is not None:
            ws = (init["weights"] * len(recs))[: len(recs)]
        if init["edge_meta"] is not None:
            metas = (init["edge_meta"] + [{} for _ in recs])[: len(recs)]
        for i, r in enumerate(recs):
            model.add_edge(ad.key_of(r), ws[i] if ws is not None else None,
                           dc(metas[i]) if metas is not None else None)
    h = ad.construct(weighted, recs, list(ws) if ws is not None else None,
                     [dc(m) for m in metas] if metas is not None else None,
                     dc(node_meta), hg_meta)
    desc = {"weighted": weighted, "records": recs, "weights": ws, "edge_metadata": metas,
            "node_metadata": [[k, v] for k, v in (node_meta or {}).items()] or None,
            "hypergraph_metadata": init["hg_meta"]}
    return h, model, desc


def full_obs(ad, h, U, probes):
    o = ad.observe(h, U, probes, real=True)
    o["__hg_meta__"] = ad.hg_meta_of(h)
    return o


def check_against_model(ad, h, model, U, probes, step_desc):
    obs = ad.observe(h, U, probes, real=True)
    exp = ad.observe(model, U, probes, real=False)
    d = diff_obs(exp, obs, ad.alt_keys)
    if d is not None:
        raise Violation("after %s: %s" % (step_desc, d))
    hm = ad.hg_meta_of(h)
    for f, v in model.hg_required.items():
        if not (isinstance(hm, dict) and f in hm and hm[f] == v):
            raise Violation("after %s: hypergraph metadata field %r expected %r, metadata is %r"
                            % (step_desc, f, v, hm))
    for f in model.hg_absent:
        if isinstance(hm, dict) and f in hm:
            raise Violation("after %s: hypergraph metadata field %r survived a wholesale "
                            "set_hypergraph_metadata: %r" % (step_desc, f, hm))
    ad.collapse(model, obs)
    obs["__hg_meta__"] = hm
    # bulk metadata listings: nothing of a removed node / hyperedge may linger
    # (unconstrained after clear(), see DESIGN C02 don't-care)
    if not model.cleared:
        for meth, want in (("get_all_nodes_metadata", list(model.nodes.values())),
                           ("get_all_edges_metadata", [r[1] for r in model.edges.values()])):
            if hasattr(h, meth):
                got = getattr(h, meth)()
                got = list(got.values()) if isinstance(got, dict) else list(got)
                a = sorted(canon(v) for v in got)
                b = sorted(canon(v) for v in want)
                if a != b:
                    raise Violation("after %s: %s() lists metadata %s, the content has %s"
                                    % (step_desc, meth, a, b), key="stale-bulk-metadata")
    return obs


def _unchanged(ad, h, U, probes, cur_obs, desc):
    """Derivations (snapshots, aggregation, overlap...) must not change the object."""
    d = diff_obs(cur_obs, full_obs(ad, h, U, probes))
    if d is not None:
        raise Violation("derived-object queries after %s changed the object itself: %s"
                        % (desc, d), key="derivation-mutates")


def check_history(ad, case, ctx):
    U = case["universe"]["labels"]
    h, model, desc0 = build_initial(ad, case, U)
    probes = []

    def note_probe(rec):
        key = ad.key_of(rec)
        for p in [ad.probe_of_key(key)] + [ad.probe_of_key(k) for k in ad.sibling_keys(key)]:
            if p not in probes and len(probes) < 40:
                probes.append(p)

    trace = [{"init": desc0}]
    ctx.trace = trace
    ad.recent_recs, ad.recent_nodes = [], []
    frozen = []  # (object, model, obs) of originals left behind by copy()
    cur_obs = check_against_model(ad, h, model, U, probes, "construction")
    keys0 = [ad.key_of(r) for r in desc0["records"]]
    if len(set(keys0)) < len(keys0):
        ctx.label("constructor_got_a_hyperedge_twice")
    if ad.extra_checks(h, model, U, -1, ctx, final=False):
        _unchanged(ad, h, U, probes, cur_obs, "construction")
    seen_removal = inserted_after = reinsertion = False
    n_reject = 0
    for step, aop in enumerate(case["ops"]):
        if (cur_obs is None and aop["op"] in ("set_attr_node", "remove_attr_node", "set_attr_edge",
                                              "remove_attr_edge", "rmw_node", "rmw_edge")
                and (any(isinstance(m, Alt) for m in model.nodes.values())
                     or any(isinstance(r[1], Alt) for r in model.edges.values()))):
            # an in-place edit of a metadata dict whose content is one of several allowed
            # values: the model has to learn first which one the library holds
            cur_obs = check_against_model(ad, h, model, U, probes, "before step %d" % step)
        c = resolve(ad, aop, model, U)
        if c is None:
            ctx.exclude({"add_edges": "weighted batch whose duplicate test is unspecified"}.get(
                aop["op"], "keep_edges=True removal that would leave an empty hyperedge"))
            continue
        trace.append(c)
        desc = "step %d %r" % (step, c)
        if c["op"] in ("add_node", "add_nodes", "add_edge", "add_edges"):
            recs = [c["e"]] if "e" in c else list(c.get("es", []))
            ns = [c["n"]] if "n" in c else list(c.get("ns", []))
            for r in recs:
                for n in sorted(model.nodes_of(ad.key_of(r)), key=repr):
                    if n not in ns:
                        ns.append(n)
            ad.recent_recs, ad.recent_nodes = recs, ns
        elif c["op"] not in ("set_attr_node", "set_attr_edge", "remove_attr_node",
                             "remove_attr_edge", "rmw_node", "rmw_edge"):
            ad.recent_recs, ad.recent_nodes = [], []
        n_probes = len(probes)
        if "e" in c:
            note_probe(c["e"])
        for e in c.get("es", []):
            note_probe(e)
        # quiet step: the object is NOT queried around this mutation, so that two or more
        # mutations separate two observations (a result memoised by the library and
        # invalidated by a stamp that survives e.g. a removal plus an insertion is stale then).
        # cur_obs is None while the last observation is older than the last mutation.
        quiet = bool(aop.get("quiet")) and c["op"] != "copy"
        if len(probes) != n_probes:  # the observation now asks about more hyperedges
            if cur_obs is not None and not quiet:
                cur_obs = full_obs(ad, h, U, probes)
            else:
                cur_obs = None
            frozen = [(h0, m0, full_obs(ad, h0, U, probes)) for (h0, m0, _) in frozen]
        elif quiet:
            cur_obs = None
        if c["op"] == "copy":
            ctx.label("op:copy")
            h2 = h.copy()
            if cur_obs is None:
                cur_obs = check_against_model(ad, h, model, U, probes, desc + " (original)")
            frozen.append((h, dc(model), cur_obs))
            h = h2
            cur_obs = check_against_model(ad, h, model, U, probes, desc)
            continue
        # classification (before the model changes)
        if c["op"] == "add_edge" and ad.key_of(c["e"]) in model.edges:
            reinsertion = True
            ctx.label("reinsert_existing")
        if c["op"] == "add_edges" and any(ad.key_of(e) in model.edges for e in c["es"]):
            reinsertion = True
            ctx.label("reinsert_existing_batch")
        m2 = dc(model)
        accepted = apply_model(ad, m2, c)
        raised = None
        try:
            apply_real(ad, h, c)
        except Violation:
            raise
        except Exception as e:  # the library rejected (or crashed on) the operation
            raised = e
        if c.get("either") and accepted and isinstance(raised, (ValueError, TypeError)):
            accepted = False   # the allowed refusal: the state must be unchanged
            ctx.label("either_outcome_op_refused:" + c["op"])
        elif c.get("either") and accepted:
            ctx.label("either_outcome_op_accepted:" + c["op"])
        ctx.label("op:" + c["op"])
        if aop.get("same_node_set_batch") and c["op"] == "add_edges" and len(c["es"]) >= 2:
            ctx.label(("accepted" if accepted else "rejected") + "_batch_listing_one_node_set_repeatedly"
                      + ("_weighted" if c.get("ws") is not None else ""))
        if accepted:
            if raised is not None:
                tb = traceback.extract_tb(raised.__traceback__)[-1]
                raise Violation(
                    "%s is a valid operation but raised %s: %s (%s:%d)"
                    % (desc, type(raised).__name__, str(raised)[:200],
                       tb.filename.split("/")[-1], tb.lineno),
                    key="valid-op-raised:%s" % c["op"])
            model = m2
            if c["op"] in ("remove_edge", "remove_edges", "remove_node", "remove_nodes"):
                seen_removal = True
                if c.get("keep"):
                    reinsertion = True  # a keep_edges shrink re-inserts hyperedges
                    ctx.label("keep_edges_shrink")
            elif c["op"] in ("add_edge", "add_edges") and seen_removal:
                inserted_after = True
            if quiet:
                ctx.label("quiet_step")
                cur_obs = None
            else:
                if cur_obs is None:
                    ctx.label("observation_after_two_or_more_mutations")
                cur_obs = check_against_model(ad, h, model, U, probes, desc)
        else:
            n_reject += 1
            ctx.label("rejected:" + c["op"])
            if raised is None and ad.rejection_must_raise(c):
                raise Violation("%s must be rejected with an exception but returned normally"
                                % desc, key="not-rejected:%s" % c["op"])
            if c["op"] in ("remove_edges", "remove_nodes") and len(c.get("es") or c.get("ns") or []) > 1:
                ctx.label("rejected-bulk-removal-with-existing-tail")
            if cur_obs is None:
                # no observation since the last accepted mutation: the state after the rejected
                # call is compared with the model instead of with an observation before it
                cur_obs = check_against_model(ad, h, model, U, probes,
                                              desc + " (rejected; state must be that of the model)")
                obs = cur_obs
            else:
                obs = full_obs(ad, h, U, probes)
            d = diff_obs(cur_obs, obs)
            if d is not None:
                raise Violation(
                    "%s must be rejected (%s) but the observable state changed: %s"
                    % (desc, "raised %s" % type(raised).__name__ if raised else "no exception", d),
                    key="rejected-op-changed-state:%s" % c["op"])
        # originals left behind by copy() must not move
        for (h0, m0, o0) in frozen:
            d = diff_obs(o0, full_obs(ad, h0, U, probes))
            if d is not None:
                raise Violation("%s on a copy changed the original: %s" % (desc, d),
                                key="copy-aliasing")
        if cur_obs is not None and ad.extra_checks(h, model, U, step, ctx, final=False):
            _unchanged(ad, h, U, probes, cur_obs, desc)
    if cur_obs is None:
        cur_obs = check_against_model(ad, h, model, U, probes, "the end of the history")
    ad.extra_checks(h, model, U, len(case["ops"]), ctx, final=True)
    _unchanged(ad, h, U, probes, cur_obs, "the end of the history")
    if frozen:
        ctx.label("has_copy")
    if n_reject:
        ctx.label("has_rejection")
    ctx.label("weighted" if case["weighted"] else "unweighted")
    ctx.label("labels:" + case["universe"]["kind"])
    ctx.nontrivial(seen_removal and reinsertion)
    if seen_removal and inserted_after:
        ctx.label("insert_after_removal")
    return model


# --------------------------------------------------------------------------
# generators

sel = st.integers(0, 30)
idx = st.integers(0, 7)
# "10" is also a node label of the string universe; "" is a (falsy) string
LAYERS = ["L1", "l2", "10", "z", ""]


def edge_spec(modes=("existing", "fresh"), t_strategy=None):
    return st.fixed_dictionaries({
        "mode": st.sampled_from(list(modes)),
        "ns": st.lists(idx, min_size=1, max_size=5, unique=True),
        "pick": sel, "perm": sel,
        "cut": st.integers(0, 7),          # directed: where the node list splits
        "t": t_strategy or st.integers(0, 12),   # temporal
        "layer": st.integers(0, 4),        # multiplex
    })


def node_spec():
    return st.fixed_dictionaries({
        "mode": st.sampled_from(["existing"] * 4 + ["fresh"]), "i": idx, "pick": sel})


def weight_for(weighted):
    if weighted:
        # 0 is a weight too (a falsy value must not be mistaken for "no weight given")
        return st.one_of(st.none(), st.integers(1, 9), st.sampled_from([0.5, 2.5, 0]))
    # 1/None accepted; anything else is an intended rejection
    return st.sampled_from([None, None, None, 1, 1, 3])


KINDS = (["add_edge"] * 8 + ["add_edges"] * 3 + ["add_node"] * 2 + ["add_nodes"]
         + ["remove_edge"] * 4 + ["remove_edges"] * 2 + ["remove_node"] * 4 + ["remove_nodes"] * 2
         + ["set_weight"] * 2 + ["set_node_metadata", "set_edge_metadata", "set_attr_node",
            "remove_attr_node", "set_attr_edge", "remove_attr_edge", "set_attr_hg",
            "set_hg_metadata", "rmw_node", "rmw_edge"]
         + ["copy"])


@st.composite
def op_strategy(draw, weighted, kinds, t_strategy=None, clear=True):
    # clear() is rare: it wipes the history that makes later steps interesting
    k = "clear" if (clear and draw(st.integers(0, 39)) == 39) else draw(st.sampled_from(kinds))
    field = st.sampled_from(S.ATTRS)
    # operations on hyperedges / nodes mostly aim at existing ones (the rest are
    # intended rejections or fresh insertions)
    # "variant": an existing node set at ANOTHER coordinate (reversed direction, other time,
    # other layer): removals / updates aimed there must be rejected, not redirected
    e_exist = edge_spec(["existing"] * 6 + ["fresh", "variant"], t_strategy)
    e_mixed = edge_spec(["existing", "fresh"] * 2 + ["variant"], t_strategy)
    op = {"op": k}
    if k == "add_node":
        op.update(node=draw(node_spec()), meta=draw(S.opt_metadata()))
    elif k == "add_nodes":
        op.update(ns=draw(st.lists(idx, min_size=1, max_size=4, unique=True)),
                  metas=draw(st.one_of(st.none(), st.lists(S.metadata(), min_size=1, max_size=4))),
                  first_meta_missing=draw(st.integers(0, 7)) == 0)
    elif k == "add_edge":
        op.update(edge=draw(e_mixed), w=draw(weight_for(weighted)), meta=draw(S.opt_metadata()),
                  container=draw(st.sampled_from([None] * 6 + ["list", "frozenset"])))
    elif k == "add_edges":
        wv = st.one_of(st.integers(1, 9), st.integers(1, 9), st.sampled_from([0, 0.5, 2.5]))
        ws = (st.one_of(st.none(), st.lists(wv, min_size=4, max_size=4))
              if weighted else st.none())
        specs = draw(st.lists(e_mixed, min_size=1, max_size=4))
        if len(specs) >= 2 and draw(st.integers(0, 3)) == 0:
            # one batch lists the SAME node set several times at different coordinates (layers,
            # times; for the plain classes: a repeated hyperedge, mostly in a new node order)
            first = specs[0]
            for j, sp in enumerate(specs[1:], start=1):
                sp.update(mode=first["mode"], ns=list(first["ns"]), pick=first["pick"],
                          cut=first["cut"], layer=first["layer"] + j, perm=first["perm"] + j)
                if isinstance(first["t"], int) and not isinstance(first["t"], bool):
                    sp["t"] = first["t"] + j
            op["same_node_set_batch"] = True
        op.update(edges=specs, ws=draw(ws),
                  short_weights=draw(st.integers(0, 9)) == 9,
                  metas=draw(st.one_of(st.none(), st.lists(S.metadata(), max_size=4))))
    elif k == "remove_edge":
        op.update(edge=draw(e_exist))
    elif k == "remove_edges":
        op.update(edges=draw(st.lists(e_exist, min_size=1, max_size=3)))
    elif k == "remove_node":
        op.update(node=draw(node_spec()), keep=draw(st.booleans()))
    elif k == "remove_nodes":
        op.update(nodes=draw(st.lists(node_spec(), min_size=1, max_size=3)),
                  keep=draw(st.booleans()))
    elif k == "set_weight":
        op.update(edge=draw(e_exist),
                  w=draw(st.sampled_from([1, 2, 3, 5, 8, 9, 0, 0.5]) if weighted
                         else st.sampled_from([1, 1, 1, 4, 0])))
    elif k == "set_node_metadata":
        op.update(node=draw(node_spec()), meta=draw(S.metadata()))
    elif k == "set_edge_metadata":
        op.update(edge=draw(e_exist), meta=draw(S.metadata()))
    elif k == "set_attr_node":
        op.update(node=draw(node_spec()), field=draw(field), value=draw(S.json_values))
    elif k == "remove_attr_node":
        op.update(node=draw(node_spec()), field=draw(field), fpick=draw(sel))
    elif k == "rmw_node":
        op.update(node=draw(node_spec()), field=draw(field), value=draw(S.json_values))
    elif k == "rmw_edge":
        op.update(edge=draw(e_exist), field=draw(field), value=draw(S.json_values))
    elif k == "set_attr_edge":
        op.update(edge=draw(e_exist), field=draw(field), value=draw(S.json_values))
    elif k == "remove_attr_edge":
        op.update(edge=draw(e_exist), field=draw(field), fpick=draw(sel))
    elif k == "set_attr_hg":
        op.update(field=draw(field), value=draw(S.json_values))
    elif k == "set_layer_meta":
        op.update(layer=draw(st.integers(0, 3)), meta=draw(S.metadata()))
    elif k == "set_dataset_meta":
        op.update(meta=draw(S.metadata()))
    elif k == "set_hg_metadata":
        op.update(meta=draw(S.metadata()))
    elif k == "clear":
        # the object is rebuilt right after a clear(): counters / free lists / tables that
        # clear() forgot to reset only matter once new records arrive
        n_new = draw(st.integers(2, 5))
        op["follows"] = [{"op": "add_edge", "edge": draw(edge_spec(["fresh"], t_strategy)),
                          "w": draw(weight_for(weighted)), "meta": draw(S.opt_metadata())}
                         for _ in range(n_new)]
        if draw(st.booleans()):
            # ... or nodes first come back WITHOUT hyperedges (what a per-node memo kept across
            # the clear() would still claim about them is wrong now)
            op["follows"].insert(0, {"op": "add_nodes", "metas": None, "first_meta_missing": False,
                                     "ns": draw(st.lists(idx, min_size=1, max_size=4, unique=True))})
    if k in ("add_node", "add_nodes", "add_edge", "add_edges") and draw(st.integers(0, 3)) == 0:
        # an in-place metadata edit on an item of this very insertion, executed as the next
        # step (catches dicts shared between the items of one batch)
        recent_node = {"mode": "recent", "i": draw(idx), "pick": draw(sel)}
        if k in ("add_edge", "add_edges") and draw(st.booleans()):
            spec = dict(draw(e_exist), mode="recent")
            op["follow"] = {"op": "set_attr_edge", "edge": spec, "field": draw(field),
                            "value": draw(S.json_values)}
        else:
            op["follow"] = {"op": "set_attr_node", "node": recent_node, "field": draw(field),
                            "value": draw(S.json_values)}
    return op


@st.composite
def histories(draw, max_steps, kinds=None, t_strategy=None, clear=True,
              universe_kinds=("ints", "strs", "range", "ints", "floats"), init_t_strategy=None):
    kinds = kinds or KINDS
    weighted = draw(st.booleans())
    universe = draw(S.universes(min_size=3, max_size=8, kinds=universe_kinds))
    with_init = draw(st.booleans())
    init = {"edges": [], "weights": None, "node_meta": None, "edge_meta": None, "hg_meta": None}
    if with_init:
        init = {
            "edges": draw(st.lists(edge_spec(["fresh"], init_t_strategy), max_size=5)),
            "weights": draw(st.one_of(st.none(), st.lists(
                st.one_of(st.integers(1, 9), st.integers(1, 9), st.sampled_from([0, 0.5, 2.5])),
                min_size=1, max_size=5))),
            "node_meta": draw(st.one_of(st.none(), st.lists(st.tuples(idx, S.metadata()), max_size=3))),
            "edge_meta": draw(st.one_of(st.none(), st.lists(S.metadata(), max_size=5))),
            "hg_meta": draw(st.one_of(st.none(), S.metadata())),
            "repeats": draw(st.lists(st.tuples(sel, sel), max_size=2)) if draw(st.booleans()) else [],
        }
        init["repeats"] = [list(t) for t in init["repeats"]]
        if init["node_meta"] is not None:
            init["node_meta"] = [list(t) for t in init["node_meta"]]
    min_steps = draw(st.sampled_from([1, 8, 16]))
    drawn = draw(st.lists(op_strategy(weighted, kinds, t_strategy, clear),
                          min_size=min_steps, max_size=max_steps))
    ops = []
    for op in drawn:
        follow = op.pop("follow", None)
        follows = op.pop("follows", [])
        ops.append(op)
        if follow is not None:
            ops.append(follow)
        ops.extend(follows)
    # half of the histories are observed after every step; in the others about every third
    # step is "quiet" (no query around it): observations then follow two or more mutations
    if draw(st.booleans()):
        bits = draw(st.lists(st.integers(0, 2), min_size=len(ops), max_size=len(ops)))
        for op, b in zip(ops, bits):
            if b == 0:
                op["quiet"] = True
    return {"weighted": weighted, "universe": universe, "init": init, "ops": ops}
