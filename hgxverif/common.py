"""Helpers shared by the property modules."""

import copy
import random
from collections import Counter

from .engine import Violation


class Alt:
    """A *set of allowed values* for an unspecified corner (DESIGN 'don't care').

    Compared against an observed value it matches when the value equals one of
    the alternatives; the model then collapses to the observed one."""

    def __init__(self, values):
        vals = []
        for v in values:
            if isinstance(v, Alt):
                for x in v.values:
                    if x not in vals:
                        vals.append(x)
            elif v not in vals:
                vals.append(v)
        self.values = vals

    def matches(self, v):
        return any(v == x for x in self.values)

    def __repr__(self):
        return "Alt(%r)" % (self.values,)

    def __deepcopy__(self, memo):
        return Alt(copy.deepcopy(self.values, memo))


def definite(v):
    if isinstance(v, Alt):
        return v if len(v.values) > 1 else v.values[0]
    return v


def alt_equal(expected, observed):
    """expected may contain Alt at the top level or as dict values (one level)."""
    if isinstance(expected, Alt):
        return expected.matches(observed)
    if isinstance(expected, dict) and isinstance(observed, dict):
        if set(expected.keys()) != set(observed.keys()):
            return False
        return all(alt_equal(expected[k], observed[k]) for k in expected)
    return expected == observed


def cedge(e):
    """Canonical form of an undirected hyperedge returned by the library."""
    e = tuple(e)
    if len(set(e)) != len(e):
        raise Violation("hyperedge %r lists a node twice" % (e,))
    return tuple(sorted(e))


def permuted(nodes, perm_seed):
    nodes = list(nodes)
    return random.Random(perm_seed).sample(nodes, len(nodes))


def dedupe(xs):
    out = []
    for x in xs:
        if x not in out:
            out.append(x)
    return out


def multiset(xs):
    return Counter(xs)


def diff_obs(expected, observed, alt_keys=()):
    """First difference between two observation dicts, as text (None if equal)."""
    for k in expected:
        if k not in observed:
            return "query %r missing from the observation" % (k,)
        e, o = expected[k], observed[k]
        ok = alt_equal(e, o) if k in alt_keys else (e == o)
        if not ok:
            path = [k]
            # descend into nested dicts to name the first differing sub-query
            while (isinstance(e, dict) and isinstance(o, dict)
                   and not isinstance(e, Counter) and set(e.keys()) == set(o.keys())):
                for kk in e:
                    if not alt_equal(e[kk], o[kk]):
                        path.append(kk)
                        e, o = e[kk], o[kk]
                        break
                else:
                    break
            return "query %s: expected %s, got %s" % (
                "".join("[%r]" % (x,) for x in path), _short(e), _short(o))
    for k in observed:
        if k not in expected:
            return "query %r not produced by the reference model" % (k,)
    return None


def _short(v, n=400):
    if isinstance(v, Counter):
        v = dict(v)
    s = repr(v)
    return s if len(s) <= n else s[:n] + "..."


def dc(x):
    return copy.deepcopy(x)
