"""False-alarm test: apply a behaviour-preserving change (written by an independent author
who saw only the property texts) to a scratch worktree of /repo and run quick checks on it.
Any VIOLATION must be triaged: oracle over-reach (fix the check) or the change breaks a property.

usage: neutral.py <dir with out/<k>/patch.diff> [--props C01,C02,...] [--only k]
Writes /verif/neutral/<name>_<k>.json for each patch.
"""
import json, os, subprocess, sys, time

V = os.path.dirname(os.path.dirname(os.path.abspath(__file__)))


def sh(cmd, cwd=None, env=None):
    r = subprocess.run(cmd, cwd=cwd, env=env, capture_output=True, text=True)
    return r.returncode, r.stdout + r.stderr


def main():
    src = sys.argv[1].rstrip("/")
    name = os.path.basename(src)
    props = None
    only = None
    if "--props" in sys.argv:
        props = sys.argv[sys.argv.index("--props") + 1].split(",")
    if "--only" in sys.argv:
        only = sys.argv[sys.argv.index("--only") + 1]
    allp = [c["property_id"] for c in json.load(open(os.path.join(V, "MANIFEST.json")))["checks"]]
    os.makedirs(os.path.join(V, "neutral"), exist_ok=True)
    for k in sorted(os.listdir(os.path.join(src, "out"))):
        if only and k != only:
            continue
        patch = os.path.join(src, "out", k, "patch.diff")
        if not os.path.exists(patch):
            continue
        wt = "/var/tmp/neutralwt_%s_%s" % (name, k)
        sh(["git", "-C", "/repo", "worktree", "remove", "--force", wt])
        sh(["git", "-C", "/repo", "worktree", "add", "-q", "--detach", wt, "HEAD"])
        res = {"patch": "%s/out/%s" % (name, k), "results": {}}
        try:
            rc, out = sh(["git", "-C", wt, "apply", patch])
            res["applies"] = rc == 0
            if rc != 0:
                res["apply_error"] = out[-300:]
            else:
                res["files"] = subprocess.check_output(
                    ["git", "-C", wt, "diff", "--stat"]).decode().strip().splitlines()[:-1]
                for p in (props or allp):
                    env = dict(os.environ, HGXVERIF_REPO=wt, PYTHONHASHSEED="0", VERIF_SEED="1",
                       HGXVERIF_EVIDENCE_DIR="/var/tmp/hgxverif_scratch_evidence")
                    t0 = time.time()
                    rc, out = sh(["/venv/bin/python", "-m", "hgxverif.run", p, "--tier", "quick"],
                                 cwd=V, env=env)
                    first = [l.strip()[:400] for l in out.splitlines() if l.strip().startswith("clause")][:2]
                    res["results"][p] = {"exit": rc, "wall_s": round(time.time() - t0, 1), "first": first}
                    d = os.path.join(V, "replays", p)
                    for f in os.listdir(d) if os.path.isdir(d) else []:
                        if f.startswith("found-"):
                            os.remove(os.path.join(d, f))
        finally:
            sh(["git", "-C", "/repo", "worktree", "remove", "--force", wt])
        bad = {p: r for p, r in res["results"].items() if r["exit"] != 0}
        res["alarms"] = sorted(bad)
        json.dump(res, open(os.path.join(V, "neutral", "%s_%s.json" % (name, k)), "w"), indent=1)
        print(name, k, "applies" if res.get("applies") else "DOES NOT APPLY", "alarms:", sorted(bad), flush=True)
        for p, r in bad.items():
            for l in r["first"][:1]:
                print("    ", p, l[:300], flush=True)


if __name__ == "__main__":
    main()
