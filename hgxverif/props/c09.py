"""C09 -- matrix / tensor representations equal their definitions under the returned mapping.

Every clause builds a hypergraph through the public API from the abstract
content of the case (a label universe, node-index sets, weights), calls the
function of ``hypergraphx.linalg`` (and the method of the class that forwards to
it) and compares the dense matrix **entry by entry, exactly**, with the matrix
built by brute force from the abstract content, *through the mapping the call
returned* (never through an assumed sorted order).  The incidence, adjacency,
per-order incidence and temporal clauses change the object after the first round
of queries (node added / removed, hyperedge removed, set_weight on weighted
hypergraphs; temporal: a time emptied, a hyperedge at an existing and at a new
time) and ask again: a matrix or mapping memoised by the library must follow the
content.  The tensor clause may insert and remove a hyperedge of another size
before the call.
"""

import itertools
import random
from collections import Counter

import numpy as np
from hypothesis import strategies as st

from .. import strategies as S
from ..common import cedge, permuted
from ..engine import Clause, Violation, require
from ..common import with_history  # noqa: E402

ASSUMPTIONS = [
    "oracle = brute-force numpy arrays built from the abstract content of the case (node labels, "
    "node sets, weights); rows are placed through the mapping returned by the call under test",
    "column e of an incidence matrix / row e of the dual adjacency = position of the hyperedge in "
    "get_edges() (property record, state 'node mapping'); for the per-order incidence the columns "
    "are compared as a multiset of (node set, weight)",
    "per-order adjacency, degree matrix and Laplacians only on unweighted hypergraphs (statement); "
    "the per-order *incidence* is also compared on weighted ones (its docstring: entry = weight)",
    "the Laplacian functions return no mapping: their rows are read through the mapping returned by "
    "adjacency_matrix_by_order for the same order (keep_isolated_nodes=True, i.e. all nodes)",
    "degree_matrix called without a mapping returns no mapping either: only row-order independent "
    "facts are demanded (N x N, diagonal, multiset of diagonal entries = multiset of order-d degrees)",
    "keep_isolated_nodes=False: the mapping must cover the nodes of the order-d hyperedges and may "
    "contain other nodes of the hypergraph only with all-zero rows (the statement is silent)",
    "temporal: mapping[t] must cover the nodes of the hyperedges at t and may list other nodes of "
    "the temporal hypergraph with zero rows; keys = the times carrying at least one hyperedge",
    "weights are ints (1..9, 17, 300, 1000) or dyadic floats, so products with 0/1 entries are exact",
    "labels are ints, floats or strings: tuple labels are outside the generator (the LabelEncoder "
    "behind every mapping refuses them); hypergraphs have 1..8 nodes",
    "the in-check mutations (add_node / remove_node of a node without hyperedge, remove_edge, "
    "set_weight on a weighted hypergraph; add_edge / remove_edge on a temporal hypergraph) are "
    "trusted to change the content as documented (C01-C04); only the matrices asked for "
    "afterwards are asserted",
    "tensor: the uniform hypergraph may have held one hyperedge of another size that was removed "
    "again before the call (then it is uniform: precondition satisfied)",
    "not checked (outside the statement): weighted=True scaling of the Laplacian, "
    "compute_multiorder_laplacian, are_commuting, adjacency_factor, annealed and per-order temporal "
    "matrices, the `shape` arguments, return_mapping of incidence_matrices_all_orders, "
    "adjacency_tensor on non-uniform or empty input "
    "(precondition 'uniform'), hypergraphs without any node",
]

KINDS = ("ints", "strs", "range", "ints", "strs", "floats")
WEIGHTS = st.sampled_from([1, 2, 3, 5, 9, 300, 1000, 0.5, 2.25])

# --------------------------------------------------------------------------
# generators


@st.composite
def hypergraphs(draw, tier, weighted=None, min_edges=0):
    # N = 1 and N = 2 occur, but rarely (one case out of six may go below three nodes)
    U = draw(S.universes(draw(st.sampled_from([1, 2] + [3] * 10)), 8, kinds=KINDS))
    n = len(U["labels"])
    lo = max(min_edges, draw(st.sampled_from([0, 1, 2, 3, 4])))   # keeps the empty class small
    lo = min(lo, 2 ** n - 1)                                      # (N = 1, 2: 1 resp. 3 node sets)
    edges = draw(S.edge_sets(n, lo, 8 if tier == "quick" else 12, 1, 5))
    w = draw(st.booleans()) if weighted is None else weighted
    case = {"U": U, "edges": edges, "weighted": w,
            "node_seed": draw(st.integers(0, 999)), "nodes_first": draw(st.booleans()),
            # node / hyperedge metadata (no influence on any matrix) in one case out of three
            "meta": draw(st.sampled_from([False, False, True]))}
    if w:
        case["weights"] = draw(st.lists(WEIGHTS, min_size=len(edges), max_size=len(edges)))
    return case


class Abstract:
    """Abstract content of a case: labels and {frozenset(labels): weight}."""

    def __init__(self, case):
        self.labels = list(case["U"]["labels"])
        self.edges = {}
        ws = case.get("weights")
        for j, e in enumerate(case["edges"]):
            self.edges[frozenset(self.labels[i] for i in e)] = ws[j] if ws else 1
        self.weighted = case["weighted"]
        self.kind = case["U"]["kind"]

    def orders(self):
        return sorted({len(e) - 1 for e in self.edges})

    def of_order(self, d):
        return {e: w for e, w in self.edges.items() if len(e) - 1 == d}

    def covered(self, d=None):
        out = set()
        for e in (self.edges if d is None else self.of_order(d)):
            out |= e
        return out


def _quiet(fn):
    """One warm-up query; a refusal (no hyperedges, ...) must not end the warm-up."""
    try:
        return fn()
    except Violation:
        raise
    except Exception:  # noqa: results and refusals are discarded alike
        return None


def _warmup(h):
    """Ask every matrix family the clauses assert once, for every order 0..max_order+1;
    results are discarded."""
    from hypergraphx import linalg as LA
    _quiet(lambda: LA.binary_incidence_matrix(h, return_mapping=True))
    _quiet(lambda: h.binary_incidence_matrix(return_mapping=True))
    _quiet(lambda: LA.incidence_matrix(h, return_mapping=True))
    _quiet(lambda: h.incidence_matrix(return_mapping=True))
    _quiet(lambda: LA.adjacency_matrix(h, return_mapping=True))
    _quiet(lambda: h.adjacency_matrix(return_mapping=True))
    _quiet(lambda: LA.dual_random_walk_adjacency(h, return_mapping=True))
    _quiet(lambda: h.dual_random_walk_adjacency(return_mapping=True))
    top = _quiet(lambda: h.max_order())
    plain = not h.is_weighted()
    for d in range(0, (top if isinstance(top, int) and top > 0 else 0) + 2):
        for keep in (False, True):
            _quiet(lambda: LA.incidence_matrix_by_order(h, d, keep_isolated_nodes=keep,
                                                        return_mapping=True))
        if plain:   # the statement has these for unweighted hypergraphs only
            _quiet(lambda: LA.adjacency_matrix_by_order(h, d, return_mapping=True))
            _quiet(lambda: LA.degree_matrix(h, d))
            _quiet(lambda: LA.laplacian_matrix_by_order(h, d))
    for keep in (False, True):
        _quiet(lambda: LA.incidence_matrices_all_orders(h, keep_isolated_nodes=keep))
    if plain:
        _quiet(lambda: LA.laplacian_matrices_all_orders(h))


@with_history(warmup=_warmup)
def build(case):
    from hypergraphx import Hypergraph
    L = case["U"]["labels"]
    h = Hypergraph(weighted=case["weighted"])
    order = permuted(L, case["node_seed"])
    if case["nodes_first"]:
        h.add_nodes(order)
    edges = [tuple(L[i] for i in e) for e in case["edges"]]
    if edges:
        if case["weighted"]:
            h.add_edges(edges, weights=list(case["weights"]))
        else:
            h.add_edges(edges)
    if not case["nodes_first"]:
        h.add_nodes(order)
    if case.get("meta"):
        for i, n in enumerate(order):
            h.set_node_metadata(n, {"k": i, "role": "r%d" % (i % 2)})
        for j, e in enumerate(edges):
            h.set_edge_metadata(tuple(reversed(e)), {"x": j})
    return h


def classify(case, ab, ctx):
    ctx.label("labels:" + ab.kind, "weighted" if ab.weighted else "unweighted",
              "nodes:%s" % (len(ab.labels) if len(ab.labels) <= 2 else "3+"))
    if case.get("meta"):
        ctx.label("with_metadata")
    sizes = {len(e) for e in ab.edges}
    ctx.label("distinct_sizes:%d" % min(len(sizes), 3))
    if set(ab.labels) - ab.covered():
        ctx.label("has_isolated_node")
    if 1 in sizes:
        ctx.label("has_singleton")
    if not ab.edges:
        ctx.label("no_hyperedge")
    srt = sorted(ab.labels)
    differs = srt != list(range(len(srt)))
    ctx.nontrivial(differs and len(sizes) >= 2)


# --------------------------------------------------------------------------
# oracle helpers


def py(v):
    return v.item() if hasattr(v, "item") else v


def dense(M, what):
    if hasattr(M, "toarray"):
        M = M.toarray()
    M = np.asarray(M)
    require(M.dtype != object, "%s: matrix of dtype object" % what, key="dtype")
    return M


def read_mapping(mapping, what, must_cover, allowed, exact):
    """index -> label dict returned by the library  ==>  {label: index}; checks bijection."""
    require(isinstance(mapping, dict), lambda: "%s: mapping is %r, not a dict" % (what, type(mapping)),
            key="mapping")
    idx = sorted(int(k) for k in mapping.keys())
    require(idx == list(range(len(mapping))),
            lambda: "%s: mapping keys %r are not the row indices 0..%d" % (what, idx, len(mapping) - 1),
            key="mapping")
    row = {}
    for k, v in mapping.items():
        v = py(v)
        require(v in allowed, lambda: "%s: mapping sends row %r to %r, which is not a node (%r)"
                % (what, k, v, sorted(allowed)), key="mapping")
        require(v not in row, lambda: "%s: mapping sends two rows to node %r" % (what, v),
                key="mapping")
        row[v] = int(k)
    missing = set(must_cover) - set(row)
    require(not missing, lambda: "%s: mapping %r misses the nodes %r" % (what, mapping, sorted(missing)),
            key="mapping")
    if exact:
        extra = set(row) - set(must_cover)
        require(not extra, lambda: "%s: mapping lists %r beyond the expected nodes %r"
                % (what, sorted(extra), sorted(must_cover)), key="mapping")
    return row


def same(what, expected, observed, rownames=None, colnames=None, key="entry"):
    """Exact equality of two dense arrays, naming the first differing entry."""
    require(tuple(observed.shape) == tuple(expected.shape),
            lambda: "%s: shape expected %r, got %r" % (what, expected.shape, observed.shape),
            key="shape")
    if expected.size == 0:
        return
    neq = np.argwhere(~(expected == observed))
    if len(neq):
        pos = tuple(int(x) for x in neq[0])
        names = []
        for ax, p in enumerate(pos):
            nm = rownames if ax == 0 else (colnames if colnames is not None else rownames)
            names.append(nm[p] if nm is not None else p)
        raise Violation("%s: entry %r (index %r) expected %r, got %r  [%d entries differ]"
                        % (what, tuple(names), pos, expected[pos].item(), observed[pos].item(),
                           len(neq)), key=key)


def names_of(row):
    out = [None] * len(row)
    for lab, i in row.items():
        out[i] = lab
    return out


def lib_edges(h, ab, what="get_edges()"):
    es = [cedge(e) for e in h.get_edges()]
    exp = Counter(tuple(sorted(e)) for e in ab.edges)
    require(Counter(es) == exp, lambda: "%s lists %r, the hypergraph holds %r"
            % (what, es, sorted(exp)), key="get_edges")
    return [frozenset(e) for e in es]


def incidence_expected(row, edges, weight_of):
    vals = [weight_of(e) for e in edges]
    flt = any(isinstance(v, float) for v in vals)
    M = np.zeros((len(row), len(edges)), dtype=float if flt else np.int64)
    for j, e in enumerate(edges):
        for v in e:
            M[row[v], j] = vals[j]
    return M


def adjacency_expected(row, edges):
    A = np.zeros((len(row), len(row)), dtype=np.int64)
    for e in edges:
        for a in e:
            for b in e:
                if a != b:
                    A[row[a], row[b]] += 1
    return A


# --------------------------------------------------------------------------
# C09.incidence


def check_incidence(case, ctx):
    from hypergraphx import linalg as LA
    ab = Abstract(case)
    classify(case, ab, ctx)
    h = build(case)
    nodes = set(ab.labels)
    edges = lib_edges(h, ab)
    calls = [
        ("linalg.binary_incidence_matrix", lambda rm: LA.binary_incidence_matrix(h, return_mapping=rm), False),
        ("Hypergraph.binary_incidence_matrix", lambda rm: h.binary_incidence_matrix(return_mapping=rm), False),
        ("linalg.incidence_matrix", lambda rm: LA.incidence_matrix(h, return_mapping=rm), True),
        ("Hypergraph.incidence_matrix", lambda rm: h.incidence_matrix(return_mapping=rm), True),
    ]
    for name, call, weighted in calls:
        M, mapping = call(True)
        row = read_mapping(mapping, name, nodes, nodes, exact=True)
        exp = incidence_expected(row, edges, (lambda e: ab.edges[e]) if weighted else (lambda e: 1))
        same(name + " (rows by returned mapping, columns by get_edges())", exp, dense(M, name),
             names_of(row), [tuple(sorted(e)) for e in edges])
        M2 = call(False)
        require(not isinstance(M2, tuple), "%s(return_mapping=False) returned a tuple" % name,
                key="return_mapping")
        same(name + "(return_mapping=False) vs the matrix returned with the mapping",
             dense(M, name), dense(M2, name), names_of(row), [tuple(sorted(e)) for e in edges])
    # the same object again after it changed (a cached matrix or mapping must not survive)
    nodes2, edges2 = _mutate_after_query(h, ab, ctx)
    if nodes2:
        edges_l = [frozenset(e) for e in h.get_edges()]
        require(Counter(edges_l) == Counter(edges2.keys()),
                lambda: "get_edges() after the mutation lists %r, expected %r"
                % (edges_l, list(edges2)), key="edges-after-mutation")
        for name, call, weighted in calls:
            M, mapping = call(True)
            what = name + " [asked again after remove_node/add_node and remove_edge]"
            row = read_mapping(mapping, what, nodes2, nodes2, exact=True)
            exp = incidence_expected(row, edges_l,
                                     (lambda e: edges2[e]) if weighted else (lambda e: 1))
            same(what, exp, dense(M, name), names_of(row), [tuple(sorted(e, key=repr)) for e in edges_l])
        if ab.weighted and edges2:
            # ... and a third time after nothing but a set_weight
            e_w = _reweigh_after_query(h, edges2, ctx)
            edges_l = [frozenset(e) for e in h.get_edges()]
            require(Counter(edges_l) == Counter(edges2.keys()),
                    lambda: "get_edges() after set_weight lists %r, expected %r"
                    % (edges_l, list(edges2)), key="edges-after-mutation")
            for name, call, weighted in calls:
                M, mapping = call(True)
                what = name + " [asked again after set_weight(%r, %r)]" % (tuple(sorted(e_w, key=repr)),
                                                                        edges2[e_w])
                row = read_mapping(mapping, what, nodes2, nodes2, exact=True)
                exp = incidence_expected(row, edges_l,
                                         (lambda e: edges2[e]) if weighted else (lambda e: 1))
                same(what, exp, dense(M, name), names_of(row),
                     [tuple(sorted(e, key=repr)) for e in edges_l])


# --------------------------------------------------------------------------
# C09.adjacency


def _mutate_after_query(h, ab, ctx):
    """Change the object after matrices were asked for once (a stale cache must not survive):
    remove an isolated node if there is one, else add one; then remove one hyperedge.
    Returns (node set, {node set -> weight}) of the new content."""
    from ..common import fresh_label
    nodes = set(ab.labels)
    edges = dict(ab.edges)
    iso = sorted(nodes - ab.covered(), key=repr)
    if iso:
        h.remove_node(iso[0])
        nodes.discard(iso[0])
        ctx.label("requery:isolated_node_removed")
    else:
        z = fresh_label(nodes)
        if z is not None:
            h.add_node(z)
            nodes.add(z)
            ctx.label("requery:node_added")
    if edges:
        e = sorted(edges, key=lambda x: (len(x), sorted(x, key=repr)))[0]
        h.remove_edge(tuple(sorted(e, key=repr)))
        del edges[e]
        ctx.label("requery:hyperedge_removed")
    return nodes, edges


def _reweigh_after_query(h, edges, ctx):
    """Third phase on a weighted hypergraph: the matrices were just asked for; now ONE hyperedge
    gets another weight through set_weight (nothing is inserted or removed).  Updates ``edges``."""
    e = sorted(edges, key=lambda x: (len(x), sorted(x, key=repr)))[-1]
    w2 = 17 if edges[e] != 17 else 4
    h.set_weight(tuple(sorted(e, key=repr, reverse=True)), w2)
    edges[e] = w2
    ctx.label("requery:set_weight")
    return e


def check_adjacency(case, ctx):
    from hypergraphx import linalg as LA
    ab = Abstract(case)
    classify(case, ab, ctx)
    h = build(case)

    def verify(nodes, edges, phase):
        for name, call in (
            ("linalg.adjacency_matrix", lambda rm: LA.adjacency_matrix(h, return_mapping=rm)),
            ("Hypergraph.adjacency_matrix", lambda rm: h.adjacency_matrix(return_mapping=rm)),
        ):
            A, mapping = call(True)
            row = read_mapping(mapping, name + phase, nodes, nodes, exact=True)
            exp = adjacency_expected(row, edges)
            same(name + phase + " (number of common hyperedges, zero diagonal)", exp,
                 dense(A, name), names_of(row))
            A2 = call(False)
            same(name + phase + "(return_mapping=False) vs the matrix returned with the mapping",
                 dense(A, name), dense(A2, name), names_of(row))

    verify(set(ab.labels), ab.edges, "")
    # the same object again after it changed: the matrices must follow the content
    nodes2, edges2 = _mutate_after_query(h, ab, ctx)
    if nodes2:
        verify(nodes2, edges2, " [asked again after remove_node/add_node and remove_edge]")


# --------------------------------------------------------------------------
# C09.by_order


def orders_to_try(ab):
    top = max(ab.orders()) if ab.edges else 0
    return list(range(0, top + 2))


def _incidence_by_order(h, d, keep, sel, nodes, covered, phase=""):
    """incidence_matrix_by_order against the order-d hyperedges ``sel`` ({node set: weight}):
    columns compared as a multiset of (node set, weight).  Returns the dense matrix."""
    from hypergraphx import linalg as LA
    what = "incidence_matrix_by_order(order=%d, keep_isolated_nodes=%s)%s" % (d, keep, phase)
    M, mapping = LA.incidence_matrix_by_order(h, d, keep_isolated_nodes=keep,
                                              return_mapping=True)
    row = read_mapping(mapping, what, nodes if keep else covered, nodes, exact=keep)
    M = dense(M, what)
    require(M.shape == (len(row), len(sel)),
            lambda: "%s: shape expected %r, got %r" % (what, (len(row), len(sel)), M.shape),
            key="shape")
    names = names_of(row)
    cols = Counter()
    for j in range(M.shape[1]):
        nz = [i for i in range(M.shape[0]) if M[i, j] != 0]
        vals = {M[i, j].item() for i in nz}
        require(len(vals) == 1, lambda: "%s: column %d holds the values %r (one weight expected)"
                % (what, j, sorted(vals)), key="entry")
        cols[(tuple(sorted(names[i] for i in nz)), vals.pop())] += 1
    exp = Counter((tuple(sorted(e)), w) for e, w in sel.items())
    require(cols == exp, lambda: "%s: columns (node set, weight) expected %r, got %r"
            % (what, sorted(exp.items()), sorted(cols.items())), key="entry")
    M2 = LA.incidence_matrix_by_order(h, d, keep_isolated_nodes=keep)
    same(what + " without return_mapping vs with", M, dense(M2, what))
    return M


def check_by_order(case, ctx):
    from hypergraphx import linalg as LA
    ab = Abstract(case)
    classify(case, ab, ctx)
    h = build(case)
    nodes = set(ab.labels)
    got = {}
    for d in orders_to_try(ab):
        sel = ab.of_order(d)
        ctx.label("order_present" if sel else "order_absent")
        for keep in (False, True):
            got[(d, keep)] = _incidence_by_order(h, d, keep, sel, nodes, ab.covered(d))
        if not ab.weighted:
            what = "adjacency_matrix_by_order(order=%d)" % d
            A, mapping = LA.adjacency_matrix_by_order(h, d, return_mapping=True)
            row = read_mapping(mapping, what, nodes, nodes, exact=True)
            same(what + " (number of common hyperedges of that order, zero diagonal)",
                 adjacency_expected(row, sel), dense(A, what), names_of(row))
            A2 = LA.adjacency_matrix_by_order(h, d)
            same(what + " without return_mapping vs with", dense(A, what), dense(A2, what))
    if not ab.edges:
        ctx.exclude("incidence_matrices_all_orders on a hypergraph without hyperedges (max_order undefined)")
        return
    for keep in (False, True):
        what = "incidence_matrices_all_orders(keep_isolated_nodes=%s)" % keep
        allm = LA.incidence_matrices_all_orders(h, keep_isolated_nodes=keep)
        require(isinstance(allm, dict), "%s did not return a dict" % what, key="all_orders")
        present = {d for d in ab.orders() if d >= 1}
        require(present <= set(allm.keys()) and set(allm.keys()) <= set(range(0, max(ab.orders()) + 1)),
                lambda: "%s: keys %r, orders present %r" % (what, sorted(allm.keys()), sorted(present)),
                key="all_orders")
        for d, M in allm.items():
            # no mapping comes with these matrices: rows and columns are only known up to
            # order, so the comparison with incidence_matrix_by_order (already verified entry
            # by entry through its mapping) uses order-independent invariants
            A, B_ = got[(d, keep)], dense(M, what)
            w_ = "%s[%d] vs incidence_matrix_by_order(order=%d)" % (what, d, d)
            require(tuple(A.shape) == tuple(B_.shape),
                    lambda: "%s: shape %r vs %r" % (w_, B_.shape, A.shape), key="all_orders")
            for ax, nm in ((0, "column"), (1, "row")):
                sa, sb = sorted(A.sum(axis=ax).tolist()), sorted(B_.sum(axis=ax).tolist())
                require(sa == sb, lambda: "%s: %s sums %r vs %r" % (w_, nm, sb, sa),
                        key="all_orders")
            require(int((A != 0).sum()) == int((B_ != 0).sum()),
                    lambda: "%s: %d vs %d non-zero entries"
                    % (w_, int((B_ != 0).sum()), int((A != 0).sum())), key="all_orders")
    if ab.weighted:
        # the per-order incidence once more after nothing but a set_weight on one hyperedge
        edges2 = dict(ab.edges)
        e_w = _reweigh_after_query(h, edges2, ctx)
        d = len(e_w) - 1
        sel = {e: w for e, w in edges2.items() if len(e) - 1 == d}
        for keep in (False, True):
            _incidence_by_order(h, d, keep, sel, nodes, ab.covered(d),
                                phase=" [asked again after set_weight(%r, %r)]"
                                % (tuple(sorted(e_w, key=repr)), edges2[e_w]))


# --------------------------------------------------------------------------
# C09.laplacian


def check_laplacian(case, ctx):
    from hypergraphx import linalg as LA
    ab = Abstract(case)
    classify(case, ab, ctx)
    h = build(case)
    nodes = set(ab.labels)
    expected_L = {}
    rows = {}
    for d in orders_to_try(ab):
        sel = ab.of_order(d)
        ctx.label("order_present" if sel else "order_absent")
        _, mapping = LA.adjacency_matrix_by_order(h, d, return_mapping=True)
        row = read_mapping(mapping, "adjacency_matrix_by_order(order=%d)" % d, nodes, nodes, exact=True)
        names = names_of(row)
        deg = np.zeros((len(row), len(row)), dtype=np.int64)
        for e in sel:
            for v in e:
                deg[row[v], row[v]] += 1
        what = "degree_matrix(order=%d, mapping)" % d
        D = dense(LA.degree_matrix(h, d, mapping), what)
        same(what + " (diagonal = number of order-%d hyperedges of the row's node)" % d, deg, D,
             names, key="degree_matrix")
        L_exp = d * deg - adjacency_expected(row, sel)
        expected_L[d], rows[d] = L_exp, names
        what = "laplacian_matrix_by_order(order=%d)" % d
        L = dense(LA.laplacian_matrix_by_order(h, d), what)
        same(what + " = %d * D_%d - A_%d (rows by the mapping of adjacency_matrix_by_order)" % (d, d, d),
             L_exp, L, names, key="laplacian")
        require(np.array_equal(L, L.T) and not L.sum(axis=1).any(),
                lambda: "%s is not symmetric with zero row sums: %r" % (what, L.tolist()),
                key="laplacian")
    if not ab.edges:
        ctx.exclude("laplacian_matrices_all_orders on a hypergraph without hyperedges (max_order undefined)")
        return
    allL = LA.laplacian_matrices_all_orders(h)
    require(isinstance(allL, dict), "laplacian_matrices_all_orders did not return a dict", key="all_orders")
    present = {d for d in ab.orders() if d >= 1}
    require(present <= set(allL.keys()) and set(allL.keys()) <= set(range(0, max(ab.orders()) + 1)),
            lambda: "laplacian_matrices_all_orders: keys %r, orders present %r"
            % (sorted(allL.keys()), sorted(present)), key="all_orders")
    for d, L in allL.items():
        same("laplacian_matrices_all_orders[%d] = %d * D - A" % (d, d), expected_L[d],
             dense(L, "laplacian_matrices_all_orders"), rows[d], key="laplacian")


# --------------------------------------------------------------------------
# C09.degree_matrix


def check_degree_matrix(case, ctx):
    from hypergraphx import linalg as LA
    ab = Abstract(case)
    classify(case, ab, ctx)
    h = build(case)
    nodes = set(ab.labels)
    _, mapping = LA.binary_incidence_matrix(h, return_mapping=True)
    row = read_mapping(mapping, "binary_incidence_matrix", nodes, nodes, exact=True)
    names = names_of(row)
    for d in orders_to_try(ab):
        sel = ab.of_order(d)
        ctx.label("order_present" if sel else "order_absent")
        deg = np.zeros((len(row), len(row)), dtype=np.int64)
        for e in sel:
            for v in e:
                deg[row[v], row[v]] += 1
        what = "degree_matrix(order=%d, mapping of binary_incidence_matrix)" % d
        same(what, deg, dense(LA.degree_matrix(h, d, mapping), what), names, key="degree_matrix")
        what = "degree_matrix(order=%d) without mapping" % d
        D0 = dense(LA.degree_matrix(h, d), what)
        require(D0.shape == deg.shape, lambda: "%s: shape expected %r, got %r"
                % (what, deg.shape, D0.shape), key="degree_default")
        off = D0 - np.diag(np.diag(D0))
        require(not off.any(), lambda: "%s is not diagonal: %r" % (what, D0.tolist()),
                key="degree_default")
        require(sorted(np.diag(D0).tolist()) == sorted(np.diag(deg).tolist()),
                lambda: "%s: diagonal %r, order-%d degrees of the nodes are %r"
                % (what, np.diag(D0).tolist(), d, dict(zip(names, np.diag(deg).tolist()))),
                key="degree_default")


# --------------------------------------------------------------------------
# C09.dual


def check_dual(case, ctx):
    from hypergraphx import linalg as LA
    ab = Abstract(case)
    classify(case, ab, ctx)
    h = build(case)
    nodes = set(ab.labels)
    edges = lib_edges(h, ab)
    E = len(edges)
    exp = np.zeros((E, E), dtype=np.int64)
    for a in range(E):
        for b in range(E):
            if edges[a] & edges[b]:
                exp[a, b] = 1
    if any(not (edges[a] & edges[b]) for a in range(E) for b in range(E)):
        ctx.label("has_disjoint_pair")
    if any(len(edges[a] & edges[b]) >= 2 for a in range(E) for b in range(a)):
        ctx.label("has_overlap>=2")
    enames = [tuple(sorted(e)) for e in edges]
    for name, call in (
        ("linalg.dual_random_walk_adjacency", lambda rm: LA.dual_random_walk_adjacency(h, return_mapping=rm)),
        ("Hypergraph.dual_random_walk_adjacency", lambda rm: h.dual_random_walk_adjacency(return_mapping=rm)),
    ):
        M, mapping = call(True)
        read_mapping(mapping, name, nodes, nodes, exact=True)
        same(name + " ((e,f)=1 iff e and f share a node; e,f = positions in get_edges())",
             exp, dense(M, name), enames)
        same(name + "(return_mapping=False) vs with", dense(M, name), dense(call(False), name), enames)


# --------------------------------------------------------------------------
# C09.tensor


@st.composite
def uniform_cases(draw, tier):
    n = draw(st.integers(2, 7))
    k = draw(st.integers(1, min(5, n)))
    edges = draw(st.lists(S.subsets(n, k, k), min_size=1, max_size=6,
                          unique_by=lambda e: tuple(sorted(e))))
    # a hyperedge of ANOTHER size that is inserted and removed again before the call (n >= 2, so
    # another size always exists); in one case out of four there is none
    kk = draw(st.sampled_from([x for x in range(1, min(5, n) + 1) if x != k]))
    visitor = draw(st.sampled_from([0, 1, 2, 2])) and {
        "edge": draw(S.subsets(n, kk, kk)), "first": draw(st.booleans())}
    return {"n": n, "k": k, "edges": edges, "node_seed": draw(st.integers(0, 999)),
            "nodes_first": draw(st.booleans()), "weighted": draw(st.booleans()),
            "weights": draw(st.lists(st.integers(2, 9), min_size=len(edges), max_size=len(edges))),
            "visitor": visitor or None}


def _warmup_tensor(h):
    from hypergraphx import linalg as LA
    _quiet(lambda: h.is_uniform())
    _quiet(lambda: h.max_size())
    _quiet(lambda: h.max_order())
    _quiet(lambda: h.get_sizes())
    _quiet(lambda: LA.adjacency_tensor(h))      # refuses while the object is not uniform


@with_history(warmup=_warmup_tensor)
def build_uniform(case):
    from hypergraphx import Hypergraph
    n = case["n"]
    h = Hypergraph(weighted=case["weighted"])
    order = permuted(range(n), case["node_seed"])
    if case["nodes_first"]:
        h.add_nodes(order)
    es = [tuple(e) for e in case["edges"]]
    v = case.get("visitor")
    wkw = {"weight": 3} if case["weighted"] else {}
    if v and v["first"]:
        h.add_edge(tuple(v["edge"]), **wkw)
    if case["weighted"]:
        h.add_edges(es, weights=list(case["weights"]))
    else:
        h.add_edges(es)
    if v and not v["first"]:
        h.add_edge(tuple(v["edge"]), **wkw)
    if v:
        _warmup_tensor(h)       # asked while the object holds two sizes; results discarded
        h.remove_edge(tuple(reversed(v["edge"])))
    if not case["nodes_first"]:
        h.add_nodes(order)
    return h


def check_tensor(case, ctx):
    from hypergraphx import linalg as LA
    n, k = case["n"], case["k"]
    h = build_uniform(case)
    es = [tuple(e) for e in case["edges"]]
    eset = {frozenset(e) for e in es}
    if case.get("visitor"):
        ctx.label("other_size_inserted_and_removed:%s"
                  % ("larger" if len(case["visitor"]["edge"]) > k else "smaller"))
    covered = set().union(*eset)
    ctx.label("size:%d" % k, "weighted" if case["weighted"] else "unweighted")
    if len(covered) < n:
        ctx.label("has_isolated_node")
    ctx.nontrivial(k >= 2 and len(eset) >= 2)
    T = np.asarray(LA.adjacency_tensor(h))
    require(T.shape == (n,) * k, lambda: "adjacency_tensor: shape expected %r, got %r"
            % ((n,) * k, T.shape), key="shape")
    for idx in itertools.product(range(n), repeat=k):
        exp = 1 if (len(set(idx)) == k and frozenset(idx) in eset) else 0
        require(T[idx] == exp, lambda: "adjacency_tensor%r expected %d, got %r (hyperedges %r)"
                % (idx, exp, T[idx].item(), sorted(map(sorted, eset))), key="entry")


# --------------------------------------------------------------------------
# C09.temporal

TIMES = [0, 1, 2, 3, 5, 8, 13]
NEW_TIMES = [4, 6, 21]


@st.composite
def temporal_cases(draw, tier):
    U = draw(S.universes(3, 7, kinds=KINDS))
    n = len(U["labels"])
    recs = draw(st.lists(st.tuples(st.sampled_from(TIMES), S.subsets(n, 1, 4)).map(list),
                         min_size=draw(st.sampled_from([0, 1, 2, 3, 4])),
                         max_size=8 if tier == "quick" else 12,
                         unique_by=lambda r: (r[0], tuple(sorted(r[1])))))
    w = draw(st.booleans())
    case = {"U": U, "records": recs, "weighted": w, "batch": draw(st.booleans()),
            "node_seed": draw(st.integers(0, 999)), "nodes_first": draw(st.booleans()),
            # asked again after: a hyperedge at a time that is not in TIMES, a hyperedge at a time
            # that exists, the removal of every hyperedge of one time
            "mutate": {"new_time": draw(st.sampled_from(NEW_TIMES)),
                       "e_new": draw(S.subsets(n, 1, 4)), "e_old": draw(S.subsets(n, 1, 4)),
                       "pick": draw(st.integers(0, 30))}}
    if w:
        case["weights"] = draw(st.lists(st.integers(1, 9), min_size=len(recs), max_size=len(recs)))
    return case


def _warmup_temporal(th):
    from hypergraphx import linalg as LA
    _quiet(lambda: LA.temporal_adjacency_matrix(th, return_mapping=True))
    _quiet(lambda: th.temporal_adjacency_matrix(return_mapping=True))
    _quiet(lambda: th.temporal_adjacency_matrix())
    _quiet(lambda: th.subhypergraph())


@with_history(warmup=_warmup_temporal)
def build_temporal(case):
    from hypergraphx import TemporalHypergraph
    L = case["U"]["labels"]
    th = TemporalHypergraph(weighted=case["weighted"])
    order = permuted(L, case["node_seed"])
    if case["nodes_first"]:
        th.add_nodes(order)
    es = [tuple(L[i] for i in r[1]) for r in case["records"]]
    ts = [r[0] for r in case["records"]]
    ws = case.get("weights")
    repeated = len({frozenset(e) for e in es}) < len(es)
    if es:
        # a weighted add_edges batch listing one node set at two times is rejected by the class;
        # whether it may be is outside C09 (and excluded in C03): insert one by one instead
        if case["batch"] and not (ws and repeated):
            if ws:
                th.add_edges(es, ts, weights=list(ws))
            else:
                th.add_edges(es, ts)
        else:
            for j, e in enumerate(es):
                if ws:
                    th.add_edge(e, ts[j], weight=ws[j])
                else:
                    th.add_edge(e, ts[j])
    if not case["nodes_first"]:
        th.add_nodes(order)
    return th


def check_temporal_matrices(th, by_time, nodes, ctx=None, phase=""):
    from hypergraphx import linalg as LA
    for name, call in (
        ("linalg.temporal_adjacency_matrix", lambda rm: LA.temporal_adjacency_matrix(th, return_mapping=rm)),
        ("TemporalHypergraph.temporal_adjacency_matrix",
         lambda rm: th.temporal_adjacency_matrix(return_mapping=rm)),
    ):
        name = name + phase
        res = call(True)
        require(isinstance(res, tuple) and len(res) == 2,
                "%s(return_mapping=True) did not return (matrices, mappings)" % name, key="return_mapping")
        mats, maps = res
        require(set(mats.keys()) == set(by_time) and set(maps.keys()) == set(by_time),
                lambda: "%s: times %r / mapping times %r, the hyperedges live at %r"
                % (name, sorted(mats.keys()), sorted(maps.keys()), sorted(by_time)), key="times")
        plain = call(False)
        require(isinstance(plain, dict) and set(plain.keys()) == set(by_time),
                "%s(return_mapping=False): wrong key set" % name, key="times")
        for t, es in by_time.items():
            what = "%s[t=%d]" % (name, t)
            covered = set().union(*es)
            row = read_mapping(maps[t], what, covered, nodes, exact=False)
            same(what + " (adjacency of the hyperedges of time %d)" % t,
                 adjacency_expected(row, es), dense(mats[t], what), names_of(row))
            same(what + " without return_mapping vs with", dense(mats[t], what), dense(plain[t], what))


def check_temporal(case, ctx):
    L = case["U"]["labels"]
    nodes = set(L)
    by_time = {}
    for t, e in case["records"]:
        by_time.setdefault(t, []).append(frozenset(L[i] for i in e))
    ctx.label("labels:" + case["U"]["kind"], "weighted" if case["weighted"] else "unweighted",
              "times:%d" % min(len(by_time), 4))
    sets_at = Counter(e for es in by_time.values() for e in es)
    repeated = any(c >= 2 for c in sets_at.values())
    if repeated:
        ctx.label("same_node_set_at_two_times")
    sizes = {len(e) for es in by_time.values() for e in es}
    srt = sorted(L)
    ctx.nontrivial(len(by_time) >= 2 and len(sizes) >= 2 and srt != list(range(len(srt))))
    th = build_temporal(case)
    check_temporal_matrices(th, by_time, nodes)
    m = case.get("mutate")
    if not m:
        return
    # the same object again after it changed (keys = the times carrying >= 1 hyperedge)
    by2 = {t: list(es) for t, es in by_time.items()}
    wkw = {"weight": 3} if case["weighted"] else {}
    steps = []
    if by2:
        # every hyperedge of one time goes: the time with the fewest hyperedges (ties: drawn)
        fewest = min(len(es) for es in by2.values())
        cands = sorted(t for t, es in by2.items() if len(es) == fewest)
        t_gone = cands[m["pick"] % len(cands)]
        for e in by2.pop(t_gone):
            th.remove_edge(tuple(sorted(e, key=repr, reverse=True)), t_gone)
        steps.append("time_emptied")
    if by2:
        t_old = sorted(by2)[m["pick"] % len(by2)]
        e = frozenset(L[i] for i in m["e_old"])
        if e not in by2[t_old]:
            th.add_edge(tuple(L[i] for i in m["e_old"]), t_old, **wkw)
            by2[t_old].append(e)
            steps.append("hyperedge_added_at_existing_time")
    th.add_edge(tuple(L[i] for i in m["e_new"]), m["new_time"], **wkw)
    by2[m["new_time"]] = [frozenset(L[i] for i in m["e_new"])]
    steps.append("hyperedge_added_at_new_time")
    ctx.label(*["requery:" + s for s in steps])
    check_temporal_matrices(th, by2, nodes, phase=" [asked again after %s]" % ", ".join(steps))


# --------------------------------------------------------------------------
# C09.heavy_pair  (uint8 incidence: a pair shared by >= 260 hyperedges)


@st.composite
def heavy_cases(draw, tier):
    variant = draw(st.sampled_from(["mixed", "uniform5", "temporal"]))
    hi = 286 if variant == "uniform5" else (300 if tier == "quick" else 378)
    return {"variant": variant, "kind": draw(st.sampled_from(["ints", "strs"])),
            "n_edges": draw(st.integers(260, hi)), "extra": draw(st.integers(0, 5)),
            "seed": draw(st.integers(0, 10**6))}


def heavy_content(case):
    rnd = random.Random(case["seed"])
    if case["kind"] == "ints":
        labels = [3 * k - 7 for k in range(15)]
    else:
        labels = ["n%d" % k for k in range(15)]     # 'n10' < 'n2'
    rnd.shuffle(labels)
    pair, others = labels[:2], labels[2:]
    pool = []
    sizes = (3,) if case["variant"] == "uniform5" else (0, 1, 2, 3)
    for r in sizes:
        pool.extend(itertools.combinations(others, r))
    chosen = rnd.sample(pool, case["n_edges"])
    edges = [frozenset(pair) | frozenset(c) for c in chosen]
    extra = set()
    for _ in range(case["extra"]):
        e = frozenset(rnd.sample(others, rnd.randint(1, 4)))
        extra.add(e)
    edges = edges + sorted(extra - set(edges), key=sorted)
    listed = [tuple(rnd.sample(sorted(e), len(e))) for e in edges]
    rnd.shuffle(listed)
    return labels, pair, listed


def check_heavy_pair(case, ctx):
    from hypergraphx import Hypergraph, TemporalHypergraph
    from hypergraphx import linalg as LA
    labels, pair, listed = heavy_content(case)
    nodes = set(labels)
    eds = [frozenset(e) for e in listed]
    ctx.label("variant:" + case["variant"], "labels:" + case["kind"])
    ctx.nontrivial(True)
    ctx.trace = {"pair": pair, "hyperedges_sharing_the_pair": case["n_edges"]}
    if case["variant"] == "temporal":
        th = TemporalHypergraph()
        half = [e for j, e in enumerate(listed) if j % 7 == 0]
        th.add_edges(listed, [3] * len(listed))
        th.add_edges(half, [5] * len(half))
        by_time = {3: eds, 5: [frozenset(e) for e in half]}
        check_temporal_matrices(th, by_time, nodes)
        return
    h = Hypergraph(listed)
    h.add_nodes(labels)
    what = "adjacency_matrix (pair %r shared by %d hyperedges)" % (tuple(pair), case["n_edges"])
    A, mapping = LA.adjacency_matrix(h, return_mapping=True)
    row = read_mapping(mapping, what, nodes, nodes, exact=True)
    same(what, adjacency_expected(row, eds), dense(A, what), names_of(row), key="heavy")
    # dual adjacency: every two of the heavy hyperedges share the pair
    lib = [frozenset(cedge(e)) for e in h.get_edges()]
    require(Counter(lib) == Counter(eds), "get_edges() does not list the inserted hyperedges", key="get_edges")
    E = len(lib)
    expd = np.zeros((E, E), dtype=np.int64)
    for a in range(E):
        for b in range(E):
            if lib[a] & lib[b]:
                expd[a, b] = 1
    Dm = dense(LA.dual_random_walk_adjacency(h), "dual_random_walk_adjacency")
    same("dual_random_walk_adjacency (heavy pair)", expd, Dm, key="heavy")
    # weighted incidence keeps weights above 255 / degrees above 255
    B, m2 = LA.binary_incidence_matrix(h, return_mapping=True)
    row2 = read_mapping(m2, "binary_incidence_matrix", nodes, nodes, exact=True)
    same("binary_incidence_matrix (heavy pair)", incidence_expected(row2, lib, lambda e: 1),
         dense(B, "binary_incidence_matrix"), names_of(row2), key="heavy")
    # per-order matrices: degree of the pair's nodes and their adjacency exceed 255 for one order
    for d in sorted({len(e) - 1 for e in eds}):
        sel = [e for e in eds if len(e) - 1 == d]
        what = "adjacency_matrix_by_order(order=%d) (heavy pair)" % d
        Ad, md = LA.adjacency_matrix_by_order(h, d, return_mapping=True)
        rowd = read_mapping(md, what, nodes, nodes, exact=True)
        Aexp = adjacency_expected(rowd, sel)
        same(what, Aexp, dense(Ad, what), names_of(rowd), key="heavy")
        deg = np.zeros_like(Aexp)
        for e in sel:
            for v in e:
                deg[rowd[v], rowd[v]] += 1
        what = "laplacian_matrix_by_order(order=%d) (heavy pair)" % d
        same(what, d * deg - Aexp, dense(LA.laplacian_matrix_by_order(h, d), what), names_of(rowd),
             key="heavy")


# --------------------------------------------------------------------------

_RULE = ("sorted labels differ from 0..N-1 (non-contiguous ints or strings) and the hyperedges have "
         "at least two distinct sizes; distinct by canonical JSON of the case")

CLAUSES = [
    Clause("C09.incidence", lambda tier: hypergraphs(tier), check_incidence,
           quick=400, thorough=1500, shards_quick=2, rule=_RULE),
    Clause("C09.adjacency", lambda tier: hypergraphs(tier), check_adjacency,
           quick=400, thorough=1500, shards_quick=2, rule=_RULE),
    Clause("C09.by_order", lambda tier: hypergraphs(tier), check_by_order,
           quick=250, thorough=800, shards_quick=2, rule=_RULE),
    Clause("C09.laplacian", lambda tier: hypergraphs(tier, weighted=False), check_laplacian,
           quick=250, thorough=800, shards_quick=2, rule=_RULE),
    Clause("C09.degree_matrix", lambda tier: hypergraphs(tier, weighted=False), check_degree_matrix,
           quick=200, thorough=600, shards_quick=1, rule=_RULE),
    Clause("C09.dual", lambda tier: hypergraphs(tier), check_dual,
           quick=400, thorough=1500, shards_quick=1, rule=_RULE),
    Clause("C09.tensor", uniform_cases, check_tensor, quick=400, thorough=1500, shards_quick=1,
           rule="uniform hypergraph on 0..N-1 with hyperedge size >= 2 and at least two hyperedges"),
    Clause("C09.temporal", temporal_cases, check_temporal, quick=300, thorough=1200, shards_quick=2,
           rule="at least two times carry hyperedges, at least two distinct sizes, sorted labels "
                "differ from 0..N-1"),
    Clause("C09.heavy_pair", heavy_cases, check_heavy_pair, quick=6, thorough=8, shards_quick=1,
           rule="every case: one pair of nodes is shared by 260..378 hyperedges (above the uint8 "
                "range), labels are non-contiguous ints or strings"),
]
