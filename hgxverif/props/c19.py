"""C19 -- filter_hypergraph keeps exactly what the criteria say; get_svh p-values and
validated set follow their definitions.

filter_*  : a container (Hypergraph / TemporalHypergraph / MultiplexHypergraph, and a
            DirectedHypergraph with keep_edges=False) is built through the public API from
            the abstract content of the case (nodes with metadata, records = node set
            [+ time | layer | source/target split] with weight and metadata), taken through
            content-preserving history detours (common.with_history), given incidence
            metadata on a few (record, node) pairs, the filter is applied and the complete
            public listing of the result (nodes with metadata, records with weight and
            metadata, incident records per node, incidence metadata of untouched survivors)
            is compared with what the criteria say, computed on the abstract content.
            Arguments whose drawn value is the documented default are left out of half of
            the calls.
svh_*     : get_svh on a Hypergraph with positive integer weights (or unweighted);
            p-values against exact rational binomial sums, validated set against the
            step-up threshold recomputed from the reported p-values.  svh_mp: a handful of
            mp=True calls (one process pool each) on planted single-size-class inputs.

Float tolerances: p-values rtol 1e-9 (scipy's binom.sf is a regularised incomplete beta
function of three exactly representable integers/one float product; exact value from
fractions); everything else exact.  Threshold comparisons that sit within 1e-9 relative
of a decision boundary are excluded and counted.
"""

import math
import multiprocessing
import random
from collections import Counter
from fractions import Fraction

from hypothesis import strategies as st

from ..common import cedge, dc
from ..common import nodes_with_metadata
from ..engine import Clause, Violation, require
from ..strategies import universes
from ..common import with_history  # noqa: E402

ASSUMPTIONS = [
    "an item matches a criteria dict iff every criterion attribute is present in its metadata "
    "with a value equal (==) to one in the allowed list; metadata values and allowed values are "
    "strings, small ints (both 1 and '1') and lists of strings (None is never an allowed value: "
    "whether a missing attribute matches an allowed None is unspecified); an empty criteria dict "
    "matches everything, an empty allowed list nothing",
    "the allowed values come as list / tuple / set / frozenset; set and frozenset only when no "
    "allowed value and no metadata value looked up under a criterion attribute is a list "
    "(unhashable: TypeError of Python's set, generated around)",
    "keep_edges=True: a hyperedge keeps the nodes that are not removed; hyperedges that become "
    "equal (same node set, same time / layer) merge; the statement is silent on the merged "
    "record: its weight may be the sum of any non-empty selection of the source weights (all of "
    "them: documented add_edge accumulation; one: a source wins) and it carries "
    "the metadata of one of its sources (unspecified which: every source is accepted, and when "
    "the sources disagree about a hyperedge criterion both outcomes are accepted); a hyperedge "
    "whose nodes are all removed disappears for the temporal and multiplex classes (explicit in "
    "their remove_node), for Hypergraph an empty hyperedge () may or may not stay (unspecified, "
    "as in C01) and is ignored",
    "an invalid mode must raise ValueError (documented); the state of the container after the "
    "rejected call is not documented and not examined",
    "DirectedHypergraph is generated with keep_edges=False only (disjoint non-empty source and "
    "target; shrinking a directed hyperedge is outside the statement)",
    "arguments equal to the documented default (node_criteria/edge_criteria=None, mode='keep', "
    "keep_edges=False; get_svh max_order=10, alpha=0.01) are left out of about half of the calls",
    "incidence metadata (Hypergraph, TemporalHypergraph, DirectedHypergraph; the multiplex class "
    "has no setter) is set after construction with the sorted node tuple and read back with the "
    "same arguments; it must be unchanged for surviving records that contain no removed node and "
    "did not absorb a shrunk record; nothing is demanded for shrunk, merged or removed records",
    "the builders go through common.with_history (content-preserving detours); the content "
    "listed before the filter must equal the abstract content of the case",
    "get_svh: positive integer weights (or unweighted), alpha = 0.01 passed or omitted (the "
    "statement does not mention alpha; other values are not passed), mp always named (docstring "
    "and signature disagree about its default); mp=False in the main clauses, mp=True in the "
    "small svh_mp clause (and a few thorough-tier cases); labels of one universe are mutually "
    "comparable",
    "multiple-testing threshold of a size class n = max{ i*alpha/C(n_a, n) : p_(i) < i*alpha/"
    "C(n_a, n) } over the sorted reported p-values (0 if empty), n_a = number of distinct nodes "
    "in the size-n hyperedges, alpha = 0.01; validated = p < threshold; decisions within 1e-9 "
    "relative of a boundary are excluded and counted",
    "p-value tolerance rtol 1e-9 against exact rational binomial survival sums",
]

# "geo.country": a flat attribute whose NAME contains a dot (it is a key, not a path)
ATTRS = ["color", "k", "role", "tags", "geo.country"]
# "1"/"2" next to 1/2: an allowed value matches by equality, not by its printed form
# falsy values (0, False, "", 0.0) are values like any other: an item holding one of them
# under an attribute matches a criterion that allows it
SCALARS = ["red", "blue", 1, 2, "1", "2", 0, "", False]
# list-valued metadata is matched by a list-valued allowed entry ({"tags": [["a", "b"]]})
LISTS = [["a", "b"], ["b", "a"], ["a"]]
VALUES = SCALARS + LISTS
# what the metadata of an item may hold under an attribute / what a criterion may allow for it
META_POOL = {"color": ["red", "blue", "red", 1, "1"], "k": [1, 2, 1, "red", "1", "2"],
             "role": VALUES, "tags": LISTS + LISTS + ["a"], "geo.country": ["IT", "FR", "IT", 1]}
ALLOWED_POOL = {"color": SCALARS, "k": SCALARS, "role": VALUES, "tags": LISTS + ["a", "red"],
                "geo.country": ["IT", "FR", 1, "red"]}
LAYERS = ["L1", "L2", "social"]
# words that no tolerant reading (case, blanks) turns into keep/remove
BAD_MODES = ["drop", "retain", "", None, "delete"]


# --------------------------------------------------------------------------
# generators

@st.composite
def meta_st(draw):
    """Metadata of one item: usually has 'color', often 'k', sometimes 'role'; values from a
    pool of four, so that criteria hit and miss and attributes are missing from some items."""
    m = {}
    if draw(st.integers(0, 5)) != 0:
        m["color"] = draw(st.sampled_from(META_POOL["color"]))
    if draw(st.integers(0, 2)) != 0:
        m["k"] = draw(st.sampled_from(META_POOL["k"]))
    if draw(st.integers(0, 3)) == 0:
        m["role"] = draw(st.sampled_from(META_POOL["role"]))
    if draw(st.integers(0, 3)) == 0:
        m["tags"] = draw(st.sampled_from(META_POOL["tags"]))
    if draw(st.integers(0, 3)) == 0:
        m["geo.country"] = draw(st.sampled_from(META_POOL["geo.country"]))
    return m


@st.composite
def crit_st(draw):
    kind = draw(st.integers(0, 9))
    if kind == 0:
        return {}  # matches everything
    attrs = [draw(st.sampled_from(["color", "color", "k", "k", "role", "tags"]))]
    if kind >= 7:
        attrs.append(draw(st.sampled_from(ATTRS)))
    out = {}
    for a in attrs:
        out[a] = draw(st.lists(st.sampled_from(ALLOWED_POOL[a]), min_size=0 if kind == 1 else 1,
                               max_size=3, unique_by=repr))
    return out


maybe_meta = st.integers(0, 5).flatmap(lambda i: st.none() if i == 0 else meta_st())


@st.composite
def filter_cases(draw, tier, flavour):
    big = tier != "quick"
    U = draw(universes(min_size=3, max_size=8, kinds=("ints", "strs")))
    labels = U["labels"]
    n = len(labels)
    # a node either gets a metadata dict or is created implicitly by its first hyperedge
    nodes_meta = [draw(maybe_meta) for _ in labels]
    weighted = draw(st.sampled_from([False, True]))
    n_rec = draw(st.integers(0, 10 if big else 8))
    recs, seen = [], set()
    for _ in range(n_rec):
        size = draw(st.sampled_from([1, 2, 2, 3, 3, 4] if flavour != "directed" else [2, 2, 3, 3, 4]))
        src = None
        if recs and draw(st.integers(0, 3)) == 0:
            # a sub- or superset of an earlier record: shrinking one makes them merge
            src = recs[draw(st.integers(0, len(recs) - 1))]
            base = list(src["ns"])
            other = draw(st.integers(0, n - 1))
            ns = [i for i in base if i != other] if other in base else base + [other]
            if not ns:
                ns = base
        else:
            ns = draw(st.lists(st.integers(0, n - 1), min_size=min(size, n),
                               max_size=min(size, n), unique=True))
        r = {"ns": ns, "w": draw(st.integers(1, 9)) if weighted else 1,
             "meta": draw(maybe_meta)}
        key = frozenset(ns)
        if flavour == "temporal":
            r["t"] = src["t"] if src is not None else draw(st.integers(0, 2))
            key = (key, r["t"])
        elif flavour == "multiplex":
            r["layer"] = src["layer"] if src is not None else draw(st.sampled_from(LAYERS))
            key = (key, r["layer"])
        elif flavour == "directed":
            if len(ns) < 2:
                continue
            # source = the first `cut` nodes, target = the others (disjoint, both non-empty)
            r["cut"] = draw(st.integers(1, len(ns) - 1))
            key = (frozenset(ns[:r["cut"]]), frozenset(ns[r["cut"]:]))
        if key in seen:
            continue
        seen.add(key)
        recs.append(r)
    which = draw(st.sampled_from(["nodes", "nodes", "edges", "both", "both", "none"]))
    node_criteria = draw(crit_st()) if which in ("nodes", "both") else None
    edge_criteria = draw(crit_st()) if which in ("edges", "both") else None
    mode = draw(st.sampled_from(["keep"] * 6 + ["remove"] * 6 + ["bad"]))
    if mode == "bad":
        mode = {"bad": draw(st.integers(0, len(BAD_MODES) - 1))}
    # the allowed values of a criterion may come in any container; a set / frozenset only when
    # neither an allowed value nor a metadata value looked up in it is a list (unhashable:
    # building the set, or `value in set`, is a TypeError of Python, not of the filter)
    container = draw(st.sampled_from(["list", "list", "tuple", "set", "frozenset"]))
    sequence = draw(st.sampled_from(["list", "tuple"]))

    def unhashable(crit, metas):
        if crit is None:
            return False
        return (any(isinstance(v, list) for vals in crit.values() for v in vals)
                or any(isinstance(m.get(a), list) for m in metas if m is not None for a in crit))

    if (unhashable(node_criteria, nodes_meta)
            or unhashable(edge_criteria, [r["meta"] for r in recs])):
        container = sequence
    # incidence metadata on a few (record, member node) pairs
    inc = []
    if recs and draw(st.integers(0, 2)) != 0:
        for _ in range(draw(st.integers(1, 4))):
            j = draw(st.integers(0, len(recs) - 1))
            inc.append([j, draw(st.integers(0, len(recs[j]["ns"]) - 1)),
                        {"role": draw(st.sampled_from(["in", "out", 3]))}])
    return {"kind": U["kind"], "labels": labels, "nodes_meta": nodes_meta, "weighted": weighted,
            "recs": recs, "node_criteria": node_criteria, "edge_criteria": edge_criteria,
            "mode": mode,
            "keep_edges": draw(st.sampled_from([False, True])) if flavour != "directed" else False,
            "container": container, "inc": inc,
            # arguments whose drawn value is the documented default are left out of the call
            "omit_defaults": draw(st.booleans())}


# --------------------------------------------------------------------------
# containers: build through the public API, observe through the public API


class Flavour:
    name = "?"

    supports_incidence_metadata = True

    def extra(self, rec, labels):
        """the part of the record key besides the node set"""
        return None

    def edge_args(self, nodes, extra):
        """positional arguments that name the record in set_/get_incidence_metadata"""
        return (tuple(nodes),)

    def build(self, case):
        raise NotImplementedError

    def key_of_listed(self, k):
        """(frozenset nodes, extra) of a key of get_edges(metadata=True)"""
        raise NotImplementedError

    def weight(self, h, nodes, extra):
        raise NotImplementedError

    def incident(self, h, node):
        raise NotImplementedError


def _add_nodes(h, case):
    for lab, meta in zip(case["labels"], case["nodes_meta"]):
        if meta is not None:
            h.add_node(lab, metadata=dc(meta))
    # nodes without a metadata dict are added last (or implicitly by their hyperedges)
    for lab, meta in zip(case["labels"], case["nodes_meta"]):
        if meta is None:
            h.add_node(lab)


def _kw(case, r):
    kw = {}
    if case["weighted"]:
        kw["weight"] = r["w"]
    if r["meta"] is not None:
        kw["metadata"] = dc(r["meta"])
    return kw


class PlainFlavour(Flavour):
    name = "Hypergraph"

    @with_history
    def build(self, case):
        from hypergraphx import Hypergraph
        h = Hypergraph(weighted=case["weighted"])
        _add_nodes(h, case)
        for r in case["recs"]:
            h.add_edge(tuple(case["labels"][i] for i in r["ns"]), **_kw(case, r))
        return h

    def key_of_listed(self, k):
        return (frozenset(cedge(k)), None)

    def weight(self, h, nodes, extra):
        return h.get_weight(tuple(nodes))

    def incident(self, h, node):
        return [self.key_of_listed(e) for e in h.get_incident_edges(node)]


class TemporalFlavour(Flavour):
    name = "TemporalHypergraph"

    def extra(self, rec, labels):
        return rec["t"]

    def edge_args(self, nodes, extra):
        return (tuple(nodes), extra)

    @with_history
    def build(self, case):
        from hypergraphx import TemporalHypergraph
        h = TemporalHypergraph(weighted=case["weighted"])
        _add_nodes(h, case)
        for r in case["recs"]:
            h.add_edge(tuple(case["labels"][i] for i in r["ns"]), r["t"], **_kw(case, r))
        return h

    def key_of_listed(self, k):
        t, nodes = k
        return (frozenset(cedge(nodes)), t)

    def weight(self, h, nodes, extra):
        return h.get_weight(tuple(nodes), extra)

    def incident(self, h, node):
        return [self.key_of_listed(e) for e in h.get_incident_edges(node)]


class MultiplexFlavour(Flavour):
    name = "MultiplexHypergraph"

    supports_incidence_metadata = False   # MultiplexHypergraph has no set_incidence_metadata

    def extra(self, rec, labels):
        return rec["layer"]

    @with_history
    def build(self, case):
        from hypergraphx import MultiplexHypergraph
        h = MultiplexHypergraph(weighted=case["weighted"])
        _add_nodes(h, case)
        for r in case["recs"]:
            h.add_edge(tuple(case["labels"][i] for i in r["ns"]), r["layer"], **_kw(case, r))
        return h

    def key_of_listed(self, k):
        nodes, layer = k
        return (frozenset(cedge(nodes)), layer)

    def weight(self, h, nodes, extra):
        return h.get_weight(tuple(nodes), extra)

    def incident(self, h, node):
        return [self.key_of_listed(e) for e in h.get_incident_edges(node)]


class DirectedFlavour(Flavour):
    """keep_edges=False only (the directed remove_node has no shrinking to speak of)."""
    name = "DirectedHypergraph"

    def extra(self, rec, labels):
        c = rec["cut"]
        return (frozenset(labels[i] for i in rec["ns"][:c]),
                frozenset(labels[i] for i in rec["ns"][c:]))

    @staticmethod
    def _edge(extra):
        return (tuple(sorted(extra[0])), tuple(sorted(extra[1])))

    def edge_args(self, nodes, extra):
        return (self._edge(extra),)

    @with_history
    def build(self, case):
        from hypergraphx import DirectedHypergraph
        h = DirectedHypergraph(weighted=case["weighted"])
        _add_nodes(h, case)
        L = case["labels"]
        for r in case["recs"]:
            c = r["cut"]
            h.add_edge((tuple(L[i] for i in r["ns"][:c]), tuple(L[i] for i in r["ns"][c:])),
                       **_kw(case, r))
        return h

    def key_of_listed(self, k):
        src, tgt = k
        src, tgt = cedge(src), cedge(tgt)
        if set(src) & set(tgt):
            raise Violation("directed hyperedge %r has a node on both sides" % (k,), key="listing")
        return (frozenset(src) | frozenset(tgt), (frozenset(src), frozenset(tgt)))

    def weight(self, h, nodes, extra):
        return h.get_weight(self._edge(extra))

    def incident(self, h, node):
        return [self.key_of_listed(e) for e in h.get_incident_edges(node)]


def observe(fl, h):
    """{'nodes': {label: metadata}, 'recs': {(nodes, extra): (weight, metadata)},
    'incident': {label: Counter(keys)}} through public calls only."""
    nodes = {n: dc(m) for n, m in nodes_with_metadata(h).items()}
    plain = list(h.get_nodes())
    if Counter(plain) != Counter(nodes.keys()):
        raise Violation("get_nodes() lists %r but get_nodes(metadata=True) has keys %r"
                        % (sorted(plain, key=repr), sorted(nodes, key=repr)), key="listing")
    recs = {}
    listed = h.get_edges(metadata=True)
    for k, meta in listed.items():
        key = fl.key_of_listed(k)
        if key in recs:
            raise Violation("get_edges(metadata=True) lists %r twice" % (k,), key="listing")
        recs[key] = [None, dc(meta)]
    plain_e = Counter(fl.key_of_listed(k) for k in h.get_edges())
    if plain_e != Counter(recs.keys()):
        raise Violation("get_edges() and get_edges(metadata=True) list different hyperedges: "
                        "%r vs %r" % (sorted(plain_e, key=repr), sorted(recs, key=repr)),
                        key="listing")
    for (ns, extra) in recs:
        if ns:
            recs[(ns, extra)][0] = fl.weight(h, sorted(ns), extra)
    inc = {n: Counter(fl.incident(h, n)) for n in nodes}
    return {"nodes": nodes, "recs": {k: tuple(v) for k, v in recs.items()}, "incident": inc,
            "weighted": h.is_weighted()}


# --------------------------------------------------------------------------
# the oracle


def matches(meta, crit):
    return all(a in meta and meta[a] in vals for a, vals in crit.items())


def expected_after(case, fl):
    """Expected content after the filter, from the abstract content of the case.

    Returns (nodes, definite, optional, info): ``definite`` maps record key ->
    ({admissible weights}, [admissible metadata]) for records that must be present, ``optional`` the same for
    records that may or may not be present (merged sources disagree about the hyperedge
    criterion)."""
    labels = case["labels"]
    mode = case["mode"]
    keep = mode == "keep"
    # abstract content
    nodes = {}
    for lab, meta in zip(labels, case["nodes_meta"]):
        nodes[lab] = {} if meta is None else dict(meta)
    recs = []
    for r in case["recs"]:
        recs.append((frozenset(labels[i] for i in r["ns"]), fl.extra(r, labels),
                     r["w"] if case["weighted"] else 1, {} if r["meta"] is None else dict(r["meta"])))
    info = {"removed_nodes": 0, "merged": False, "emptied": False, "edge_dropped_by_node": 0,
            "edge_dropped_by_criteria": 0, "ambiguous": 0, "shrunk": 0}
    removed = set()
    if case["node_criteria"] is not None:
        for n, meta in nodes.items():
            m = matches(meta, case["node_criteria"])
            if (keep and not m) or (not keep and m):
                removed.add(n)
    info["removed_nodes"] = len(removed)
    info["removed"] = removed
    groups = {}  # key -> [weight, [metas]]
    for ns, extra, w, meta in recs:
        if ns & removed:
            if not case["keep_edges"]:
                info["edge_dropped_by_node"] += 1
                continue
            ns2 = ns - removed
            info["shrunk"] += 1
            if not ns2:
                info["emptied"] = True
                continue
        else:
            ns2 = ns
        key = (ns2, extra)
        if key in groups:
            info["merged"] = True
            # the statement says nothing about the weight of a record that two shrunk records
            # merge into: the sum of any of the source weights is accepted (all of them = the
            # documented add_edge accumulation; a single one = one source wins)
            groups[key][0] = ({a + w for a in groups[key][0]} | groups[key][0] | {w}
                              if case["weighted"] else {1})
            groups[key][1].append(meta)
        else:
            groups[key] = [{w}, [meta]]
    definite, optional = {}, {}
    info["merged_keys"] = {key for key, (_, metas) in groups.items() if len(metas) > 1}
    for key, (w, metas) in groups.items():
        if case["edge_criteria"] is None:
            definite[key] = (w, metas)
            continue
        outcomes = []
        for meta in metas:
            m = matches(meta, case["edge_criteria"])
            outcomes.append(m if keep else not m)  # True = survives
        surv = [meta for meta, o in zip(metas, outcomes) if o]
        if all(outcomes):
            definite[key] = (w, metas)
        elif not any(outcomes):
            info["edge_dropped_by_criteria"] += 1
        else:
            info["ambiguous"] += 1
            optional[key] = (w, surv)
    exp_nodes = {n: m for n, m in nodes.items() if n not in removed}
    return exp_nodes, definite, optional, info


def _fmt_key(key):
    ns, extra = key
    t = tuple(sorted(ns))
    if isinstance(extra, tuple):
        return "%r->%r" % (tuple(sorted(extra[0])), tuple(sorted(extra[1])))
    return repr(t) if extra is None else "%r@%r" % (t, extra)


def _inc_targets(fl, case):
    """[(record key, positional edge arguments, node label, metadata)] of the case's incidence
    metadata (a (record, node) pair drawn twice keeps its last value)."""
    L = case["labels"]
    out = {}
    for j, pos, meta in case.get("inc") or []:
        r = case["recs"][j]
        ns = frozenset(L[i] for i in r["ns"])
        extra = fl.extra(r, L)
        node = L[r["ns"][pos]]
        out[(ns, extra, node)] = ((ns, extra), fl.edge_args(sorted(ns), extra), node, meta)
    return list(out.values())


def check_filter(fl, case, ctx):
    from hypergraphx.filters import filter_hypergraph
    h = fl.build(case)
    inc = _inc_targets(fl, case) if fl.supports_incidence_metadata else []
    for _, eargs, node, meta in inc:
        h.set_incidence_metadata(*eargs, node, dc(meta))
    before = observe(fl, h)
    mode = case["mode"]

    def _contain(crit):
        if crit is None:
            return None
        make = {"list": list, "tuple": tuple, "set": set, "frozenset": frozenset}[
            case.get("container", "list")]
        # (the generator never asks for a set of unhashable values)
        return {attr: make(dc(allowed)) for attr, allowed in crit.items()}

    kwargs = {"node_criteria": _contain(case["node_criteria"]),
              "edge_criteria": _contain(case["edge_criteria"]),
              "keep_edges": case["keep_edges"]}
    if isinstance(mode, str):
        kwargs["mode"] = mode
    if case.get("omit_defaults"):
        # documented defaults: node_criteria=None, edge_criteria=None, mode="keep",
        # keep_edges=False
        for name, default in (("node_criteria", None), ("edge_criteria", None),
                              ("mode", "keep"), ("keep_edges", False)):
            if name in kwargs and type(kwargs[name]) is type(default) and kwargs[name] == default:
                del kwargs[name]
                ctx.label("default_omitted:" + name)
    ctx.label("allowed_values_as:" + case.get("container", "list"))
    ctx.label("mode=%s" % (mode if isinstance(mode, str) else "invalid"),
              "keep_edges=%s" % case["keep_edges"],
              "criteria:" + ("both" if case["node_criteria"] is not None
                             and case["edge_criteria"] is not None else
                             "nodes" if case["node_criteria"] is not None else
                             "edges" if case["edge_criteria"] is not None else "none"),
              "weighted" if case["weighted"] else "unweighted", "labels:" + case["kind"])
    if not isinstance(mode, str):
        bad = BAD_MODES[mode["bad"]]
        try:
            filter_hypergraph(h, mode=bad, **kwargs)
        except ValueError:
            pass
        else:
            raise Violation("filter_hypergraph(mode=%r) did not raise ValueError" % (bad,),
                            key="bad-mode")
        # (what the container looks like after the rejected call is not documented)
        ctx.nontrivial(bool(case["recs"]))
        return
    exp_nodes, definite, optional, info = expected_after(case, fl)
    # sanity of the construction: what we are about to filter is the abstract content
    built_nodes = {lab: ({} if m is None else m) for lab, m in zip(case["labels"], case["nodes_meta"])}
    require(before["nodes"] == built_nodes,
            lambda: "%s built from the case lists nodes %r, expected %r"
            % (fl.name, before["nodes"], built_nodes), key="construction")
    call = "filter_hypergraph(<%s>%s)" % (
        fl.name, "".join(", %s=%r" % (k, case[k]) for k in
                         ("node_criteria", "edge_criteria", "mode", "keep_edges") if k in kwargs))
    abstract = {}
    for r in case["recs"]:
        abstract[(frozenset(case["labels"][i] for i in r["ns"]), fl.extra(r, case["labels"]))] = (
            r["w"] if case["weighted"] else 1, {} if r["meta"] is None else r["meta"])
    require(before["recs"] == abstract,
            lambda: "%s built from the case lists hyperedges %r, expected %r"
            % (fl.name, before["recs"], abstract), key="construction")
    filter_hypergraph(h, **kwargs)
    after = observe(fl, h)
    # ---- nodes
    require(after["nodes"] == exp_nodes,
            lambda: "%s: nodes with metadata afterwards %r, expected %r (node metadata before: %r)"
            % (call, after["nodes"], exp_nodes, before["nodes"]), key="nodes")
    # ---- hyperedges
    got = dict(after["recs"])
    if fl.name == "Hypergraph" and info["emptied"]:
        # an emptied hyperedge may survive as () in the plain class (unspecified, see C01)
        got.pop((frozenset(), None), None)
        ctx.exclude("presence of an empty hyperedge () after a keep_edges=True shrink (Hypergraph)")
    missing = [k for k in definite if k not in got]
    extra = [k for k in got if k not in definite and k not in optional]
    require(not missing and not extra,
            lambda: "%s: hyperedges afterwards %s; expected %s%s; missing %s, unexpected %s "
                    "(hyperedges before: %s)"
            % (call, sorted(map(_fmt_key, got)), sorted(map(_fmt_key, definite)),
               (" and optionally " + str(sorted(map(_fmt_key, optional)))) if optional else "",
               sorted(map(_fmt_key, missing)), sorted(map(_fmt_key, extra)),
               sorted(map(_fmt_key, before["recs"]))), key="edges")
    for key, (w_obs, meta_obs) in got.items():
        w_exp, metas = definite[key] if key in definite else optional[key]
        require(w_obs in w_exp,
                lambda: "%s: weight of %s afterwards %r, expected %s"
                % (call, _fmt_key(key), w_obs,
                   repr(min(w_exp)) if len(w_exp) == 1 else "one of %r" % (sorted(w_exp),)),
                key="weight")
        require(any(meta_obs == m for m in metas),
                lambda: "%s: metadata of %s afterwards %r, expected %s"
                % (call, _fmt_key(key), meta_obs,
                   repr(metas[0]) if len(metas) == 1 else "one of %r" % (metas,)), key="edge-meta")
    # ---- incidence of the survivors
    for n in exp_nodes:
        want = Counter(k for k in got if n in k[0])
        require(after["incident"][n] == want,
                lambda: "%s: get_incident_edges(%r) afterwards %s, expected %s"
                % (call, n, sorted(map(_fmt_key, after["incident"][n].elements())),
                   sorted(map(_fmt_key, want.elements()))), key="incidence")
    require(after["weighted"] == case["weighted"], "is_weighted() changed", key="weighted")
    # ---- incidence metadata of the survivors that lost no node (shrunk / merged / removed
    # records: nothing promised)
    n_inc = 0
    for key, eargs, node, meta in inc:
        if key not in got or key[0] & info["removed"] or key in info["merged_keys"]:
            continue
        n_inc += 1
        try:
            obs = h.get_incidence_metadata(*eargs, node)
        except KeyError:
            raise Violation("%s: get_incidence_metadata(%s, %r) of a surviving hyperedge that lost "
                            "no node raises KeyError afterwards, was set to %r"
                            % (call, ", ".join(map(repr, eargs)), node, meta), key="incidence-meta")
        require(obs == meta,
                lambda: "%s: get_incidence_metadata(%s, %r) of a surviving hyperedge that lost no "
                        "node is %r afterwards, was set to %r"
                % (call, ", ".join(map(repr, eargs)), node, obs, meta), key="incidence-meta")
    if n_inc:
        ctx.label("incidence_metadata_on_untouched_survivor")
    # ---- classification
    for crit, metas in ((case["node_criteria"], case["nodes_meta"]),
                        (case["edge_criteria"], [r["meta"] for r in case["recs"]])):
        for a, vals in (crit or {}).items():
            for m in metas:
                if m is None or a not in m:
                    continue
                if m[a] not in vals and str(m[a]) in {str(v) for v in vals}:
                    ctx.label("lookalike_value_not_allowed (1 vs '1')")
                if isinstance(m[a], list) and m[a] in vals:
                    ctx.label("list_valued_metadata_matches")
                if isinstance(m[a], list) and m[a] not in vals and any(
                        isinstance(v, list) and sorted(v) == sorted(m[a]) for v in vals):
                    ctx.label("list_valued_metadata_other_order")
    n_nodes, n_recs = len(before["nodes"]), len(before["recs"])
    some_nodes = 0 < info["removed_nodes"] < n_nodes
    dropped = info["edge_dropped_by_node"] + info["edge_dropped_by_criteria"]
    some_edges = 0 < dropped < n_recs
    if some_nodes:
        ctx.label("some_nodes_removed")
    if info["edge_dropped_by_criteria"]:
        ctx.label("hyperedge_removed_by_criteria")
    if info["edge_dropped_by_node"]:
        ctx.label("hyperedge_removed_with_node")
    if info["shrunk"]:
        ctx.label("hyperedge_shrunk")
    if info["merged"]:
        ctx.label("merge")
    if info["emptied"]:
        ctx.label("emptied")
    if info["ambiguous"]:
        ctx.label("ambiguous_merge_outcome")
    if any(m is None for m in case["nodes_meta"]) or any(r["meta"] is None for r in case["recs"]):
        ctx.label("item_without_metadata")
    ctx.nontrivial(some_nodes or some_edges)


PLAIN, TEMPORAL, MULTIPLEX = PlainFlavour(), TemporalFlavour(), MultiplexFlavour()
DIRECTED = DirectedFlavour()


# --------------------------------------------------------------------------
# get_svh


@st.composite
def svh_cases(draw, tier):
    big = tier != "quick"
    if draw(st.integers(0, 11)) == 0:
        # sparse class of large hyperedges: m disjoint hyperedges of size s, so that the
        # binomial parameter prod K_i/N = m^-s is tiny (1e-12 .. 1e-17) and the p-value of a
        # weight-1 hyperedge is about N*q -- a formula that cancels (1-(1-q)^N) fails here
        s_ = draw(st.sampled_from([8, 10]))
        m = draw(st.sampled_from([30, 40, 50]))
        labels = list(range(s_ * m))
        edges = [{"ns": list(range(g * s_, (g + 1) * s_)), "w": 1} for g in range(m)]
        heavy = draw(st.integers(0, 2))
        for g in range(heavy):
            edges[g]["w"] = draw(st.sampled_from([2, 3]))
        return {"kind": "range", "labels": labels, "weighted": True, "edges": edges,
                "max_order": s_, "mp": False, "planted": False, "sparse_large": True,
                "omit_alpha": draw(st.booleans()), "omit_defaults": draw(st.booleans())}
    if draw(st.integers(0, 11)) == 0:
        # dense class of large heavy hyperedges: three overlapping groups of size s whose
        # nodes occur tens to hundreds of times, so that the product of the occurrence counts
        # prod K_i exceeds 2**63 (an integer product must not wrap around) while K_i/N stays
        # an ordinary number; two light peripheral hyperedges of the same size
        s_ = draw(st.sampled_from([8, 10, 10]))
        half = s_ // 2
        lo = 240 if s_ == 8 else 60
        ws = [draw(st.integers(lo, lo + 80)) for _ in range(3)]
        groups = [list(range(g * half, g * half + s_)) for g in range(3)]
        top = 4 * half
        edges = [{"ns": g, "w": w} for g, w in zip(groups, ws)]
        edges.append({"ns": list(range(top, top + s_)), "w": draw(st.integers(1, 3))})
        edges.append({"ns": list(range(top + s_, top + 2 * s_)), "w": draw(st.integers(1, 3))})
        return {"kind": "range", "labels": list(range(top + 2 * s_)), "weighted": True,
                "edges": edges, "max_order": s_ + draw(st.integers(0, 1)), "mp": False,
                "planted": False, "dense_large": True,
                "omit_alpha": draw(st.booleans()), "omit_defaults": draw(st.booleans())}
    U = draw(universes(min_size=4, max_size=8, kinds=("ints", "strs", "range")))
    labels = U["labels"]
    n = len(labels)
    weighted = draw(st.sampled_from([True, True, True, False]))
    edges, seen = [], set()

    def add(ns, w):
        if frozenset(ns) not in seen and ns:
            seen.add(frozenset(ns))
            edges.append({"ns": ns, "w": w if weighted else 1})

    planted = weighted and draw(st.sampled_from([True, False]))
    if planted:
        # heavy hyperedges on disjoint node groups (small p-values) plus light ones of the
        # same size (large p-values): both validated and non-validated members in one class
        # (weights 3..30: p-values from 1e-2 down to 1e-12, on both sides of the threshold);
        # the last nodes of the permutation carry a hyperedge of another size, so that the
        # number of nodes of the size class differs from the number of active nodes
        s_ = draw(st.sampled_from([2, 2, 3]))
        perm = draw(st.permutations(list(range(n))))
        spare = draw(st.sampled_from([0, 2, 3])) if n - 3 >= 2 * s_ else 0
        for g in range((n - spare) // s_):
            if draw(st.integers(0, 5)) != 0:
                add(list(perm[g * s_:(g + 1) * s_]),
                    draw(st.sampled_from([3, 5, 8, 13, 20, 30])))
        if spare:
            other = list(perm[n - spare:]) + ([perm[0]] if spare == s_ else [])
            add(other, draw(st.sampled_from([1, 2, 5])))
        main_sizes = [s_]
    else:
        main_sizes = draw(st.lists(st.sampled_from([2, 2, 3, 3, 4]), min_size=1, max_size=2))
    n_edges = draw(st.integers(1, 12 if big else 9))
    for _ in range(n_edges):
        size = draw(st.sampled_from(main_sizes * 3 + [1, 2, 3, 4, 5]))
        size = min(size, n)
        ns = draw(st.lists(st.integers(0, n - 1), min_size=size, max_size=size, unique=True))
        add(ns, draw(st.sampled_from([1, 1, 1, 2, 2, 3, 5, 8, 13, 20, 30]
                                     if not planted else [1, 1, 2, 3])))
    # a handful per shard (Hypothesis over-samples the ends of an integer range, not its middle)
    mp = big and draw(st.integers(0, 399)) == 200
    return {"kind": U["kind"], "labels": labels, "weighted": weighted, "edges": edges,
            "max_order": draw(st.sampled_from([2, 3, 3, 4, 4, 5, 6, 10, 10])), "mp": mp,
            "planted": planted,
            "omit_alpha": draw(st.booleans()), "omit_defaults": draw(st.booleans())}


@with_history
def build_svh(case):
    from hypergraphx import Hypergraph
    h = Hypergraph(weighted=case["weighted"])
    h.add_nodes(list(case["labels"]))
    for e in case["edges"]:
        nodes = tuple(case["labels"][i] for i in e["ns"])
        if case["weighted"]:
            h.add_edge(nodes, weight=e["w"])
        else:
            h.add_edge(nodes)
    return h


DEFAULT_MAX_ORDER = 10   # get_svh(hypergraph, max_order=10, alpha=0.01, mp=False)


def svh_kwargs(case):
    """Keyword arguments of the call: alpha is 0.01 or left out (the default; the statement is
    silent on other values), max_order is left out when the drawn bound is the default."""
    kw = {}
    if not (case.get("omit_defaults") and case["max_order"] == DEFAULT_MAX_ORDER):
        kw["max_order"] = case["max_order"]
    if not case.get("omit_alpha"):
        kw["alpha"] = 0.01
    return kw


def run_svh(case):
    from hypergraphx.filters import get_svh
    h = build_svh(case)
    random.seed(0)
    kw = svh_kwargs(case)
    if not case["mp"]:
        # mp is always named: the docstring says "default: True", the signature False
        return get_svh(h, mp=False, **kw)
    # get_svh(mp=True) creates a process pool; the engine's workers are daemonic and may
    # not have children, so the flag is lifted for the duration of the call
    proc = multiprocessing.current_process()
    was = proc._config.get("daemon")
    proc._config["daemon"] = False
    try:
        return get_svh(h, mp=True, **kw)
    finally:
        proc._config["daemon"] = was


def binom_sf_exact(w, N, a, b):
    """P[Bin(N, a/b) >= w] as a Fraction (a, b integers, 0 <= a <= b)."""
    if w <= 0:
        return Fraction(1)
    if w > N:
        return Fraction(0)
    c = b - a
    # sum the shorter tail
    if w <= N - w + 1:
        num = sum(math.comb(N, j) * a**j * c**(N - j) for j in range(0, w))
        return 1 - Fraction(num, b**N)
    num = sum(math.comb(N, j) * a**j * c**(N - j) for j in range(w, N + 1))
    return Fraction(num, b**N)


def svh_reference(case):
    """size -> {frozenset(nodes): (weight, exact p-value)}, N and n_a per size."""
    labels = case["labels"]
    by_size = {}
    for e in case["edges"]:
        ns = frozenset(labels[i] for i in e["ns"])
        by_size.setdefault(len(ns), {})[ns] = e["w"] if case["weighted"] else 1
    out = {}
    for n, es in by_size.items():
        if not (2 <= n <= case["max_order"]):
            continue
        N = sum(es.values())
        K = Counter()
        for ns, w in es.items():
            for x in ns:
                K[x] += w
        table = {}
        for ns, w in es.items():
            a = 1
            for x in ns:
                a *= K[x]
            table[ns] = (w, binom_sf_exact(w, N, a, N**n))
        out[n] = {"table": table, "N": N, "n_a": len(K)}
    return out


def read_tables(svh, ref, case):
    """Structural checks shared by both svh clauses; returns size -> {nodes: (pvalue, fdr)}."""
    require(isinstance(svh, dict), lambda: "get_svh returns %r, expected a dict" % type(svh),
            key="svh-type")
    keys = sorted(int(k) for k in svh.keys())
    require(keys == sorted(ref),
            lambda: "get_svh(max_order=%d%s) has tables for sizes %r, expected %r (sizes present "
                    "in the input within [2, max_order])"
            % (case["max_order"], "" if "max_order" in svh_kwargs(case) else
               ", the documented default, not passed", keys, sorted(ref)),
            key="svh-sizes")
    out = {}
    for k, df in svh.items():
        n = int(k)
        require(all(c in df.columns for c in ("edge", "pvalue", "fdr")),
                lambda: "table of size %d has columns %r, expected edge/pvalue/fdr"
                % (n, list(df.columns)), key="svh-columns")
        rows = {}
        listed = Counter()
        for e, p, f in zip(df["edge"].tolist(), df["pvalue"].tolist(), df["fdr"].tolist()):
            fs = frozenset(cedge(e))
            listed[fs] += 1
            rows[fs] = (float(p), bool(f))
        want = Counter(ref[n]["table"].keys())
        require(listed == want,
                lambda: "table of size %d lists hyperedges %r, expected each size-%d hyperedge "
                        "of the input exactly once: %r"
                % (n, sorted((tuple(sorted(k_)), v) for k_, v in listed.items()), n,
                   sorted(tuple(sorted(k_)) for k_ in want)), key="svh-edges")
        out[n] = rows
    return out


def classify_svh(case, ref, ctx):
    ctx.label("labels:" + case["kind"], "weighted" if case["weighted"] else "unweighted",
              "max_order=%d" % case["max_order"], "mp=%s" % case["mp"],
              "planted" if case.get("planted") else "free")
    kw = svh_kwargs(case)
    if "alpha" not in kw:
        ctx.label("default_omitted:alpha")
    if "max_order" not in kw:
        ctx.label("default_omitted:max_order")
    sizes = {len(e["ns"]) for e in case["edges"]}
    if case.get("dense_large"):
        ctx.label("dense_large (product of occurrence counts above 2**63)")
    if case.get("sparse_large"):
        ctx.label("sparse_large")
    if 1 in sizes:
        ctx.label("has_singleton")
    if any(s > case["max_order"] for s in sizes):
        ctx.label("has_size_above_max_order")
    if not ref:
        ctx.label("no_size_in_range")


def check_svh_pvalues(case, ctx):
    ref = svh_reference(case)
    classify_svh(case, ref, ctx)
    tables = read_tables(run_svh(case), ref, case)
    _check_pvalues(tables, ref, ctx)
    ctx.nontrivial(any(len(r) >= 2 for r in tables.values()))


def _check_pvalues(tables, ref, ctx):
    small = False
    for n, rows in tables.items():
        for fs, (p, _) in rows.items():
            w, exact = ref[n]["table"][fs]
            pe = float(exact)
            # relative 1e-9; below 1e-300 (next to and inside the subnormal range, where a
            # double has no relative precision left: 2.08125e-319 and 2.0812e-319 are
            # neighbours) only the magnitude is compared
            require(math.isfinite(p) and abs(p - pe) <= max(1e-9 * pe, 1e-300),
                    lambda: "size %d hyperedge %r (weight %d, N=%d): pvalue %r, expected "
                            "P[Bin(N, prod K_i/N) >= weight] = %r (relative difference %.3g > 1e-9)"
                    % (n, tuple(sorted(fs)), w, ref[n]["N"], p, pe,
                       abs(p - pe) / pe if pe else float("inf")), key="pvalue")
            if pe < 1e-3:
                small = True
    if small:
        ctx.label("pvalue_below_1e-3")


def stepup_threshold(ps, n_a, n):
    """(threshold as Fraction, ambiguous?) from the reported p-values of one size class."""
    bonf = Fraction(1, 100) / math.comb(n_a, n)
    srt = sorted(ps)
    theta = Fraction(0)
    ambiguous = False
    for i, p in enumerate(srt, start=1):
        k = i * bonf
        fp = Fraction(p)
        if abs(fp - k) <= Fraction(1, 10**9) * k:
            ambiguous = True
        if fp < k:
            theta = k
    return theta, ambiguous


def check_svh_validated(case, ctx):
    ref = svh_reference(case)
    classify_svh(case, ref, ctx)
    tables = read_tables(run_svh(case), ref, case)
    ctx.nontrivial(_check_validated(tables, ref, ctx))


def _check_validated(tables, ref, ctx):
    mixed = False
    for n, rows in tables.items():
        ps = [p for p, _ in rows.values()]
        require(all(math.isfinite(p) and 0 <= p <= 1 for p in ps),
                lambda: "size %d: p-values outside [0, 1]: %r" % (n, ps), key="pvalue-range")
        theta, amb = stepup_threshold(ps, ref[n]["n_a"], n)
        if amb or any(theta and abs(Fraction(p) - theta) <= Fraction(1, 10**9) * theta for p in ps):
            ctx.exclude("a p-value within 1e-9 relative of a step-up boundary")
            continue
        for fs, (p, f) in rows.items():
            want = Fraction(p) < theta
            require(f == want,
                    lambda: "size %d (n_a=%d nodes, %d hyperedges): hyperedge %r with pvalue %r has "
                            "fdr=%r, but the step-up threshold from the reported p-values %r is %r "
                            "(alpha/C(n_a,n) = %r), so it must be %r"
                    % (n, ref[n]["n_a"], len(rows), tuple(sorted(fs)), p, f, sorted(ps),
                       float(theta), float(Fraction(1, 100) / math.comb(ref[n]["n_a"], n)), want),
                    key="fdr")
        val = [p for p, f in rows.values() if f]
        non = [p for p, f in rows.values() if not f]
        require(not val or not non or max(val) < min(non),
                lambda: "size %d: a validated hyperedge has p-value %r while a non-validated one "
                        "has %r" % (n, max(val), min(non)), key="fdr-closed")
        if val:
            ctx.label("some_validated")
        if val and non and len(rows) >= 3:
            mixed = True
    if mixed:
        ctx.label("validated_and_not_in_one_class")
    return mixed


@st.composite
def svh_mp_cases(draw, tier):
    """mp=True: one size class only (get_svh forks one process pool per size class), heavy
    hyperedges with pairwise different weights on disjoint node groups plus light ones, so that
    the p-values differ from row to row (results handed back in another order, or computed from
    another row's parameters, show)."""
    if draw(st.integers(0, 3)) == 0:
        # a big size class (64..80 hyperedges of size 2 on 14 nodes, the count not a multiple of
        # the pool size): results of a chunked parallel map must still cover every hyperedge
        n = 14
        pairs = [[a, b] for a in range(n) for b in range(a + 1, n)]
        m = draw(st.sampled_from([65, 70, 77, 83]))
        chosen = draw(st.permutations(pairs))[:m]
        edges = [{"ns": list(p_), "w": 1 + (3 * j) % 7 + (20 if j % 11 == 0 else 0)}
                 for j, p_ in enumerate(chosen)]
        return {"kind": "range", "labels": list(range(n)), "weighted": True, "edges": edges,
                "max_order": draw(st.sampled_from([2, 3, 10])), "mp": True, "planted": True,
                "omit_alpha": draw(st.booleans()), "omit_defaults": draw(st.booleans()),
                "big_class": True}
    U = draw(universes(min_size=6, max_size=8, kinds=("ints", "strs", "range")))
    n = len(U["labels"])
    s_ = draw(st.sampled_from([2, 2, 3]))
    perm = draw(st.permutations(list(range(n))))
    heavy = draw(st.permutations([3, 5, 8, 13, 20, 30]))
    edges, seen = [], set()
    for g in range(n // s_):
        ns = list(perm[g * s_:(g + 1) * s_])
        seen.add(frozenset(ns))
        edges.append({"ns": ns, "w": heavy[g]})
    for _ in range(draw(st.integers(2, 6))):
        ns = draw(st.lists(st.integers(0, n - 1), min_size=s_, max_size=s_, unique=True))
        if frozenset(ns) not in seen:
            seen.add(frozenset(ns))
            edges.append({"ns": ns, "w": draw(st.sampled_from([1, 1, 2, 4]))})
    order = draw(st.permutations(list(range(len(edges)))))
    return {"kind": U["kind"], "labels": U["labels"], "weighted": True,
            "edges": [edges[i] for i in order],
            "max_order": draw(st.sampled_from([s_, 3, 4, 10])), "mp": True, "planted": True,
            "omit_alpha": draw(st.booleans()), "omit_defaults": draw(st.booleans())}


def check_svh_mp(case, ctx):
    ref = svh_reference(case)
    classify_svh(case, ref, ctx)
    tables = read_tables(run_svh(case), ref, case)
    _check_pvalues(tables, ref, ctx)
    mixed = _check_validated(tables, ref, ctx)
    exact = [pe for r in ref.values() for _, pe in r["table"].values()]
    distinct = len(set(exact)) == len(exact)
    if distinct:
        ctx.label("pairwise_distinct_pvalues")
    if case.get("big_class"):
        ctx.label("size_class_of_more_than_64_hyperedges")
    ctx.nontrivial((distinct or case.get("big_class")) and len(exact) >= 4)


CLAUSES = [
    Clause("filter_hypergraph", lambda tier: filter_cases(tier, "plain"),
           lambda case, ctx: check_filter(PLAIN, case, ctx),
           quick=300, thorough=1500, shards_quick=3,
           rule="criteria remove some but not all nodes, or some but not all hyperedges"),
    Clause("filter_temporal", lambda tier: filter_cases(tier, "temporal"),
           lambda case, ctx: check_filter(TEMPORAL, case, ctx),
           quick=300, thorough=1500, shards_quick=3,
           rule="criteria remove some but not all nodes, or some but not all records"),
    Clause("filter_multiplex", lambda tier: filter_cases(tier, "multiplex"),
           lambda case, ctx: check_filter(MULTIPLEX, case, ctx),
           quick=300, thorough=1500, shards_quick=3,
           rule="criteria remove some but not all nodes, or some but not all records"),
    Clause("filter_directed", lambda tier: filter_cases(tier, "directed"),
           lambda case, ctx: check_filter(DIRECTED, case, ctx),
           quick=200, thorough=1000, shards_quick=2,
           rule="criteria remove some but not all nodes, or some but not all hyperedges "
                "(keep_edges=False only)"),
    Clause("svh_pvalues", svh_cases, check_svh_pvalues, quick=250, thorough=1200, shards_quick=3,
           rule="a size class in [2, max_order] with >= 2 hyperedges"),
    Clause("svh_validated", svh_cases, check_svh_validated, quick=300, thorough=1200,
           shards_quick=4,
           rule="a size class with >= 3 hyperedges, some validated and some not"),
    Clause("svh_mp", svh_mp_cases, check_svh_mp, quick=6, thorough=8, shards_quick=1,
           rule="mp=True, one size class of >= 4 hyperedges whose exact p-values differ pairwise"),
]
