"""Regenerates /verif/MANIFEST.json from the table below (keeps it valid by construction)."""
import json, os, subprocess

V = os.path.dirname(os.path.dirname(os.path.abspath(__file__)))
PY = "PYTHONHASHSEED=0 PYTHONDONTWRITEBYTECODE=1 HGX_VERIF=1 /venv/bin/python -m hgxverif.run"

CHECKS = {
 # id: (technique, level text, design_ref, note)
 "C02": ("model-based history testing (generated operation sequences vs. a dict reference model keyed by (source set, target set))",
         "Same machine as C01 for DirectedHypergraph: role-specific incidence (source/target), direction (the reversed pair is generated on purpose), in/out degrees, neighbours, filters on total size, metadata survival; every public query compared after every step.",
         "2/C02", "trusted: RefDirected model, Hypothesis; remove_node only with keep_edges=False (quantifier)"),
 "C03": ("model-based history testing + derived-object oracle (every time window on a grid, per-time snapshots, aggregate(w) for every width) against a dict keyed by (time, node set)",
         "History machine for TemporalHypergraph incl. rejected times, keep_edges shrinks and the same node set at several times; after every step all queries over all windows (a,b) in -1..8 (also a>=b) and order/size filters; every 6 steps and at the end subhypergraph() snapshots and aggregate(w) for all widths are recomputed from the model, and the object is re-observed to be unchanged.",
         "2/C03", "trusted: RefTemporal model; times limited to 0..6 so that windows are exhaustive on the grid; remove_edges (temporal) not in the statement"),
 "C04": ("model-based history testing + aggregation/overlap oracle against a dict keyed by (node set, layer)",
         "History machine for MultiplexHypergraph (layered insertions incl. weighted batches with one node set in two layers, removals, keep_edges shrinks, weights, attribute helpers); after every step all queries are compared and aggregated_hypergraph()/edge_overlap are recomputed from the model, then the object is re-observed (incl. its hypergraph metadata) to be unchanged.",
         "2/C04", "trusted: RefMultiplex model; layer registry only bounded (layers in use <= reported <= ever inserted)"),
 "C01": ("model-based history testing (Hypothesis-generated operation sequences vs. a dict/set reference model, full public observation after every step)",
         "Every generated history (<=50 public mutator calls incl. rejected ones, copies, batches) is replayed on a 150-line reference model; all public queries incl. every order/size/up_to filter are compared as multisets after every step. Finds history-dependent faults (stale/duplicated incidence entries, wrong-key tables); establishes nothing beyond the explored histories.",
         "2/C01", "trusted: RefHypergraph model, Hypothesis; unspecified corners are value sets or excluded (listed in evidence.assumptions)"),
}

def main():
    not_applicable = []
    props = [json.loads(l) for l in open(os.path.join(V, "properties.jsonl"))]
    checks = []
    for p in props:
        pid = p["id"]
        if pid not in CHECKS:
            not_applicable.append({"property_id": pid, "reason": "check not built yet in this round (planned in DESIGN.md section 2/%s); nothing is claimed for it" % pid})
            continue
        tech, text, ref, note = CHECKS[pid]
        checks.append({
            "property_id": pid,
            "quick_cmd": "%s %s --tier quick" % (PY, pid),
            "thorough_cmd": "%s %s --tier thorough" % (PY, pid),
            "evidence_file": "/verif/evidence/%s.json" % pid,
            "replay_cmd_template": "%s %s --replay {path}" % (PY, pid),
            "engine": "hgxverif",
            "level_claimed": {"category": "exploration", "text": text, "design_ref": ref},
            "level_note": note,
            "technique": tech,
        })
    hooks_commits = []
    m = {
        "version": 1,
        "setup_cmd": "/venv/bin/python -c 'import hypothesis' 2>/dev/null || PIP_NO_INDEX=1 /venv/bin/pip install --no-index --find-links /opt/veriftools/wheels hypothesis",
        "hooks": {
            "guard": "HGX_VERIF",
            "enable": "environment variable HGX_VERIF=1 (set by every check command); no hook is currently installed in /repo - all oracles use the public API only",
            "baseline_off_cmd": "cd /repo && env -u HGX_VERIF /venv/bin/python -m pytest -ra -q -p no:cacheprovider --timeout=900 --continue-on-collection-errors",
            "source_commits": hooks_commits,
            "add_only": True,
        },
        "engines": [{
            "name": "hgxverif", "path": "/verif/hgxverif",
            "serves_properties": [c["property_id"] for c in checks],
            "kind_free_text": "Hypothesis 6.168 property-based testing: generated cases (JSON), explicit oracles (reference models, brute-force definitions, round trips, metamorphic relations), shrinking to replay files, 16-way sharding",
        }],
        "checks": checks,
        "not_applicable": not_applicable,
        "notes": "Checks import hypergraphx from /repo's working tree (sys.path[0]=/repo, no bytecode). VERIF_SEED seeds Hypothesis (hypothesis.seed, database=None, deadline=None). Exit 2 = harness error, never a verdict. Known findings: /verif/known_findings.txt.",
    }
    with open(os.path.join(V, "MANIFEST.json"), "w") as f:
        json.dump(m, f, indent=1)
    import jsonschema
    jsonschema.validate(m, json.load(open("/root/.vp/MANIFEST.schema.json")))
    print("MANIFEST.json: %d checks, %d not_applicable" % (len(checks), len(not_applicable)))

if __name__ == "__main__":
    main()
