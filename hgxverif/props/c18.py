"""C18 -- random walks are stochastic and stationary; contagion is exact when deterministic.

Random walk: connected hypergraphs on 0..N-1 (constructed connected, never
filtered; unweighted or weighted -- the stated law ignores weights); the oracle is exact rational arithmetic (fractions) on the
definition K_ij = sum_{e ni i,j, i != j} (|e|-1) / sum_{e ni i} (|e|-1)^2.

Contagion: any labels; hypergraphx draws from the *global* numpy RNG, which is
seeded from the case.  Bounds / monotonicity are demanded for all rates (with
mu = 0 a lower and an upper deterministic envelope for mixed rate pairs); for
rates in {0, 1} the whole trajectory must equal a synchronous reference
simulation that reads only the old state.
"""

import random
from fractions import Fraction

import numpy as np
from hypothesis import strategies as st

from .. import strategies as S
from ..common import permuted
from ..engine import Clause, Violation, require
from ..common import with_history  # noqa: E402

ASSUMPTIONS = [
    "random walk: connected Hypergraph, nodes exactly 0..N-1 (N 2..8, mostly >= 4), hyperedge sizes "
    "2..5 (the quantifier's domain; singletons and other labels are not generated); a third of the "
    "inputs are weighted Hypergraphs with weights differing between hyperedges: the stated "
    "transition law has no weights in it, so the oracle is the same",
    "transition oracle: exact fractions; zero diagonal is part of the definition (the stationary "
    "law sum_{e ni i}(|e|-1)^2 stated by the property holds only without self-transitions)",
    "float tolerances: K against the exact value rtol 1e-12 (integer sums divided once); stationary "
    "state and densities atol 1e-9 (one LU solve of an <=8x8 well-conditioned system / <=20 "
    "matrix-vector products with entries in [0,1])",
    "sampled walks: numpy global RNG seeded from the case; only support facts are demanded (length, "
    "start, every step goes to a different node sharing a hyperedge), not the sampling law",
    "contagion: I_0 has exactly one 0/1 entry per node of the hypergraph; rates are multiples of "
    "0.1 in [0,1]; numpy and random global RNGs seeded from the case",
    "contagion, derived bound: with mu=0 the infected count never exceeds that of the deterministic "
    "run with beta=beta_D=1 from the same I_0 (monotone coupling of the documented process)",
    "contagion, derived two-sided bounds for any infection rates with mu=0 (same coupling, argued "
    "in check_contagion_bounds): infected count <= that of the deterministic run in which exactly "
    "the channels with a positive rate fire, and >= that of the run in which exactly the rate-1 "
    "channels fire; relies on numpy.random.random() in [0,1) compared with `< rate`",
    "contagion exact regimes: rates in {0,1}: numpy.random.random() lies in [0,1), so a rate-1 event "
    "always fires and a rate-0 event never does",
    "the caller's start density array and I_0 dictionary are compared before/after the call and a "
    "modification is only recorded as a label ('start array modified', 'I_0 dict modified'): the "
    "property is silent about it",
    "not checked: distributional correctness for rates strictly inside (0,1), disconnected inputs "
    "(the library asserts)",
]

# --------------------------------------------------------------------------
# random walk: generator (connected by construction) and exact oracle


@st.composite
def connected_hypergraphs(draw, tier):
    # (an integer range is sampled mostly at its ends: 30% of the cases had n = 2)
    n = draw(st.sampled_from([5, 4, 6, 7, 3, 8, 5, 6, 2]))
    perm = draw(st.permutations(list(range(n))))
    comp, rest = [perm[0]], list(perm[1:])
    edges = []
    while rest:
        k_out = draw(st.integers(1, min(4, len(rest))))
        new, rest = rest[:k_out], rest[k_out:]
        k_in = draw(st.integers(1, min(5 - k_out, len(comp))))
        old = draw(st.lists(st.sampled_from(comp), min_size=k_in, max_size=k_in, unique=True))
        e = draw(st.permutations(old + new))
        edges.append(list(e))
        comp.extend(new)
    extra = draw(S.edge_sets(n, 0, 6 if tier == "quick" else 10, 2, 5))
    seen, out = set(), []
    for e in edges + extra:
        key = tuple(sorted(e))
        if key not in seen:
            seen.add(key)
            out.append(list(e))
    order = draw(st.permutations(list(range(len(out)))))
    # the stated transition law has no weights in it: a weighted Hypergraph (weights that differ
    # from hyperedge to hyperedge) must give the same matrix
    weights = None
    if draw(st.integers(0, 2)) == 0:
        weights = [draw(st.sampled_from([2, 3, 0.5, 7, 1])) for _ in out]
    return {"n": n, "edges": [out[i] for i in order], "node_seed": draw(st.integers(0, 999)),
            "nodes_first": draw(st.booleans()), "weights": weights}


def _warmup_rw(h):
    from hypergraphx.dynamics import randwalk as RW
    RW.transition_matrix(h)


@with_history(warmup=_warmup_rw)
def build_rw(hc):
    from hypergraphx import Hypergraph
    weights = hc.get("weights")
    h = Hypergraph(weighted=weights is not None)
    nodes = permuted(range(hc["n"]), hc["node_seed"])
    if hc["nodes_first"]:
        h.add_nodes(nodes)
    if weights is not None:
        h.add_edges([tuple(e) for e in hc["edges"]], weights=list(weights))
    else:
        h.add_edges([tuple(e) for e in hc["edges"]])
    if not hc["nodes_first"]:
        h.add_nodes(nodes)
    return h


def exact_K(hc):
    n = hc["n"]
    W = [[0] * n for _ in range(n)]
    for e in hc["edges"]:
        for a in e:
            for b in e:
                if a != b:
                    W[a][b] += len(e) - 1
    rows = [sum(r) for r in W]
    for i in range(n):
        expect = sum((len(e) - 1) ** 2 for e in hc["edges"] if i in e)
        assert rows[i] == expect and rows[i] > 0, "oracle self-check: generator produced an isolated node"
    K = [[Fraction(W[i][j], rows[i]) for j in range(n)] for i in range(n)]
    pi = [Fraction(r, sum(rows)) for r in rows]
    return K, pi


def classify_rw(hc, ctx):
    sizes = {len(e) for e in hc["edges"]}
    ctx.label("n:%d" % hc["n"], "distinct_sizes:%d" % min(len(sizes), 3))
    if hc.get("weights") is not None:
        ctx.label("weighted" if len(set(hc["weights"])) > 1 else "weighted_uniform")
    if max(sizes) >= 3:
        ctx.label("has_size>=3")
    ctx.nontrivial(hc["n"] >= 3 and len(sizes) >= 2)


def to_dense(K, what):
    if hasattr(K, "toarray"):
        K = K.toarray()
    K = np.asarray(K, dtype=float)
    return K


def check_transition(case, ctx):
    from hypergraphx.dynamics.randwalk import transition_matrix
    hc = case["h"]
    classify_rw(hc, ctx)
    n = hc["n"]
    Kx, _ = exact_K(hc)
    K = to_dense(transition_matrix(build_rw(hc)), "transition_matrix")
    require(K.shape == (n, n), lambda: "transition_matrix: shape expected %r, got %r" % ((n, n), K.shape),
            key="shape")
    for i in range(n):
        for j in range(n):
            ex = Kx[i][j]
            if ex == 0:
                require(K[i, j] == 0, lambda: "transition_matrix[%d,%d] expected 0 (%s), got %r; hyperedges %r"
                        % (i, j, "diagonal" if i == j else "no common hyperedge", K[i, j], hc["edges"]),
                        key="entry")
            else:
                require(abs(K[i, j] - float(ex)) <= 1e-12 * float(ex),
                        lambda: "transition_matrix[%d,%d] expected %s = %.17g, got %.17g; hyperedges %r"
                        % (i, j, ex, float(ex), K[i, j], hc["edges"]), key="entry")
        rs = float(K[i].sum())
        require(abs(rs - 1.0) <= 1e-12, lambda: "transition_matrix: row %d sums to %.17g" % (i, rs),
                key="row_sum")


def check_stationary(case, ctx):
    from hypergraphx.dynamics.randwalk import RW_stationary_state
    hc = case["h"]
    classify_rw(hc, ctx)
    n = hc["n"]
    Kx, pix = exact_K(hc)
    pi = np.asarray(RW_stationary_state(build_rw(hc)), dtype=float).reshape(-1)
    require(pi.shape == (n,), lambda: "RW_stationary_state: %d entries expected, got shape %r" % (n, pi.shape),
            key="shape")
    require(bool(np.isfinite(pi).all()), lambda: "RW_stationary_state is not finite: %r" % pi.tolist(),
            key="finite")
    exp = np.array([float(p) for p in pix])
    err = np.abs(pi - exp)
    i = int(err.argmax())
    require(err[i] <= 1e-9, lambda: "RW_stationary_state[%d] expected %s = %.12g "
            "(sum_{e ni i}(|e|-1)^2 normalised), got %.12g; hyperedges %r"
            % (i, pix[i], exp[i], pi[i], hc["edges"]), key="value")
    require(pi.min() >= 0 and abs(pi.sum() - 1) <= 1e-9,
            lambda: "RW_stationary_state is not a probability vector: %r" % pi.tolist(), key="simplex")
    Kf = np.array([[float(x) for x in r] for r in Kx])
    res = np.abs(pi @ Kf - pi).max()
    require(res <= 1e-9, lambda: "RW_stationary_state is not fixed by K: max |pi K - pi| = %g" % res,
            key="fixed_point")


@st.composite
def density_cases(draw, tier):
    # mostly short horizons; sometimes long enough for the density to be numerically stationary
    # (every later density is still the previous one times K, to 1e-9)
    time = draw(st.sampled_from(list(range(0, 21)) + [20, 28, 40]))
    mode = draw(st.sampled_from(["vertex", "positive", "mixed"]))
    hc = draw(connected_hypergraphs(tier))
    n = hc["n"]
    if mode == "vertex":
        w = [0] * n
        w[draw(st.integers(0, n - 1))] = 1           # a vertex of the simplex
    elif mode == "positive":
        w = draw(st.lists(st.integers(1, 9), min_size=n, max_size=n))
    else:
        w = draw(st.lists(st.integers(0, 9), min_size=n, max_size=n))
        if sum(w) == 0:
            w[draw(st.integers(0, n - 1))] = 1
    # a vertex of the simplex may be handed over as an integer ndarray (np.eye(n, dtype=int)[i])
    int_start = mode == "vertex" and draw(st.booleans())
    return {"h": hc, "w": w, "time": time, "int_start": int_start}


def check_density(case, ctx):
    from hypergraphx.dynamics.randwalk import random_walk_density
    hc = case["h"]
    classify_rw(hc, ctx)
    n, T = hc["n"], case["time"]
    tot = sum(case["w"])
    s0x = [Fraction(w, tot) for w in case["w"]]
    s0 = np.array([w / tot for w in case["w"]], dtype=float)
    ctx.label("start:vertex" if max(case["w"]) == tot else "start:interior", "time:%s" % ("0" if T == 0 else ">0"))
    Kx, _ = exact_K(hc)
    if case.get("int_start") and tot == 1:
        start = np.array(case["w"], dtype=int)
        ctx.label("start:int_dtype")
    else:
        start = s0.copy()
    handed = start.copy()
    out = random_walk_density(build_rw(hc), handed, T)
    if not np.array_equal(handed, start):
        # the property is silent about the caller's array: an observation, not a verdict
        ctx.label("start array modified")
    require(isinstance(out, (list, tuple)) and len(out) == T + 1,
            lambda: "random_walk_density(time=%d) returned %d vectors, expected %d" % (T, len(out), T + 1),
            key="length")
    cur = s0x
    for t, v in enumerate(out):
        v = np.asarray(v, dtype=float).reshape(-1)
        require(v.shape == (n,), lambda: "random_walk_density: vector %d has shape %r" % (t, v.shape),
                key="shape")
        if t == 0:
            require(np.allclose(v, s0, rtol=0, atol=1e-12), lambda: "random_walk_density: first vector %r is not the start %r"
                    % (v.tolist(), s0.tolist()), key="first")
        else:
            cur = [sum(cur[i] * Kx[i][j] for i in range(n)) for j in range(n)]
        exp = np.array([float(x) for x in cur])
        err = np.abs(v - exp)
        j = int(err.argmax())
        require(err[j] <= 1e-9, lambda: "random_walk_density: density %d, node %d expected %s = %.12g "
                "(previous density times K), got %.12g" % (t, j, cur[j], exp[j], v[j]), key="value")
        require(abs(v.sum() - 1) <= 1e-9, lambda: "random_walk_density: density %d sums to %.12g"
                % (t, v.sum()), key="mass")
    ctx.nontrivial(T >= 2 and hc["n"] >= 3)


@st.composite
def walk_cases(draw, tier):
    time = draw(st.sampled_from(list(range(0, 31))))
    seed = draw(S.seeds)
    hc = draw(connected_hypergraphs(tier))
    return {"h": hc, "s": draw(st.integers(0, hc["n"] - 1)), "time": time, "seed": seed}


def check_walk(case, ctx):
    from hypergraphx.dynamics.randwalk import random_walk
    hc = case["h"]
    classify_rw(hc, ctx)
    n, T, s = hc["n"], case["time"], case["s"]
    Kx, _ = exact_K(hc)
    random.seed(case["seed"])
    np.random.seed(case["seed"])
    walk = random_walk(build_rw(hc), s, T)
    require(isinstance(walk, (list, tuple)) and len(walk) == T + 1,
            lambda: "random_walk(time=%d) returned %d nodes, expected %d" % (T, len(walk), T + 1),
            key="length")
    require(walk[0] == s, lambda: "random_walk starts at %r, not at s=%r" % (walk[0], s), key="start")
    for t in range(T + 1):
        v = walk[t]
        require(isinstance(v, (int, np.integer)) and 0 <= int(v) < n,
                lambda: "random_walk: position %d is %r, not a node of 0..%d" % (t, v, n - 1), key="node")
        if t:
            a, b = int(walk[t - 1]), int(v)
            require(Kx[a][b] > 0, lambda: "random_walk steps %d -> %d at time %d although %s; hyperedges %r"
                    % (a, b, t, "the walk has no self-transition" if a == b
                       else "the nodes share no hyperedge", hc["edges"]), key="step")
    complete = all(Kx[i][j] > 0 for i in range(n) for j in range(n) if i != j)
    ctx.label("complete_support" if complete else "sparse_support")
    ctx.nontrivial(T >= 3 and not complete)


def rw_only(tier):
    return connected_hypergraphs(tier).map(lambda hc: {"h": hc})


# --------------------------------------------------------------------------
# simplicial contagion

RATES = [0.0, 0.1, 0.3, 0.5, 0.7, 0.9, 1.0]


REGIMES = [[1, 0, 0], [1, 1, 0], [0, 1, 0], [1, 1, 1], [0, 1, 1], [1, 0, 1], [0, 0, 1], [0, 0, 0]]


@st.composite
def contagion_cases(draw, tier, deterministic):
    # the discriminating choices are drawn first (late draws of a long case are the ones
    # Hypothesis most often replaces by their minimal value)
    if deterministic:
        rates = [float(r) for r in draw(st.sampled_from(REGIMES))]
    else:
        kind = draw(st.sampled_from(["any", "mu0", "mu0_mixed", "no_infection"]))
        rates = [draw(st.sampled_from(RATES)) for _ in range(3)]
        if kind == "mu0":
            rates[2] = 0.0
        elif kind == "mu0_mixed":
            # one infection channel deterministic (never / always), the other one random
            rates[2] = 0.0
            which = draw(st.integers(0, 1))
            rates[which] = draw(st.sampled_from([0.0, 0.0, 1.0]))
            rates[1 - which] = draw(st.sampled_from([0.1, 0.3, 0.5, 0.7, 0.9]))
        elif kind == "no_infection":
            rates[0] = rates[1] = 0.0
    T = draw(st.sampled_from(list(range(1, 13))))
    mode = draw(st.sampled_from(["few", "two_of_a_triangle", "any"]))
    U = draw(S.universes(2, 8, kinds=("ints", "strs", "range")))
    n = len(U["labels"])
    shape = draw(st.sampled_from(["pairs_triangles", "pairs_triangles", "any_size"]))
    lo = draw(st.sampled_from([0, 1, 2, 3, 4]))
    hi = 10 if tier == "quick" else 14
    if shape == "any_size" or n < 3:
        edges = draw(S.edge_sets(n, lo, hi, 1, 4))
    else:
        edges = draw(S.edge_sets(n, lo, hi, 2, 3))
    tris = [e for e in edges if len(e) == 3]
    if mode == "two_of_a_triangle" and tris:
        e = draw(st.sampled_from(tris))
        drop = draw(st.integers(0, 2))
        inf = [v for k, v in enumerate(e) if k != drop]
        inf += draw(st.lists(st.integers(0, n - 1), max_size=1))
        inf = sorted(set(inf))
    elif mode == "any":
        inf = draw(st.lists(st.integers(0, n - 1), min_size=0, max_size=n, unique=True))
    else:
        inf = draw(st.lists(st.integers(0, n - 1), min_size=1, max_size=2, unique=True))
    return {"U": U, "edges": edges, "infected": sorted(inf), "T": T,
            "beta": rates[0], "beta_D": rates[1], "mu": rates[2], "seed": draw(S.seeds),
            "weighted": draw(st.booleans()), "node_seed": draw(st.integers(0, 999)),
            "nodes_first": draw(st.booleans())}


@with_history
def build_contagion(case):
    from hypergraphx import Hypergraph
    L = case["U"]["labels"]
    h = Hypergraph(weighted=case["weighted"])
    order = permuted(L, case["node_seed"])
    if case["nodes_first"]:
        h.add_nodes(order)
    es = [tuple(L[i] for i in e) for e in case["edges"]]
    if es:
        if case["weighted"]:
            h.add_edges(es, weights=[2 + (j % 3) for j in range(len(es))])
        else:
            h.add_edges(es)
    if not case["nodes_first"]:
        h.add_nodes(order)
    I0 = {lab: (1 if i in case["infected"] else 0) for i, lab in enumerate(L)}
    return h, I0


def reference(case, beta, beta_D, mu, sequential=None):
    """Synchronous deterministic simulation on node indices (rates in {0,1}).

    sequential = None: reads only the old state.  'fwd'/'rev': in-place sweep
    (used only to classify cases where reading the new state would differ)."""
    n = len(case["U"]["labels"])
    pairs = [set(e) for e in case["edges"] if len(e) == 2]
    tris = [set(e) for e in case["edges"] if len(e) == 3]
    state = [1 if i in case["infected"] else 0 for i in range(n)]
    traj = [sum(state)]
    tri_event = False
    for _ in range(1, case["T"]):
        old = list(state)
        new = list(state)
        read = old if sequential is None else new
        sweep = range(n) if sequential != "rev" else range(n - 1, -1, -1)
        for v in sweep:
            if old[v] == 0:
                hit = beta == 1 and any(v in p and read[next(iter(p - {v}))] for p in pairs)
                if not hit and beta_D == 1:
                    for t in tris:
                        if v in t and all(read[u] for u in t - {v}):
                            hit = True
                            tri_event = True
                            break
                if hit:
                    new[v] = 1
            elif mu == 1:
                new[v] = 0
        state = new
        traj.append(sum(state))
    return traj, tri_event


def run_contagion(case, ctx=None):
    from hypergraphx.dynamics.contagion import simplicial_contagion
    h, I0 = build_contagion(case)
    random.seed(case["seed"])
    np.random.seed(case["seed"])
    handed = dict(I0)
    out = simplicial_contagion(h, handed, case["T"], case["beta"], case["beta_D"], case["mu"])
    if ctx is not None and handed != I0:
        # the property is silent about the caller's dictionary: an observation, not a verdict
        ctx.label("I_0 dict modified")
    out = np.asarray(out, dtype=float).reshape(-1)
    return out


def describe(case):
    L = case["U"]["labels"]
    return "hyperedges %r, infected %r, T=%d, beta=%g, beta_D=%g, mu=%g, seed=%d" % (
        [[L[i] for i in e] for e in case["edges"]], [L[i] for i in case["infected"]], case["T"],
        case["beta"], case["beta_D"], case["mu"], case["seed"])


def common_contagion(case, out, ctx):
    n = len(case["U"]["labels"])
    T = case["T"]
    require(out.shape == (T,), lambda: "simplicial_contagion returned %d values, expected T=%d; %s"
            % (out.size, T, describe(case)), key="length")
    require(bool(((out >= 0) & (out <= 1)).all()), lambda: "simplicial_contagion leaves [0,1]: %r; %s"
            % (out.tolist(), describe(case)), key="range")
    f0 = len(case["infected"]) / n
    require(abs(out[0] - f0) <= 1e-12, lambda: "simplicial_contagion starts at %r, initial infected "
            "fraction is %d/%d; %s" % (float(out[0]), len(case["infected"]), n, describe(case)), key="first")
    counts = out * n
    require(bool((np.abs(counts - np.round(counts)) <= 1e-9).all()),
            lambda: "simplicial_contagion: %r are not multiples of 1/%d" % (out.tolist(), n), key="range")
    sizes = {len(e) for e in case["edges"]}
    ctx.label("labels:" + case["U"]["kind"], "has_pairs" if 2 in sizes else "no_pairs",
              "has_triangles" if 3 in sizes else "no_triangles")


def check_contagion_bounds(case, ctx):
    n = len(case["U"]["labels"])
    out = run_contagion(case, ctx)
    common_contagion(case, out, ctx)
    d = np.diff(out)
    if case["mu"] == 0:
        ctx.label("regime:mu=0")
        require(bool((d >= -1e-12).all()), lambda: "simplicial_contagion decreases with mu=0: %r; %s"
                % (out.tolist(), describe(case)), key="monotone")
        env, _ = reference(case, 1, 1, 0)
        over = [t for t in range(case["T"]) if out[t] * n > env[t] + 1e-9]
        require(not over, lambda: "simplicial_contagion (mu=0) infects %r nodes at step %d, more than the %d "
                "reachable when every pair and triangle infection fires; %s"
                % (float(out[over[0]] * n), over[0], env[over[0]], describe(case)), key="envelope")
        # Two-sided bounds for any rate pair (mu = 0), from the same coupling.  An infection
        # attempt is `numpy.random.random() < rate` with random() in [0, 1): it never succeeds
        # at rate 0 and always succeeds at rate 1.  With mu = 0 nobody recovers, so the infected
        # set only grows.  By induction over the steps, (a) the infected set is contained in
        # that of the run in which every channel with a positive rate always fires (a node
        # newly infected at step t was infected through a pair / triangle whose other members
        # were infected at t-1, hence infected in the larger run too, through a channel of
        # positive rate, which fires there), and (b) it contains that of the run in which only
        # the rate-1 channels fire and the others never do (a node infected there at step t
        # is reached by a rate-1 channel from nodes that are infected in the observed run as
        # well; if it is still susceptible the library attempts that channel -- the pair loop
        # before the triangles, a success in the first only skips the second -- and the
        # attempt succeeds with certainty).  Counts are compared with 1e-9 slack on n*fraction.
        hi, _ = reference(case, 1 if case["beta"] > 0 else 0, 1 if case["beta_D"] > 0 else 0, 0)
        lo, _ = reference(case, 1 if case["beta"] == 1 else 0, 1 if case["beta_D"] == 1 else 0, 0)
        over = [t for t in range(case["T"]) if out[t] * n > hi[t] + 1e-9]
        require(not over, lambda: "simplicial_contagion (mu=0) infects %r nodes at step %d, more than the %d "
                "reachable when every infection with a positive rate fires (a rate-0 infection can "
                "never fire); upper counts %r, observed %r; %s"
                % (float(out[over[0]] * n), over[0], hi[over[0]], hi,
                   [round(x * n, 6) for x in out.tolist()], describe(case)), key="upper")
        under = [t for t in range(case["T"]) if out[t] * n < lo[t] - 1e-9]
        require(not under, lambda: "simplicial_contagion (mu=0) infects %r nodes at step %d, fewer than the %d "
                "infected when only the rate-1 infections fire (a rate-1 infection always fires); "
                "lower counts %r, observed %r; %s"
                % (float(out[under[0]] * n), under[0], lo[under[0]], lo,
                   [round(x * n, 6) for x in out.tolist()], describe(case)), key="lower")
        mixed = any(0 < r < 1 for r in (case["beta"], case["beta_D"]))
        if mixed and hi != env:
            ctx.label("mixed:upper_bound_below_full_envelope")
        if mixed and len(set(lo)) >= 2:
            ctx.label("mixed:lower_bound_not_constant")
    if case["beta"] == 0 and case["beta_D"] == 0:
        ctx.label("regime:no_infection")
        require(bool((d <= 1e-12).all()), lambda: "simplicial_contagion increases with beta=beta_D=0: %r; %s"
                % (out.tolist(), describe(case)), key="monotone")
    stochastic = any(0 < r < 1 for r in (case["beta"], case["beta_D"], case["mu"]))
    if stochastic:
        ctx.label("stochastic_rates")
    ctx.nontrivial(stochastic and case["T"] >= 3 and len(set(out.tolist())) >= 2)


def check_contagion_exact(case, ctx):
    n = len(case["U"]["labels"])
    out = run_contagion(case, ctx)
    common_contagion(case, out, ctx)
    b, bd, mu = int(case["beta"]), int(case["beta_D"]), int(case["mu"])
    ctx.label("regime:%d%d%d" % (b, bd, mu))
    ref, tri_event = reference(case, b, bd, mu)
    order_sensitive = (reference(case, b, bd, mu, "fwd")[0] != ref
                       or reference(case, b, bd, mu, "rev")[0] != ref)
    if tri_event:
        ctx.label("triangle_infection")
    if order_sensitive:
        ctx.label("old_vs_new_state_differ")
    ctx.trace = {"reference_counts": ref, "observed_counts": [round(x * n, 6) for x in out.tolist()]}
    for t in range(case["T"]):
        require(abs(out[t] - ref[t] / n) <= 1e-12,
                lambda: "simplicial_contagion step %d: infected fraction expected %d/%d, got %r "
                "(reference counts %r, observed %r); %s"
                % (t, ref[t], n, float(out[t]), ref, [round(x * n, 6) for x in out.tolist()], describe(case)),
                key="trajectory")
    ctx.nontrivial(len(set(ref)) >= 2 and (tri_event or order_sensitive))


CLAUSES = [
    Clause("C18.transition", rw_only, check_transition, quick=500, thorough=1500, shards_quick=1,
           rule="connected hypergraph with N >= 3 and at least two distinct hyperedge sizes"),
    Clause("C18.stationary", rw_only, check_stationary, quick=500, thorough=1500, shards_quick=1,
           rule="connected hypergraph with N >= 3 and at least two distinct hyperedge sizes"),
    Clause("C18.density", density_cases, check_density, quick=400, thorough=1000, shards_quick=1,
           rule="N >= 3 and horizon >= 2"),
    Clause("C18.walk", walk_cases, check_walk, quick=500, thorough=1500, shards_quick=1,
           rule="horizon >= 3 on a hypergraph where some pair of nodes shares no hyperedge "
                "(so a wrong step is possible)"),
    Clause("C18.contagion_bounds", lambda tier: contagion_cases(tier, False), check_contagion_bounds,
           quick=600, thorough=2500, shards_quick=2,
           rule="some rate strictly inside (0,1), T >= 3 and a non-constant trajectory"),
    Clause("C18.contagion_exact", lambda tier: contagion_cases(tier, True), check_contagion_exact,
           quick=800, thorough=2500, shards_quick=2,
           rule="rates in {0,1}; the reference trajectory is not constant and either a triangle "
                "infection happens or an in-place (new-state reading) sweep would give another trajectory"),
]
