"""C07 -- hash_hypergraph is a canonical fingerprint: equal content iff equal hash.

Equality direction: one abstract content, two scripted constructions through the
public API (hgxverif/oracles/build0607.py): different constructor arguments,
insertion orders and node orders inside hyperedges, explicit detours (extra
hyperedges and nodes inserted and removed, keep_edges shrinks, clear(), junk
metadata and weights that are repaired later, weights reached as a+b by
re-insertion or through set_weight, metadata reached through set_attr /
remove_attr, bulk forms remove_nodes / remove_edges / add_nodes for every other call,
continuing on h.copy(), float weights k/4 reached through exact partial sums, side B
handing every metadata dict to the library with reversed key order, the hash taken
right before calls that change the object).  Both objects are first checked
(public API) to hold exactly the target content -- the premise of the claim; then
the two hashes must be equal.

Difference direction: the second object is built (again with detours) from the
content after exactly one edit; the two hashes must differ.

Cross-process: the same case is rebuilt in a child interpreter started with another
PYTHONHASHSEED; the digests must be equal (a fingerprint, not a per-process value).

Purity: the complete public observation (the observe functions of C01..C04,
every metadata dict deep-copied) is identical before and after hashing, at every
point of a history where the hash is taken, and hashing twice gives one value.
"""

from hypothesis import strategies as st

from .. import strategies as S
from ..common import dc, diff_obs
from ..engine import Clause, HarnessError, require
from ..oracles import build0607 as B

ASSUMPTIONS = [
    "the two constructions are checked through the public API (nodes with metadata, hyperedges "
    "with weight and metadata, weightedness, hypergraph metadata) to hold exactly the target "
    "content before the hashes are compared; if not, the case is a harness error, never a verdict",
    "weights are ints on both sides, or (content field wmode = dyadic) floats k/4 on both sides, "
    "reached through exact partial sums; a weight 2 is never compared with 2.0 (the repair phase "
    "treats them as different and the premise check compares numeric types); metadata values are "
    "compared with their JSON type (1, 1.0 and True are different values), labels of one universe "
    "are mutually comparable",
    "the insertion order of the keys of a metadata dict (top level, nested, inside lists) is not "
    "content: side B may hand every dict to the library with reversed key order",
    "the hash is also taken inside the histories (right before calls that change the object, and "
    "on copies made by copy() where the class has it); only the final hashes are compared",
    "cross_process_stable: at most two child interpreters per shard (PYTHONHASHSEED 1 and 12345, "
    "kept alive for the shard) import the same library tree (HGXVERIF_REPO is inherited) and "
    "replay the same cases; a failure of a child is a harness error",
    "a node labelled 2 and a node labelled '2' are different nodes (edit node_label_type: all "
    "labels ints on one side, their str() on the other)",
    "calls whose effect on metadata is unspecified (metadata of a re-inserted hyperedge, add_node "
    "with metadata on an existing node, keep_edges merge into an existing hyperedge, emptied "
    "hyperedge, weights passed to add_edges of an unweighted object) are never issued",
    "hypergraph metadata is part of the content as the public API shows it, including the "
    "implementation-set keys 'weighted' and 'type'; after clear() (which may drop them) the "
    "script sets every expected field again through set_attr_to_hypergraph_metadata",
    "difference direction: the new metadata value is unequal to the old one in Python, hence "
    "also after JSON normalisation; one edit = one node / hyperedge / weight / time / layer / "
    "direction / weightedness flag / metadata field",
]


def _hash():
    from hypergraphx.readwrite.hashing import hash_hypergraph
    return hash_hypergraph


def _hash_checked(h, what):
    f = _hash()
    v1 = f(h)
    v2 = f(h)
    require(isinstance(v1, str) and v1 == v2,
            lambda: "hash_hypergraph called twice on %s: first %r, then %r (expected one value)"
            % (what, v1, v2), key="hash-unstable")
    return v1


def _short(x, n=1500):
    s = repr(x)
    return s if len(s) <= n else s[:n] + "..."


# --------------------------------------------------------------------------
# equality direction


def check_equal(case, ctx):
    T = B.derive(case["content"])
    U = case["content"]["universe"]["labels"]
    ha, ba = B.build(T, U, case["a"], hash_fn=_hash())
    hb, bb = B.build(T, U, case["b"], hash_fn=_hash())
    ctx.trace = {"content": _content_json(T), "history_a": ba.trace, "history_b": bb.trace}
    va = _hash_checked(ha, "the object of history A")
    vb = _hash_checked(hb, "the object of history B")
    require(va == vb,
            lambda: "hash_hypergraph differs for two %s objects with the same nodes, hyperedges, "
                    "weights and metadata: %s vs %s (expected equal). content %s; history A %s; "
                    "history B %s" % (T["type"], va[:12], vb[:12], _short(_content_json(T), 600),
                                      _short(ba.trace), _short(bb.trace)),
            key="equal-content-different-hash")
    B.history_labels(ba, ctx)
    B.history_labels(bb, ctx)
    ctx.label("weighted" if T["weighted"] else "unweighted")
    if T["wmode"] == "dyadic" and T["edges"]:
        ctx.label("float_weights")
    if bb.rev and _has_nested_dict(T):
        ctx.label("nested_dict_keys_reversed_on_B")
    ctx.label("labels:" + case["content"]["universe"]["kind"])
    if not T["edges"]:
        ctx.label("no_hyperedges")
    removal = "removal" in ba.flags or "removal" in bb.flags
    ctx.nontrivial(removal and (T["edges"] or T["nodes"]) and ba.trace != bb.trace)


def _has_nested_dict(T):
    """some metadata value holds a dict with two or more keys (directly or inside a list)"""
    def deep(v, top):
        if isinstance(v, dict):
            return (not top and len(v) >= 2) or any(deep(x, False) for x in v.values())
        if isinstance(v, list):
            return any(deep(x, False) for x in v)
        return False
    return (any(deep(m, True) for m in T["nodes"].values())
            or any(deep(v[1], True) for v in T["edges"].values()) or deep(T["hg_user"], True))


def _content_json(T):
    k = B.kit(T["type"])
    return {"type": T["type"], "weighted": T["weighted"],
            "nodes": [[n, m] for n, m in T["nodes"].items()],
            "edges": [[k.probe(key), v[0], v[1]] for key, v in T["edges"].items()],
            "hypergraph_metadata": T["hg_user"]}


def _equal_strategy(type_name):
    def strat(tier):
        mx = 8 if tier == "quick" else 14
        return st.fixed_dictionaries({
            "content": B.contents(type_name, max_edges=5 if tier == "quick" else 7),
            "a": B.sides(mx, extra_kinds=["copy"] * 3),
            "b": B.sides(mx, extra_kinds=["copy"] * 3, rev=True)})
    return strat


# --------------------------------------------------------------------------
# difference direction

EDITS = ["add_node", "remove_node", "add_edge", "remove_edge", "change_weight", "change_coord",
         "flip_weighted", "flip_weighted_bare", "node_meta_value", "node_meta_add_key", "node_meta_remove_key",
         "edge_meta_value", "edge_meta_add_key", "edge_meta_remove_key",
         "hg_meta_value", "hg_meta_add_key", "hg_meta_remove_key",
         # the two objects differ only in the ORDER of a list-valued metadata value
         "node_meta_list_order", "edge_meta_list_order", "hg_meta_list_order",
         # ... or only in an integer beyond 2**53 (distinct ints, equal as floats)
         "node_meta_big_int", "edge_meta_big_int", "hg_meta_big_int", "weight_big_int",
         # ... or only in one weight being 0 on one side and 1 (the default) on the other
         "weight_zero_vs_one",
         # ... or only in a fractional step of one float weight (0.5 / 0.75, 2.0 / 2.5)
         "weight_float_step",
         # ... or only in the TYPE of the node labels: ints on one side, their str() on the other
         "node_label_type",
         # ... or only in the value of an attribute whose NAME looks like a structural field of
         # a record (a pre-image that flattens metadata next to its own fields swallows it)
         "node_meta_structural_key", "edge_meta_structural_key"]
STRUCTURAL_KEYS = ["source", "target", "weight", "node", "nodes", "metadata", "time", "layer",
                   "edge", "type", "weighted"]
MARK = "CHANGED"


def _new_value(old, proposed):
    return dc(proposed) if proposed != old else MARK


def _edit_meta(meta, how, e):
    """Edit one field of a metadata dict in place; False when not applicable."""
    fs = sorted(meta)
    if how == "value":
        if not fs:
            return False
        f = fs[e["pick2"] % len(fs)]
        meta[f] = _new_value(meta[f], e["value"])
        return True
    if how == "add_key":
        free = [f for f in S.ATTRS + ["zz"] if f not in meta]
        meta[free[e["pick2"] % len(free)]] = dc(e["value"])
        return True
    if not fs:
        return False
    del meta[fs[e["pick2"] % len(fs)]]
    return True


def apply_edit(T, U, e, kind):
    """(T1, T2) or None when the edit does not apply to this content."""
    k = B.kit(T["type"])
    ad = k.ad
    T1, T2 = dc(T), dc(T)
    keys = sorted(T["edges"], key=ad.sort_key)
    nodes = sorted(T["nodes"], key=repr)

    def drop_edge(key):
        del T2["edges"][key]
        T2["order"].remove(key)

    def put_edge(key, val):
        T2["edges"][key] = val
        T2["order"].append(key)
        for n in sorted(k.nodes_of(key), key=repr):
            T2["nodes"].setdefault(n, {})

    if kind == "add_node":
        free = [u for u in U if u not in T["nodes"]]
        if not free:
            return None
        T2["nodes"][free[e["pick"] % len(free)]] = dc(e["meta"]) if e["pick2"] % 2 else {}
    elif kind == "remove_node":
        if not nodes:
            return None
        used = set()
        for key in keys:
            used |= k.nodes_of(key)
        iso = [n for n in nodes if n not in used]
        n = (iso or nodes)[e["pick"] % len(iso or nodes)]
        for key in keys:
            if n in k.nodes_of(key):
                drop_edge(key)
        del T2["nodes"][n]
    elif kind == "add_edge":
        spec = dict(e, mode="fresh")
        key = ad.key_of(ad.fresh_record(spec, U))
        if key in T["edges"]:
            return None
        put_edge(key, [e["w"] if T["weighted"] else 1, dc(e["meta"])])
    elif kind == "remove_edge":
        if not keys:
            return None
        drop_edge(keys[e["pick"] % len(keys)])
    elif kind == "change_weight":
        if not keys or not T["weighted"]:
            return None
        T2["edges"][keys[e["pick"] % len(keys)]][0] += 1 + e["pick2"] % 3
    elif kind == "change_coord":
        # one time / one layer / one direction
        if not keys or T["type"] == "Hypergraph":
            return None
        key = keys[e["pick"] % len(keys)]
        if T["type"] == "DirectedHypergraph":
            new = (key[1], key[0])
        elif T["type"] == "TemporalHypergraph":
            new = ((key[0] + 1 + e["pick2"] % 6) % 7, key[1])
        else:
            others = [l for l in B.LAYERS if l != key[1]]
            new = (key[0], others[e["pick2"] % len(others)])
        if new in T["edges"]:
            return None
        val = T2["edges"][key]
        drop_edge(key)
        put_edge(new, val)
    elif kind in ("flip_weighted", "flip_weighted_bare"):
        for X in (T1, T2):
            for key in X["edges"]:
                X["edges"][key][0] = 1
            if kind == "flip_weighted_bare":
                # both objects end with set_hypergraph_metadata(user fields): the metadata no
                # longer mentions the weightedness, only is_weighted() differs
                X["hg_bare"] = True
        T2["weighted"] = not T["weighted"]
    elif kind == "weight_big_int":
        if not keys or not T["weighted"]:
            return None
        key = keys[e["pick"] % len(keys)]
        T1["edges"][key][0], T2["edges"][key][0] = 2 ** 53, 2 ** 53 + 1
    elif kind == "weight_float_step":
        if not keys or not T["weighted"]:
            return None
        key = keys[e["pick"] % len(keys)]
        T1["edges"][key][0], T2["edges"][key][0] = [(0.5, 0.75), (2.0, 2.5), (2.5, 2.0)][e["pick2"] % 3]
    elif kind == "node_label_type":
        if not nodes or not all(type(u) is int for u in U):
            return None
        T2 = B.relabel(T, str)
        T2["U"] = [str(u) for u in U]       # the universe the second history draws its noise from
    elif kind == "weight_zero_vs_one":
        if not keys or not T["weighted"]:
            return None
        key = keys[e["pick"] % len(keys)]
        T1["edges"][key][0], T2["edges"][key][0] = (0, 1) if e["pick2"] % 2 else (1, 0)
    elif kind.endswith("_structural_key"):
        name = STRUCTURAL_KEYS[e["pick2"] % len(STRUCTURAL_KEYS)]
        a, b = ("survey-2019", "survey-2021") if e["pick"] % 2 else (1, 2)
        if kind.startswith("node_"):
            if not nodes:
                return None
            n = nodes[e["pick"] % len(nodes)]
            T1["nodes"][n][name], T2["nodes"][n][name] = a, b
        else:
            if not keys:
                return None
            key = keys[e["pick"] % len(keys)]
            T1["edges"][key][1][name], T2["edges"][key][1][name] = a, b
    elif kind.endswith("_list_order") or kind.endswith("_big_int"):
        a, b = [1, 2, "x"], [2, 1, "x"]
        if e["pick2"] % 2:
            a, b = [0.5, 1, [3, 4]], [0.5, 1, [4, 3]]   # nested list
        if kind.endswith("_big_int"):
            a, b = 2 ** 53, 2 ** 53 + 1
            if e["pick2"] % 2:
                a, b = {"p": 1700000000000000000}, {"p": 1700000000000000001}
        if kind.startswith("node_"):
            if not nodes:
                return None
            n = nodes[e["pick"] % len(nodes)]
            T1["nodes"][n]["zl"], T2["nodes"][n]["zl"] = dc(a), dc(b)
        elif kind.startswith("edge_"):
            if not keys:
                return None
            key = keys[e["pick"] % len(keys)]
            T1["edges"][key][1]["zl"], T2["edges"][key][1]["zl"] = dc(a), dc(b)
        else:
            T1["hg_user"]["zl"], T2["hg_user"]["zl"] = dc(a), dc(b)
    elif kind.startswith("node_meta_"):
        if not nodes:
            return None
        cand = [n for n in nodes if T["nodes"][n]] or nodes
        n = cand[e["pick"] % len(cand)]
        if not _edit_meta(T2["nodes"][n], kind[len("node_meta_"):], e):
            return None
    elif kind.startswith("edge_meta_"):
        if not keys:
            return None
        cand = [x for x in keys if T["edges"][x][1]] or keys
        key = cand[e["pick"] % len(cand)]
        if not _edit_meta(T2["edges"][key][1], kind[len("edge_meta_"):], e):
            return None
    elif kind.startswith("hg_meta_"):
        if not _edit_meta(T2["hg_user"], kind[len("hg_meta_"):], e):
            return None
    else:
        raise AssertionError(kind)
    return T1, T2


def check_edit(case, ctx):
    """Every edit kind that applies to the drawn content is tried (the selectors of
    ``case["edit"]`` choose where): drawing the kind would leave rare kinds to chance."""
    T = B.derive(case["content"])
    U = case["content"]["universe"]["labels"]
    e = case["edit"]
    k = B.kit(T["type"])
    h1, b1 = B.build(T, U, case["a"], hash_fn=_hash())
    v_base = _hash_checked(h1, "the first object")
    n_applied = 0
    for kind in EDITS:
        r = apply_edit(T, U, e, kind)
        if r is None:
            ctx.exclude("edit %s not applicable to the drawn content" % kind)
            continue
        T1, T2 = r
        c1, c2 = B.target_as_content(k, T1), B.target_as_content(k, T2)
        if c1 == c2 and B._same_types(c1, c2):
            raise HarnessError("edit %r did not change the content" % (kind,))
        U2 = T2.get("U", U)
        if (kind.startswith("flip_weighted") or kind.endswith("_list_order")
                or kind.endswith("_big_int") or kind.endswith("_structural_key")
                or kind in ("weight_zero_vs_one", "weight_float_step")):
            # the only edits that also adjust the first content
            try:
                hx, bx = B.build(T1, U, case["a"], hash_fn=_hash())
                if kind == "weight_zero_vs_one":
                    h2, b2 = B.build(T2, U2, case["b"], hash_fn=_hash())
            except ValueError:
                if kind != "weight_zero_vs_one":
                    raise
                # nothing says that a weight of 0 can be stored: a container that refuses it
                # (ValueError) has no pair of objects to compare
                ctx.exclude("the container refuses a hyperedge weight of 0")
                continue
            v1 = _hash_checked(hx, "the first object")
        else:
            bx, v1 = b1, v_base
        if kind != "weight_zero_vs_one":
            h2, b2 = B.build(T2, U2, case["b"], hash_fn=_hash())
        ctx.trace = {"edit": kind, "content_1": _content_json(T1), "content_2": _content_json(T2),
                     "history_1": bx.trace, "history_2": b2.trace}
        v2 = _hash_checked(h2, "the edited object")
        require(v1 != v2,
                lambda: "hash_hypergraph is the same (%s) for two %s objects that differ by one "
                        "edit (%s): content %s vs %s" % (v1[:12], T["type"], kind,
                                                         _short(_content_json(T1), 700),
                                                         _short(_content_json(T2), 700)),
                key="different-content-equal-hash:" + kind)
        ctx.label("edit:" + kind)
        n_applied += 1
    ctx.trace = None
    ctx.label("type:" + T["type"])
    ctx.label("weighted" if T["weighted"] else "unweighted")
    ctx.nontrivial(n_applied >= 10)


def _edit_strategy(tier):
    mx = 4 if tier == "quick" else 8
    edit = st.fixed_dictionaries({
        "pick": B.sel, "pick2": B.sel,
        "ns": st.lists(B.idx, min_size=1, max_size=4, unique=True), "cut": st.integers(0, 7),
        "t": st.integers(0, 6), "layer": st.integers(0, 3), "w": st.integers(1, 9),
        "meta": B.rich_metadata(), "value": S.json_values, "perm": B.sel})
    return st.fixed_dictionaries({
        "content": B.contents(None, max_edges=5), "edit": edit,
        "a": B.sides(mx, extra_kinds=["copy"] * 3), "b": B.sides(mx, extra_kinds=["copy"] * 3, rev=True)})


# --------------------------------------------------------------------------
# purity


def check_pure(case, ctx):
    T = B.derive(case["content"])
    U = case["content"]["universe"]["labels"]
    k = B.kit(T["type"])
    probes = [k.probe(key) for key in T["edges"]]
    n_hash = [0]

    def on_hash(b):
        where = "after %d calls of the history (last: %s)" % (len(b.trace), _short(b.trace[-2:], 300))
        o1 = k.observe(b.h, U, probes)
        o1["__hg_meta__"] = dc(b.h.get_hypergraph_metadata())   # the whole dict, own keys too
        v1 = _hash()(b.h)
        o2 = k.observe(b.h, U, probes)
        o2["__hg_meta__"] = dc(b.h.get_hypergraph_metadata())
        d = diff_obs(o1, o2)
        require(d is None, lambda: "hash_hypergraph changed the %s it hashed, %s: %s"
                % (T["type"], where, d), key="hash-mutates")
        v2 = _hash()(b.h)
        require(v1 == v2, lambda: "hash_hypergraph called twice %s: %r then %r" % (where, v1, v2),
                key="hash-unstable")
        n_hash[0] += 1

    # the hash is taken after the constructor, at every "hash" op of the noise phase,
    # before the repair phase and at the end
    b = B.Builder(T, U, case["a"], on_hash=on_hash)
    ctx.trace = {"content": _content_json(T), "history": b.trace}
    b.construct()
    b.do({"op": "hash"})
    for spec in case["a"]["noise"]:
        b.noise(spec)
    b.do({"op": "hash"})
    b.repair()
    B.require_content(b)
    b.do({"op": "hash"})
    if len(case["a"]["noise"]) % 2:
        # the hypergraph metadata replaced wholesale by the user's own fields (the
        # implementation-set 'weighted'/'type' entries are gone): hashing must not put
        # anything back into the object's -- and the caller's -- dict
        b.do({"op": "set_hypergraph_metadata", "meta": dc(T["hg_user"])})
        b.do({"op": "hash"})
        ctx.label("hash_after_wholesale_hypergraph_metadata")
    ctx.label("type:" + T["type"])
    ctx.label("hash_points:%s" % ("3" if n_hash[0] == 3 else "4-5" if n_hash[0] <= 5 else "6+"))
    B.history_labels(b, ctx)
    ctx.nontrivial(bool(T["edges"]) and "removal" in b.flags)


def _pure_strategy(tier):
    mx = 8 if tier == "quick" else 14
    return st.fixed_dictionaries({
        "content": B.contents(None, max_edges=5),
        "a": B.sides(mx, extra_kinds=["hash"] * 8, min_noise=3)})


# --------------------------------------------------------------------------
# the fingerprint does not depend on the interpreter's string-hash randomisation


def _digests(case):
    """hashes of the objects of a cross_process case (runs in the parent and in the child)"""
    out = []
    for item in case["items"]:
        T = B.derive(item["content"])
        h, _ = B.build(T, item["content"]["universe"]["labels"], item["side"], hash_fn=_hash())
        out.append(_hash()(h))
    return out


_CHILD = ("import sys, json; sys.path.insert(0, %r); from hgxverif import engine; "
          "engine.setup_paths(); from hgxverif.props import c07; c07._child_loop()")
_CHILDREN = {}      # hash seed -> child interpreter (started on first use, one per seed)


def _child_loop():
    """child interpreter: one JSON case per input line, one answer line per case"""
    import json
    import sys
    for line in sys.stdin:
        try:
            ans = {"digests": _digests(json.loads(line))}
        except Exception as exc:       # reported to the parent, which raises HarnessError
            ans = {"error": "%s: %s" % (type(exc).__name__, exc)}
        sys.stdout.write("DIGESTS " + json.dumps(ans) + "\n")
        sys.stdout.flush()


def _child(hashseed):
    import atexit
    import os
    import subprocess
    import sys
    from ..engine import VERIF_DIR
    p = _CHILDREN.get(hashseed)
    if p is None or p.poll() is not None:
        env = dict(os.environ, PYTHONHASHSEED=str(hashseed))
        p = subprocess.Popen([sys.executable, "-c", _CHILD % (VERIF_DIR,)], stdin=subprocess.PIPE,
                             stdout=subprocess.PIPE, stderr=subprocess.DEVNULL, text=True,
                             env=env, cwd=VERIF_DIR)
        _CHILDREN[hashseed] = p
        atexit.register(_stop_child, p)
    return p


def _stop_child(p):
    try:
        p.stdin.close()
        p.wait(timeout=5)
    except Exception:
        p.kill()


def check_cross_process(case, ctx):
    import json
    import os
    here = _digests(case)
    p = _child(case["hashseed"])
    try:
        p.stdin.write(json.dumps(case) + "\n")
        p.stdin.flush()
        line = p.stdout.readline()
        while line and not line.startswith("DIGESTS "):
            line = p.stdout.readline()
    except OSError as exc:
        raise HarnessError("child interpreter unreachable: %s" % (exc,))
    if not line:
        raise HarnessError("child interpreter ended (exit %r)" % (p.poll(),))
    ans = json.loads(line[len("DIGESTS "):])
    if "error" in ans:
        raise HarnessError("child interpreter could not rebuild the case: %s" % (ans["error"],))
    there = ans["digests"]
    for item, a, b in zip(case["items"], here, there):
        T = B.derive(item["content"])
        require(a == b,
                lambda: "hash_hypergraph of the same %s built by the same calls is %s in this "
                        "interpreter and %s in one started with PYTHONHASHSEED=%d (expected equal). "
                        "content %s" % (T["type"], a[:12], b[:12], case["hashseed"],
                                        _short(_content_json(T), 700)),
                key="hash-depends-on-hashseed")
        ctx.label("type:" + T["type"])
        ctx.label("labels:" + item["content"]["universe"]["kind"])
    if os.environ.get("PYTHONHASHSEED") == str(case["hashseed"]):
        ctx.label("same_hashseed_as_parent")
    ctx.nontrivial(any(it["content"]["universe"]["kind"].startswith("strs") and it["content"]["edges"]
                       for it in case["items"]))


def _cross_strategy(tier):
    return st.fixed_dictionaries({
        "items": st.tuples(*[st.fixed_dictionaries({"content": B.contents(name, max_edges=5),
                                                    "side": B.sides(4)})
                             for name in B.TYPES]).map(list),
        "hashseed": st.sampled_from([1, 12345])})



# --------------------------------------------------------------------------
# large_lists: more than a thousand hyperedges / nodes (a digest that is fed in chunks must still
# see every record)


@st.composite
def _large_strategy(draw, tier=None):
    return {"n_edges": draw(st.sampled_from([1025, 1030, 1100, 2050])),
            "which": draw(st.sampled_from(["weight", "metadata", "extra_node", "remove_edge"])),
            "pick": draw(st.integers(0, 40)), "weighted": draw(st.booleans()),
            "temporal": draw(st.booleans())}


def check_large(case, ctx):
    from itertools import combinations
    from hypergraphx import Hypergraph, TemporalHypergraph
    m = case["n_edges"]
    pairs = list(combinations(range(70), 2))[:m]          # 2415 pairs available
    weighted = case["weighted"] or case["which"] == "weight"

    def build(edit):
        if case["temporal"]:
            h = TemporalHypergraph(weighted=weighted)
            add = lambda e, **kw: h.add_edge(e, 3, **kw)
        else:
            h = Hypergraph(weighted=weighted)
            add = lambda e, **kw: h.add_edge(e, **kw)
        target = len(pairs) - 1 - case["pick"]            # a record in the tail of any ordering
        for j, e in enumerate(pairs):
            if edit and case["which"] == "remove_edge" and j == target:
                continue
            kw = {"weight": 2} if weighted else {}
            if edit and j == target:
                if case["which"] == "weight":
                    kw["weight"] = 3
                elif case["which"] == "metadata":
                    kw["metadata"] = {"color": "red"}
            add(e, **kw)
        if edit and case["which"] == "extra_node":
            h.add_node(5000 + case["pick"])
        return h

    a, a2, b = _hash()(build(False)), _hash()(build(False)), _hash()(build(True))
    require(a == a2, lambda: "two equal %s objects with %d hyperedges hash differently"
            % ("temporal" if case["temporal"] else "plain", m), key="large-equal")
    require(a != b,
            lambda: "hash_hypergraph is the same (%s) for two objects with %d hyperedges that "
                    "differ by one edit (%s, record %d from the end)"
            % (a[:12], m, case["which"], case["pick"]), key="large-different")
    ctx.label("edit:" + case["which"], "hyperedges:%d" % m)
    ctx.nontrivial(True)


CLAUSES = [
    Clause("equal_histories." + name, _equal_strategy(name), check_equal,
           quick=300, thorough=2000,
           rule="two different construction histories of one content, at least one of them with a "
                "removal (remove_edge / remove_node / clear) after an insertion; distinct by "
                "canonical JSON of the case")
    for name in B.TYPES
] + [
    Clause("single_edit_differs", _edit_strategy, check_edit, quick=120, thorough=600,
           shards_quick=2,
           rule="at least 10 of the 27 kinds of single edit apply to the drawn content (each "
                "applicable kind is checked on every case)"),
    Clause("hash_does_not_mutate", _pure_strategy, check_pure, quick=120, thorough=600,
           shards_quick=2,
           rule="history with a removal that ends with hyperedges; the hash is taken (and the full "
                "observation compared) after the constructor, inside and after the noise phase and "
                "at the end"),
    Clause("large_lists", _large_strategy, check_large, quick=6, thorough=12,
           rule="more than 1024 hyperedges, one edit near the end of the record lists"),
    Clause("cross_process_stable", _cross_strategy, check_cross_process, quick=60, thorough=60,
           rule="one object of each container type, rebuilt by the same calls in a child interpreter "
                "with another PYTHONHASHSEED; at least one of them has str labels and hyperedges"),
]
