"""C03 -- TemporalHypergraph keeps (time, hyperedge) records; windows/snapshots agree.

History machine (hgxverif/history.py) with key = (time, frozenset nodes), plus
derived-object checks: per-time snapshots (subhypergraph) and aggregate(w).
"""

from collections import Counter

from hypothesis import strategies as st

from .. import history as H
from ..common import cedge, dc, dedupe, permuted
from ..common import nodes_with_metadata, clone_label
from ..engine import Clause, Violation, require

ASSUMPTIONS = [
    "oracle = RefTemporal (dict (time, node set) -> [weight, metadata])",
    "times 0..6; rejected times generated only for insertions: -1, -4, 2.5, '3', None "
    "(bool, numpy integers and integer-valued floats such as 1.0 are not generated: whether they "
    "count as integers is unspecified)",
    "remove_edges of the temporal class is outside the statement and not called",
    "a weighted add_edges batch listing the same node tuple at two different times is excluded "
    "(whether the duplicate test looks at the time is unspecified in C03)",
    "snapshots: only hyperedges and weights are compared (add_all_nodes is not part of the property)",
    "a keep_edges=True shrink that leaves nothing drops the record (the class does so explicitly)",
]

SIZES = list(range(0, 7))
TGRID = list(range(-1, 9))
BAD_TIMES = [-1, 2.5, "3", None, -4]


def valid_time(t):
    return isinstance(t, int) and not isinstance(t, bool) and t >= 0


def crec(e):
    t, nodes = e
    return (t, cedge(nodes))


class RefTemporal(H.RefBase):
    def nodes_of(self, key):
        return key[1]

    def shrink(self, key, n):
        new = key[1] - {n}
        return (key[0], new) if new else None

    def valid_key(self, key):
        return valid_time(key[0])

    # queries
    def is_weighted(self):
        return self.weighted

    def get_nodes(self, metadata=False):
        return dict(self.nodes) if metadata else list(self.nodes)

    def num_nodes(self):
        return len(self.nodes)

    def check_node(self, n):
        return n in self.nodes

    def _sel(self, time_window=None, order=None, size=None, up_to=False):
        if size is not None:
            order = size - 1
        out = []
        for k in self.edges:
            if time_window is not None and not (time_window[0] <= k[0] < time_window[1]):
                continue
            if order is None or (len(k[1]) - 1 <= order if up_to else len(k[1]) - 1 == order):
                out.append(k)
        return out

    @staticmethod
    def _t(k):
        return (k[0], tuple(sorted(k[1])))

    def get_edges(self, time_window=None, order=None, size=None, up_to=False, metadata=False):
        ks = self._sel(time_window, order, size, up_to)
        if metadata:
            return {self._t(k): self.edges[k][1] for k in ks}
        return [self._t(k) for k in ks]

    def num_edges(self, order=None, size=None, up_to=False):
        return len(self._sel(None, order, size, up_to))

    def __len__(self):
        return len(self.edges)

    def check_edge(self, e, t):
        return (t, frozenset(e)) in self.edges

    def get_weight(self, e, t):
        return self.edges[(t, frozenset(e))][0]

    def get_edge_metadata(self, e, t):
        return self.edges[(t, frozenset(e))][1]

    def get_weights(self, order=None, size=None, up_to=False, asdict=False):
        ks = self._sel(None, order, size, up_to)
        if asdict:
            return {self._t(k): self.edges[k][0] for k in ks}
        return [self.edges[k][0] for k in ks]

    def get_times_for_edge(self, e):
        fs = frozenset(e)
        return [k[0] for k in self.edges if k[1] == fs]

    def min_time(self):
        return min(k[0] for k in self.edges)

    def max_time(self):
        return max(k[0] for k in self.edges)

    def get_incident_edges(self, n, order=None, size=None):
        return [self._t(k) for k in self._sel(None, order, size) if n in k[1]]

    def get_neighbors(self, n, order=None, size=None):
        out = set()
        for k in self._sel(None, order, size):
            if n in k[1]:
                out |= k[1]
        out.discard(n)
        return out

    def degree(self, n, order=None, size=None):
        return len(self.get_incident_edges(n, order, size))

    def degree_sequence(self, order=None, size=None):
        return {n: self.degree(n, order, size) for n in self.nodes}

    def degree_distribution(self, order=None, size=None):
        return dict(Counter(self.degree_sequence(order, size).values()))

    def get_sizes(self):
        return [len(k[1]) for k in self.edges]

    def get_orders(self):
        return [len(k[1]) - 1 for k in self.edges]

    def distribution_sizes(self):
        return dict(Counter(self.get_sizes()))

    def max_size(self):
        return max(self.get_sizes())

    def max_order(self):
        return self.max_size() - 1

    def is_uniform(self):
        return len(set(self.get_sizes())) <= 1

    def isolated_nodes(self, size=None, order=None):
        return [n for n in self.nodes if not self.get_neighbors(n, order, size)]

    def is_isolated(self, n, size=None, order=None):
        return not self.get_neighbors(n, order, size)

    def get_node_metadata(self, n):
        return self.nodes[n]


def _setof(x):
    x = list(x)
    s = set(x)
    if len(s) != len(x):
        raise Violation("neighbour listing repeats a node: %r" % (x,))
    return s


def observe(h, U, probes, real):
    if real:
        from hypergraphx.measures.degree import degree as m_degree
        from hypergraphx.measures.degree import degree_sequence as m_dseq
    else:
        m_degree = lambda g, n, **kw: g.degree(n, **kw)  # noqa
        m_dseq = lambda g, **kw: g.degree_sequence(**kw)  # noqa
    o = {}
    nodes = list(h.get_nodes())
    o["get_nodes"] = Counter(nodes)
    o["num_nodes"] = h.num_nodes()
    o["is_weighted"] = h.is_weighted()
    o["check_node"] = {u: h.check_node(u) for u in U}
    edges = [crec(e) for e in h.get_edges()]
    o["get_edges"] = Counter(edges)
    o["num_edges"] = h.num_edges()
    o["len"] = len(h)
    o["get_weights"] = Counter(h.get_weights())
    o["get_weights_dict"] = {crec(k): v for k, v in h.get_weights(asdict=True).items()}
    o["edges_meta"] = {crec(k): dc(v) for k, v in h.get_edges(metadata=True).items()}
    for k in SIZES:
        for up_to in (False, True):
            for kw in ({"size": k}, {"order": k - 1}):
                tag = (tuple(kw.items())[0], up_to)
                o[("get_edges", tag)] = Counter(crec(e) for e in h.get_edges(up_to=up_to, **kw))
                o[("num_edges", tag)] = h.num_edges(up_to=up_to, **kw)
                o[("get_weights", tag)] = Counter(h.get_weights(up_to=up_to, **kw))
                o[("get_weights_dict", tag)] = {
                    crec(a): b for a, b in h.get_weights(up_to=up_to, asdict=True, **kw).items()}
    # every window over the grid, including a >= b
    win = {}
    for a in TGRID:
        for b in TGRID:
            win[(a, b)] = Counter(crec(e) for e in h.get_edges(time_window=(a, b)))
            if a < b and (a + b) % 2 == 0:
                for k in (1, 2, 3):
                    win[(a, b, "size", k)] = Counter(
                        crec(e) for e in h.get_edges(time_window=(a, b), size=k))
                    win[(a, b, "order<=", k - 1)] = Counter(
                        crec(e) for e in h.get_edges(time_window=(a, b), order=k - 1, up_to=True))
                    win[(a, b, "size<=", k)] = Counter(
                        crec(e) for e in h.get_edges(time_window=(a, b), size=k, up_to=True))
                    win[(a, b, "order", k - 1)] = Counter(
                        crec(e) for e in h.get_edges(time_window=(a, b), order=k - 1))
    o["get_edges(time_window)"] = win
    o["window_meta"] = {crec(k): dc(v) for k, v in
                        h.get_edges(time_window=(1, 5), metadata=True).items()}
    o["check_edge"], o["get_weight"], o["edge_meta"], o["times_for_edge"] = {}, {}, {}, {}
    eset = set(edges)
    for p in list(probes) + [e for e in edges if e not in probes]:
        t, ns = p
        rn = tuple(reversed(ns))
        o["check_edge"][p] = h.check_edge(rn, t)
        o["times_for_edge"][ns] = Counter(h.get_times_for_edge(rn))
        if p in eset:
            o["get_weight"][p] = h.get_weight(rn, t)
            o["edge_meta"][p] = dc(h.get_edge_metadata(rn, t))
    if edges:
        o["min_time"] = h.min_time()
        o["max_time"] = h.max_time()
        o["max_size"] = h.max_size()
        o["max_order"] = h.max_order()
    inc, nei, deg, mdeg, iso, nmeta = ({} for _ in range(6))
    for n0 in nodes:
        n = clone_label(n0)   # equal label, other object: found by equality
        inc[n] = {None: Counter(crec(e) for e in h.get_incident_edges(n))}
        nei[n] = {None: _setof(h.get_neighbors(n))}
        deg[n] = {None: h.degree(n)}
        mdeg[n] = {None: m_degree(h, n)}
        for k in SIZES:
            for kw in ({"size": k}, {"order": k - 1}):
                tag = tuple(kw.items())[0]
                inc[n][tag] = Counter(crec(e) for e in h.get_incident_edges(n, **kw))
                nei[n][tag] = _setof(h.get_neighbors(n, **kw))
                deg[n][tag] = h.degree(n, **kw)
            mdeg[n][("size", k)] = m_degree(h, n, size=k)
            mdeg[n][("order", k - 1)] = m_degree(h, n, order=k - 1)
        iso[n] = {None: h.is_isolated(n), ("size", 2): h.is_isolated(n, size=2),
                  ("order", 2): h.is_isolated(n, order=2)}
        nmeta[n] = dc(h.get_node_metadata(n))
    o["get_incident_edges"], o["get_neighbors"], o["degree"] = inc, nei, deg
    o["measures.degree"], o["is_isolated"], o["node_meta"] = mdeg, iso, nmeta
    o["nodes_meta"] = {k: dc(v) for k, v in nodes_with_metadata(h).items()}
    o["degree_sequence"] = {None: dict(h.degree_sequence())}
    o["degree_distribution"] = {None: dict(h.degree_distribution())}
    o["measures.degree_sequence"] = dict(m_dseq(h))
    for k in SIZES:
        o["degree_sequence"][("size", k)] = dict(h.degree_sequence(size=k))
        o["degree_sequence"][("order", k - 1)] = dict(h.degree_sequence(order=k - 1))
        o["degree_distribution"][("size", k)] = dict(h.degree_distribution(size=k))
        o["degree_distribution"][("order", k - 1)] = dict(h.degree_distribution(order=k - 1))
        o[("measures.degree_sequence", "size", k)] = dict(m_dseq(h, size=k))
        o[("measures.degree_sequence", "order", k - 1)] = dict(m_dseq(h, order=k - 1))
        o[("isolated_nodes", "size", k)] = Counter(h.isolated_nodes(size=k))
        o[("isolated_nodes", "order", k - 1)] = Counter(h.isolated_nodes(order=k - 1))
    o["isolated_nodes"] = Counter(h.isolated_nodes())
    o["get_sizes"] = Counter(h.get_sizes())
    o["get_orders"] = Counter(h.get_orders())
    o["distribution_sizes"] = dict(h.distribution_sizes())
    o["is_uniform"] = h.is_uniform()
    return o


class TemporalAdapter(H.Adapter):
    name = "TemporalHypergraph"
    has_remove_edges = False
    empty_shrink_excluded = False
    alt_keys = ("nodes_meta", "node_meta", "edges_meta", "edge_meta", "window_meta")
    cur_op = None

    def _time(self, spec):
        t = spec["t"]
        if isinstance(t, dict):  # {"bad": i}
            if self.cur_op in ("add_edge", "add_edges"):
                return BAD_TIMES[t["bad"] % len(BAD_TIMES)]
            return t["bad"] % 7
        return t

    def fresh_record(self, spec, U):
        return {"e": dedupe([U[i % len(U)] for i in spec["ns"]]), "t": self._time(spec)}

    def record_of_key(self, key, perm):
        return {"e": permuted(sorted(key[1]), perm), "t": key[0]}

    def variant_of_key(self, key, spec, U):
        # the same node set at another time
        return {"e": permuted(sorted(key[1]), spec["perm"]), "t": self._time(spec)}

    def sanitize_batch(self, es, model):
        # an invalid time fails inside the loop: keep it only in first position
        return [r for i, r in enumerate(es) if i == 0 or valid_time(r["t"])]

    def ambiguous_weighted_batch(self, es):
        if self.permuted_repeat(es):
            return True
        seen = {}
        for r in es:
            tok = tuple(r["e"])
            if tok in seen and seen[tok] != repr(r["t"]):
                return True
            seen[tok] = repr(r["t"])
        return False

    def batch_dup_token(self, rec):
        return tuple(rec["e"])

    def key_of(self, rec):
        return (rec["t"], frozenset(rec["e"]))

    def probe_of_key(self, key):
        return (key[0], tuple(sorted(key[1])))

    def sort_key(self, key):
        return (key[0], len(key[1]), sorted(key[1]))

    def new_model(self, weighted):
        return RefTemporal(weighted)

    def construct(self, weighted, recs, ws, metas, node_meta, hg_meta):
        from hypergraphx import TemporalHypergraph
        kw = {"weighted": True} if weighted else {}   # the documented default is unweighted
        if hg_meta is not None:
            kw["hypergraph_metadata"] = hg_meta
        if node_meta is not None:
            kw["node_metadata"] = node_meta
        if recs:
            if len(recs) % 2:
                # the documented alternative: (time, edge) pairs and no time_list
                kw["edge_list"] = [(r["t"], tuple(r["e"])) for r in recs]
            else:
                kw["edge_list"] = [tuple(r["e"]) for r in recs]
                kw["time_list"] = [r["t"] for r in recs]
            if ws is not None:
                kw["weights"] = ws
            if metas is not None:
                kw["edge_metadata"] = metas
        return TemporalHypergraph(**kw)

    def r_add_edge(self, h, r, w, meta):
        kw = {}
        if w is not None:
            kw["weight"] = w
        if meta is not None:
            kw["metadata"] = meta
        h.add_edge(tuple(r["e"]), r["t"], **kw)

    def r_add_edges(self, h, rs, ws, metas):
        kw = {}
        if ws is not None:
            kw["weights"] = ws
        if metas is not None:
            kw["metadata"] = metas
        h.add_edges([tuple(r["e"]) for r in rs], [r["t"] for r in rs], **kw)

    def r_remove_edge(self, h, r):
        h.remove_edge(tuple(r["e"]), r["t"])

    def r_set_weight(self, h, r, w):
        h.set_weight(tuple(r["e"]), r["t"], w)

    def r_set_edge_metadata(self, h, r, meta):
        h.set_edge_metadata(tuple(r["e"]), r["t"], meta)

    def r_get_edge_metadata(self, h, r):
        return h.get_edge_metadata(tuple(r["e"]), r["t"])

    def r_set_attr_edge(self, h, r, f, v):
        h.set_attr_to_edge_metadata(tuple(r["e"]), r["t"], f, v)

    def r_remove_attr_edge(self, h, r, f):
        h.remove_attr_from_edge_metadata(tuple(r["e"]), r["t"], f)

    def observe(self, h, U, probes, real):
        return observe(h, U, probes, real)

    # ---- derived objects: snapshots and aggregation
    def rejection_must_raise(self, c):
        """'non-integer or negative times are rejected': an insertion with such a time raises."""
        if c["op"] == "add_edge":
            return not valid_time(c["e"]["t"])
        if c["op"] == "add_edges" and c["es"]:
            return not valid_time(c["es"][0]["t"])
        return False

    def _constructor_rejects_bad_times(self, U, model, ctx):
        from hypergraphx import TemporalHypergraph
        nodes = tuple(U[:2])
        for j, bad in enumerate(BAD_TIMES):
            kw = ({"edge_list": [nodes], "time_list": [bad]} if j % 2 else
                  {"edge_list": [(bad, nodes)]})
            if model.weighted:
                kw.update(weighted=True, weights=[2])
            try:
                TemporalHypergraph(**kw)
            except (TypeError, ValueError):
                continue
            raise Violation("TemporalHypergraph(%s) accepted the time %r"
                            % (", ".join("%s=%r" % kv for kv in kw.items()), bad),
                            key="constructor-accepts-bad-time")
        ctx.label("constructor_bad_times_checked")

    def extra_checks(self, h, model, U, step, ctx, final):
        if step == -1:
            self._constructor_rejects_bad_times(U, model, ctx)
        if not final and step % 6 != 5:
            return False
        recs = {k: v[0] for k, v in model.edges.items()}
        times = sorted({k[0] for k in recs})
        # snapshots, no window and two windows
        wins = [None]
        if times:
            wins += [(times[0], times[-1]), (times[0] + 1, times[-1] + 1), (3, 3), (4, 2)]
        for j, w in enumerate(wins):
            # the same claims hold with add_all_nodes=True (the node sets are not compared)
            flag = {"add_all_nodes": True} if (step + j) % 2 else {}
            snaps = h.subhypergraph(**flag) if w is None else h.subhypergraph(time_window=w, **flag)
            want_times = [t for t in times if w is None or w[0] <= t < w[1]]
            require(sorted(snaps.keys()) == want_times,
                    lambda: "subhypergraph(%r) has times %r, records exist at %r"
                    % (w, sorted(snaps.keys()), want_times), key="snapshot-times")
            for t in want_times:
                s = snaps[t]
                want = {tuple(sorted(k[1])): v for k, v in recs.items() if k[0] == t}
                got = Counter(cedge(e) for e in s.get_edges())
                require(got == Counter(want.keys()),
                        lambda: "snapshot at time %r (window %r) has hyperedges %r, expected %r"
                        % (t, w, dict(got), sorted(want)), key="snapshot-edges")
                require(s.is_weighted() == model.weighted, "snapshot weightedness differs")
                for e, wt in want.items():
                    require(s.get_weight(e) == wt,
                            lambda: "snapshot at time %r: weight of %r is %r, expected %r"
                            % (t, e, s.get_weight(e), wt), key="snapshot-weight")
            if want_times:
                ctx.label("snapshot_checked")
        # aggregation
        if not times:
            agg = h.aggregate(2)
            require(len(agg) == 0 or all(len(g.get_edges()) == 0 for g in agg.values()),
                    "aggregate() of a hypergraph without hyperedges contains hyperedges")
            return True
        tmax = times[-1]
        for width in range(1, tmax + 3):
            agg = h.aggregate(width)
            n_win = tmax // width + 1
            require(sorted(agg.keys()) == list(range(n_win)),
                    lambda: "aggregate(%d): windows %r, expected 0..%d (max time %d)"
                    % (width, sorted(agg.keys()), n_win - 1, tmax), key="aggregate-windows")
            for kidx in range(n_win):
                g = agg[kidx]
                lo, hi = kidx * width, (kidx + 1) * width
                want = {}
                repeat = False
                for (t, fs), wt in recs.items():
                    if lo <= t < hi:
                        e = tuple(sorted(fs))
                        if e in want:
                            repeat = True
                            want[e] = want[e] + wt if model.weighted else 1
                        else:
                            want[e] = wt
                got = Counter(cedge(e) for e in g.get_edges())
                require(got == Counter(want.keys()),
                        lambda: "aggregate(%d) window %d [%d,%d): hyperedges %r, expected %r"
                        % (width, kidx, lo, hi, dict(got), sorted(want)), key="aggregate-edges")
                for e, wt in want.items():
                    require(g.get_weight(e) == wt,
                            lambda: "aggregate(%d) window %d: weight of %r is %r, expected %r"
                            % (width, kidx, e, g.get_weight(e), wt), key="aggregate-weight")
                require(Counter(g.get_nodes()) == Counter(model.nodes.keys()),
                        lambda: "aggregate(%d) window %d: nodes %r, expected all nodes %r"
                        % (width, kidx, sorted(g.get_nodes(), key=repr),
                           sorted(model.nodes, key=repr)), key="aggregate-nodes")
                # (node metadata inside the windows: not claimed -- 'contain all nodes')
                require(g.is_weighted() == model.weighted, "aggregated weightedness differs")
                if repeat:
                    ctx.label("aggregate_window_with_repeat")
                    ctx.nontrivial()
        return True


ADAPTER = TemporalAdapter()


def check_history(case, ctx):
    model = H.check_history(ADAPTER, case, ctx)
    by_nodes = Counter(k[1] for k in model.edges)
    if any(v >= 2 for v in by_nodes.values()):
        ctx.label("same_nodes_at_two_times(final)")


KINDS = [k for k in H.KINDS if k != "remove_edges"]
# times: mostly small valid integers (collisions wanted), sometimes an invalid one
T_STRATEGY = st.integers(0, 11).flatmap(
    lambda i: st.fixed_dictionaries({"bad": st.integers(0, 20)}) if i == 0 else st.integers(0, 6))


def _strategy(tier):
    return H.histories(24 if tier == "quick" else 40, kinds=KINDS, t_strategy=T_STRATEGY,
                       init_t_strategy=st.integers(0, 6))


CLAUSES = [
    Clause(
        "history", _strategy, check_history, quick=120, thorough=2000, shards_quick=4,
        rule="history with a removal and a re-insertion/shrink, or an aggregation window that "
             "contains the same node set at two times; distinct by canonical JSON of the case",
    ),
]
