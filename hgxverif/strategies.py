"""Common Hypothesis strategies.  Everything they produce is JSON-serialisable."""

from hypothesis import strategies as st

# non-contiguous, partly negative: a lookup by matrix index instead of label fails
# -1 and -2 hash alike in CPython; 1000 is not an interned small int (an equal label need
# not be the same object)
INT_POOL = [-3, 0, 2, 7, 10, 11, 40, 5, 1, 23, -1, -2, 1000]
# lexicographic order differs from numeric order; mixed case; contain "E"/"N"
STR_POOL = ["a", "B", "10", "2", "E1", "N0", "b", "Z", "Ex", "n"]

# numeric labels that are not all integers (mutually comparable, no two numerically equal)
FLOAT_POOL = [0, 0.5, 1, 1.5, 4, 2.5, -1.5, 3, 7.25]

ATTRS = ["color", "k", "role", "x"]


@st.composite
def universes(draw, min_size=3, max_size=8, kinds=("ints", "strs", "range")):
    kind = draw(st.sampled_from(list(kinds)))
    if kind == "range":
        n = draw(st.integers(min_size, max_size))
        return {"kind": kind, "labels": list(range(n))}
    if kind == "floats":
        # half of the time a "compact" set: N numbers, some of them non-integers, whose range
        # is exactly N-1 (looks like a contiguous integer range to a careless shortcut)
        if draw(st.booleans()):
            n = draw(st.integers(max(3, min_size), max(3, min(max_size, 6))))
            inner = draw(st.lists(st.sampled_from([0.5, 1.5, 2.5, 3.5, 1, 2, 3, 4]),
                                  min_size=n - 2, max_size=n - 2, unique=True))
            inner = [x for x in inner if 0 < x < n - 1]
            labels = [0] + inner + [n - 1]
            if any(isinstance(x, float) for x in labels) and len(labels) >= min_size:
                # the range equals len-1 only if nothing was filtered out
                return {"kind": kind, "labels": draw(st.permutations(labels))}
        labels = draw(st.lists(st.sampled_from(FLOAT_POOL), min_size=min_size,
                               max_size=min(max_size, len(FLOAT_POOL)), unique=True))
        return {"kind": kind, "labels": labels}
    pool = INT_POOL if kind == "ints" else STR_POOL
    labels = draw(st.lists(st.sampled_from(pool), min_size=min_size,
                           max_size=min(max_size, len(pool)), unique=True))
    return {"kind": kind, "labels": labels}


json_scalars = st.one_of(
    st.none(), st.booleans(), st.integers(-3, 9),
    st.sampled_from([0.5, -1.25, 2.0, 1e-3]),
    st.sampled_from(["", "red", "blue", "A", "x y"]),
)
json_values = st.one_of(
    json_scalars,
    st.lists(json_scalars, max_size=2),
    st.dictionaries(st.sampled_from(["p", "q"]), json_scalars, max_size=2),
)


def metadata(max_size=2):
    """A metadata dict: str keys from a small pool -> JSON values."""
    return st.dictionaries(st.sampled_from(ATTRS), json_values, max_size=max_size)


def opt_metadata():
    return st.one_of(st.none(), metadata())


def subsets(n, min_size=1, max_size=5):
    """A list of distinct indices into a universe of n labels (order matters:
    it is the order in which the nodes are listed in the call)."""
    return st.lists(st.integers(0, n - 1), min_size=min_size,
                    max_size=min(max_size, n), unique=True)


weights_int = st.integers(1, 9)
seeds = st.integers(0, 2**31 - 1)


@st.composite
def edge_sets(draw, n, min_edges=0, max_edges=10, min_size=1, max_size=5):
    """A list of distinct node-index sets (each listed in a drawn order)."""
    es = draw(st.lists(subsets(n, min_size, max_size), min_size=min_edges,
                       max_size=max_edges, unique_by=lambda e: tuple(sorted(e))))
    return es
