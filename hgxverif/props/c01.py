"""C01 -- Hypergraph answers every query as the abstract hypergraph of its history.

Model-based history testing (generic machine in hgxverif/history.py).  After
every step the complete public observation of the real object must equal the
observation of the reference model (RefHypergraph: a set of nodes plus a map
node set -> [weight, metadata]).
"""

from collections import Counter

from .. import history as H
from ..common import cedge, dc, dedupe, permuted
from ..common import nodes_with_metadata, clone_label
from ..engine import Clause, Violation

ASSUMPTIONS = [
    "oracle = RefHypergraph (plain dict/set reference model in hgxverif/props/c01.py + history.RefBase)",
    "unspecified corners are value sets (metadata of a re-inserted hyperedge, of a node "
    "re-added with metadata, of a merged hyperedge, hypergraph metadata after clear) or "
    "excluded and counted (keep_edges=True removal of a node with a singleton hyperedge, "
    "weights passed to add_edges of an unweighted hypergraph, failing element inside a "
    "remove_edges/remove_nodes batch other than the first)",
    "labels of one universe are mutually comparable; hyperedges list distinct nodes",
]

SIZES = H.SIZES

# --------------------------------------------------------------------------
# reference model


class RefHypergraph(H.RefBase):
    """key = frozenset of nodes"""

    def nodes_of(self, key):
        return key

    def shrink(self, key, n):
        new = key - {n}
        return new if new else None

    # ---- queries (same signatures as the library)
    def is_weighted(self):
        return self.weighted

    def get_nodes(self, metadata=False):
        if not metadata:
            return list(self.nodes)
        return dict(self.nodes)

    def num_nodes(self):
        return len(self.nodes)

    def check_node(self, n):
        return n in self.nodes

    def _sel(self, order=None, size=None, up_to=False):
        if order is not None and size is not None:
            raise ValueError
        if size is not None:
            order = size - 1
        out = []
        for e in self.edges:
            if order is None or (len(e) - 1 <= order if up_to else len(e) - 1 == order):
                out.append(e)
        return out

    def get_edges(self, order=None, size=None, up_to=False, metadata=False):
        es = self._sel(order, size, up_to)
        if metadata:
            return {tuple(sorted(e)): self.edges[e][1] for e in es}
        return [tuple(sorted(e)) for e in es]

    def num_edges(self, order=None, size=None, up_to=False):
        return len(self._sel(order, size, up_to))

    def check_edge(self, e):
        return frozenset(e) in self.edges

    def get_weight(self, e):
        return self.edges[frozenset(e)][0]

    def get_weights(self, order=None, size=None, up_to=False, asdict=False):
        es = self._sel(order, size, up_to)
        if asdict:
            return {tuple(sorted(e)): self.edges[e][0] for e in es}
        return [self.edges[e][0] for e in es]

    def get_incident_edges(self, n, order=None, size=None):
        return [tuple(sorted(e)) for e in self._sel(order, size) if n in e]

    def get_neighbors(self, n, order=None, size=None):
        out = set()
        for e in self._sel(order, size):
            if n in e:
                out |= e
        out.discard(n)
        return out

    def degree(self, n, order=None, size=None):
        return len(self.get_incident_edges(n, order, size))

    def degree_sequence(self, order=None, size=None):
        return {n: self.degree(n, order, size) for n in self.nodes}

    def degree_distribution(self, order=None, size=None):
        return dict(Counter(self.degree_sequence(order, size).values()))

    def get_sizes(self):
        return [len(e) for e in self.edges]

    def get_orders(self):
        return [len(e) - 1 for e in self.edges]

    def distribution_sizes(self):
        return dict(Counter(self.get_sizes()))

    def max_size(self):
        return max(self.get_sizes())

    def max_order(self):
        return self.max_size() - 1

    def is_uniform(self):
        return len(set(self.get_sizes())) <= 1

    def isolated_nodes(self):
        return [n for n in self.nodes if not self.get_neighbors(n)]

    def is_isolated(self, n):
        return not self.get_neighbors(n)

    def get_node_metadata(self, n):
        return self.nodes[n]

    def get_edge_metadata(self, e):
        return self.edges[frozenset(e)][1]

    def __len__(self):
        return len(self.edges)


# --------------------------------------------------------------------------
# observation through the public API (works on the real object and on the model)

ALT_KEYS = ("nodes_meta", "node_meta", "edges_meta", "edge_meta")


def observe(h, universe, probes, real):
    if real:
        from hypergraphx.measures.degree import degree as m_degree
        from hypergraphx.measures.degree import degree_sequence as m_degree_sequence
        from hypergraphx.measures.degree import degree_distribution as m_degree_dist
    else:
        m_degree = lambda g, n, **kw: g.degree(n, **kw)  # noqa
        m_degree_sequence = lambda g, **kw: g.degree_sequence(**kw)  # noqa
        m_degree_dist = lambda g, **kw: g.degree_distribution(**kw)  # noqa
    o = {}
    nodes = list(h.get_nodes())
    o["get_nodes"] = Counter(nodes)
    o["num_nodes"] = h.num_nodes()
    o["is_weighted"] = h.is_weighted()
    o["check_node"] = {u: h.check_node(u) for u in universe}
    edges = [cedge(e) for e in h.get_edges()]
    o["get_edges"] = Counter(edges)
    o["num_edges"] = h.num_edges()
    o["len"] = len(h)
    o["get_weights"] = Counter(h.get_weights())
    o["get_weights_dict"] = {cedge(k): v for k, v in h.get_weights(asdict=True).items()}
    o["edges_meta"] = {cedge(k): dc(v) for k, v in h.get_edges(metadata=True).items()}
    for k in SIZES:
        for up_to in (False, True):
            for kw in ({"size": k}, {"order": k - 1}):
                tag = (tuple(kw.items())[0], up_to)
                o[("get_edges", tag)] = Counter(cedge(e) for e in h.get_edges(up_to=up_to, **kw))
                o[("num_edges", tag)] = h.num_edges(up_to=up_to, **kw)
                o[("get_weights", tag)] = Counter(h.get_weights(up_to=up_to, **kw))
                o[("get_weights_dict", tag)] = {
                    cedge(a): b for a, b in h.get_weights(up_to=up_to, asdict=True, **kw).items()}
                o[("edges_meta", tag)] = {
                    cedge(a): dc(b)
                    for a, b in h.get_edges(metadata=True, up_to=up_to, **kw).items()}
        # the documented default: up_to omitted means exactly that size
        o[("get_edges", "up_to omitted", k)] = Counter(cedge(e) for e in h.get_edges(size=k))
        o[("num_edges", "up_to omitted", k)] = h.num_edges(order=k - 1)
        o[("get_weights", "up_to omitted", k)] = Counter(h.get_weights(size=k))
    o["check_edge"] = {}
    o["get_weight"] = {}
    o["edge_meta"] = {}
    eset = set(edges)
    for p in probes:
        rp = tuple(reversed(p))
        o["check_edge"][p] = h.check_edge(rp)
        if p in eset:
            o["get_weight"][p] = h.get_weight(rp)
            o["edge_meta"][p] = dc(h.get_edge_metadata(rp))
    for e in edges:
        if e not in o["get_weight"]:
            o["check_edge"][e] = h.check_edge(e)
            o["get_weight"][e] = h.get_weight(e)
            o["edge_meta"][e] = dc(h.get_edge_metadata(e))
    inc, nei, deg, mdeg, iso, nmeta = {}, {}, {}, {}, {}, {}
    for n0 in nodes:
        n = clone_label(n0)   # equal label, other object: found by equality
        inc[n] = {None: Counter(cedge(e) for e in h.get_incident_edges(n))}
        nei[n] = {None: _setof(h.get_neighbors(n))}
        deg[n] = {None: h.degree(n)}
        mdeg[n] = {None: m_degree(h, n)}
        for k in SIZES:
            inc[n][("size", k)] = Counter(cedge(e) for e in h.get_incident_edges(n, size=k))
            inc[n][("order", k - 1)] = Counter(
                cedge(e) for e in h.get_incident_edges(n, order=k - 1))
            nei[n][("size", k)] = _setof(h.get_neighbors(n, size=k))
            nei[n][("order", k - 1)] = _setof(h.get_neighbors(n, order=k - 1))
            deg[n][("size", k)] = h.degree(n, size=k)
            deg[n][("order", k - 1)] = h.degree(n, order=k - 1)
            mdeg[n][("size", k)] = m_degree(h, n, size=k)
        iso[n] = h.is_isolated(n)
        nmeta[n] = dc(h.get_node_metadata(n))
    o["get_incident_edges"] = inc
    o["get_neighbors"] = nei
    o["degree"] = deg
    o["measures.degree"] = mdeg
    o["is_isolated"] = iso
    o["node_meta"] = nmeta
    o["nodes_meta"] = {k: dc(v) for k, v in nodes_with_metadata(h).items()}
    o["degree_sequence"] = {None: dict(h.degree_sequence())}
    o["degree_distribution"] = {None: dict(h.degree_distribution())}
    o["measures.degree_sequence"] = dict(m_degree_sequence(h))
    o["measures.degree_distribution"] = dict(m_degree_dist(h))
    for k in SIZES:
        o["degree_sequence"][("size", k)] = dict(h.degree_sequence(size=k))
        o["degree_sequence"][("order", k - 1)] = dict(h.degree_sequence(order=k - 1))
        o["degree_distribution"][("size", k)] = dict(h.degree_distribution(size=k))
    o["isolated_nodes"] = Counter(h.isolated_nodes())
    o["get_sizes"] = Counter(h.get_sizes())
    o["get_orders"] = Counter(h.get_orders())
    o["distribution_sizes"] = dict(h.distribution_sizes())
    if edges:
        o["max_size"] = h.max_size()
        o["max_order"] = h.max_order()
    o["is_uniform"] = h.is_uniform()
    return o


def _setof(x):
    x = list(x)
    s = set(x)
    if len(s) != len(x):
        raise Violation("neighbour listing repeats a node: %r" % (x,))
    return s


class HypergraphAdapter(H.Adapter):
    name = "Hypergraph"

    def fresh_record(self, spec, U):
        return dedupe([U[i % len(U)] for i in spec["ns"]])

    def record_of_key(self, key, perm):
        return permuted(sorted(key), perm)

    def key_of(self, rec):
        return frozenset(rec)

    def probe_of_key(self, key):
        return tuple(sorted(key))

    other_containers = True

    def batch_dup_token(self, rec):
        return tuple(rec)

    def sort_key(self, key):
        return (len(key), sorted(key))

    def new_model(self, weighted):
        return RefHypergraph(weighted)

    def construct(self, weighted, recs, ws, metas, node_meta, hg_meta):
        from hypergraphx import Hypergraph
        kw = {"weighted": True} if weighted else {}   # the documented default is unweighted
        if hg_meta is not None:
            kw["hypergraph_metadata"] = hg_meta
        if node_meta is not None:
            kw["node_metadata"] = node_meta
        if recs:
            kw["edge_list"] = [tuple(r) for r in recs]
            if ws is not None:
                kw["weights"] = ws
            if metas is not None:
                kw["edge_metadata"] = metas
        return Hypergraph(**kw)

    def r_add_edge(self, h, e, w, meta):
        kw = {}
        if w is not None:
            kw["weight"] = w
        if meta is not None:
            kw["metadata"] = meta
        conv = {"list": list, "frozenset": frozenset}.get(self.container, tuple)
        h.add_edge(conv(e), **kw)

    def r_add_edges(self, h, es, ws, metas):
        kw = {}
        if ws is not None:
            kw["weights"] = ws
        if metas is not None:
            kw["metadata"] = metas
        h.add_edges([tuple(e) for e in es], **kw)

    def r_remove_edge(self, h, e):
        h.remove_edge(tuple(e))

    def r_remove_edges(self, h, es):
        h.remove_edges([tuple(e) for e in es])

    def r_set_weight(self, h, e, w):
        h.set_weight(tuple(e), w)

    def r_set_edge_metadata(self, h, e, meta):
        h.set_edge_metadata(tuple(e), meta)

    def r_get_edge_metadata(self, h, e):
        return h.get_edge_metadata(tuple(e))

    def r_set_attr_edge(self, h, e, f, v):
        h.set_attr_to_edge_metadata(tuple(e), f, v)

    def r_remove_attr_edge(self, h, e, f):
        h.remove_attr_from_edge_metadata(tuple(e), f)

    def observe(self, h, U, probes, real):
        return observe(h, U, probes, real)


ADAPTER = HypergraphAdapter()


def check_history(case, ctx):
    H.check_history(ADAPTER, case, ctx)


def _strategy(tier):
    return H.histories(30 if tier == "quick" else 50)


CLAUSES = [
    Clause(
        "history", _strategy, check_history, quick=150, thorough=3000, shards_quick=4,
        rule="history with at least one removal (edge or node) and at least one re-insertion of "
             "an existing hyperedge key or a keep_edges=True shrink; distinct by canonical JSON "
             "of the whole case",
    ),
]
