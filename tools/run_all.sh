#!/bin/bash
# usage: run_all.sh <tier> <seed> [ids...]   runs the checks sequentially, prints one line per property
tier=$1; seed=$2; shift 2
ids="$@"; [ -z "$ids" ] && ids=$(python3 -c "import json;print(' '.join(c['property_id'] for c in json.load(open('/verif/MANIFEST.json'))['checks']))")
cd /verif
for p in $ids; do
  out=$(PYTHONHASHSEED=0 VERIF_SEED=$seed /venv/bin/python -m hgxverif.run $p --tier $tier 2>&1); rc=$?
  echo "$p seed=$seed exit=$rc $(echo "$out" | grep -E "^$p $tier" | head -1)"
  echo "$out" | grep -E "VIOLATION|KNOWN-FINDING|HARNESS" | head -5
done
