"""C11 -- motif census = exhaustive enumeration, relabelling / insertion-order invariant.

Undirected (``compute_motifs(h, order, runs_config_model=0)['observed']``):

  * the oracle visits every ``order``-subset of the nodes, takes the hyperedges of
    size >= 2 contained in it, keeps the subset when they connect all its nodes,
    and classifies the pattern by its canonical form = minimum over all node
    permutations; the reported counts must equal that census;
  * the reported keys, canonicalised by the *same oracle function*, must be in
    bijection with an independent enumeration of all connected patterns
    (2^4 candidate patterns for order 3, 2^11 for order 4 -> 6 and 171 classes);
  * metamorphic: permuting the labels, permuting the insertion order (and the
    order in which nodes are listed inside a hyperedge) and adding hyperedges
    larger than ``order`` must not change the census.

Directed (``compute_directed_motifs``): only what the statement claims --
invariance under relabelling and insertion order, every reported pattern is
its own canonical form (lexicographic minimum over node permutations), counts
are positive integers, each pattern is listed once, larger hyperedges are
ignored.  No exhaustive count is demanded (the statement makes none).

Table (``order34_table``): every connected labelled pattern on 3 / 4 positions (12 / 1990)
is realised once as its own node-disjoint block; the census must be the Counter of the
blocks' classes (finite case list, enumerated completely by the quick tier).

The null-model part of both functions is random and outside the property:
``runs_config_model=0``, except in ``observed_with_null_model`` where one sample is drawn
(RNGs seeded from the case) and only 'observed' is read.
"""

import itertools
import numbers
import random
from collections import Counter

from hypothesis import strategies as st

from ..engine import Clause, Violation, require
from ..common import with_history  # noqa: E402

ASSUMPTIONS = [
    "the configuration-model samples and norm_delta are random and outside the property: "
    "runs_config_model=0, except clause observed_with_null_model (runs_config_model=1, random "
    "and numpy.random seeded from the case, unweighted hypergraphs with at least two hyperedges "
    "of sizes 2..order and none of another size) where only the 'observed' entry is compared, "
    "with the exhaustive census",
    "order34_table: a hyperedge never leaves its block of `order` nodes, so a connected "
    "`order`-subset is exactly one block and the expected census is the Counter of the blocks' "
    "own canonical forms",
    "oracle = brute force over all order-subsets of the nodes with canonical form = minimum over "
    "all node permutations (own code, hgxverif/props/c11.py); class table = own enumeration of "
    "all 2^4 / 2^11 candidate patterns (6 / 171 connected classes)",
    "integer labels only (the quantifier says so; the ESU pass compares labels with >)",
    "hyperedges list distinct nodes; sizes 1..6; weights (when the hypergraph is weighted) are "
    "irrelevant to the census and never compared",
    "directed: disjoint non-empty source and target, total size 2..6, weighted or not (weights "
    "0.5..7 are no part of the isomorphism type), extra nodes in no hyperedge allowed; "
    "no exhaustive directed "
    "count is claimed by the statement, so none is checked; the only count check is an upper "
    "bound (a reported pattern must be the class of the induced pattern of at least `count` node "
    "subsets), node subsets the census does not visit are never an error",
]

# non-contiguous, partly negative integers (the property quantifies over integer labels)
INT_POOL = [-7, -3, -2, -1, 0, 1, 2, 5, 7, 10, 11, 23, 40, 41, 100]   # -1 and -2 hash alike in CPython

# --------------------------------------------------------------------------
# oracle: canonical forms, class table, brute-force census


def _canon_undirected(edges):
    """edges: iterable of iterables of arbitrary (sortable) node labels.
    Canonical form: relabel the nodes 0..k-1 and take the minimum, over all
    permutations, of the sorted tuple of sorted hyperedges."""
    edges = [tuple(e) for e in edges]
    nodes = sorted({v for e in edges for v in e})
    idx = {v: i for i, v in enumerate(nodes)}
    base = frozenset(frozenset(idx[v] for v in e) for e in edges)
    return _canon_idx(base, len(nodes))


_CANON_CACHE = {}


def _canon_idx(pattern, k):
    key = (pattern, k)
    got = _CANON_CACHE.get(key)
    if got is None:
        best = None
        for p in itertools.permutations(range(k)):
            cand = tuple(sorted(tuple(sorted(p[v] for v in e)) for e in pattern))
            if best is None or cand < best:
                best = cand
        got = _CANON_CACHE[key] = best
    return got


def _connects(edges, nodes):
    """Do the hyperedges (sets) connect all the given nodes?"""
    nodes = set(nodes)
    if not nodes:
        return False
    comp = {v: v for v in nodes}

    def find(v):
        while comp[v] != v:
            comp[v] = comp[comp[v]]
            v = comp[v]
        return v

    for e in edges:
        e = list(e)
        for v in e[1:]:
            a, b = find(e[0]), find(v)
            if a != b:
                comp[a] = b
    return len({find(v) for v in nodes}) == 1


_CLASSES = {}


def classes(order):
    """Independent enumeration of the isomorphism classes of connected patterns."""
    if order not in _CLASSES:
        cand = [frozenset(c) for r in range(2, order + 1)
                for c in itertools.combinations(range(order), r)]
        out = set()
        for mask in range(1 << len(cand)):
            pat = frozenset(cand[i] for i in range(len(cand)) if mask >> i & 1)
            if _connects(pat, range(order)):
                out.add(_canon_idx(pat, order))
        _CLASSES[order] = out
    return _CLASSES[order]


def brute_census(edge_sets, order):
    """edge_sets: set of frozensets of labels.  Returns Counter canonical class -> count."""
    es = [e for e in edge_sets if 2 <= len(e) <= order]
    nodes = sorted({v for e in es for v in e})
    out = Counter()
    for sub in itertools.combinations(nodes, order):
        s = set(sub)
        inside = [e for e in es if e <= s]
        if inside and _connects(inside, s):
            idx = {v: i for i, v in enumerate(sub)}
            out[_canon_idx(frozenset(frozenset(idx[v] for v in e) for e in inside), order)] += 1
    return out


# --------------------------------------------------------------------------
# running the library


def _abstract(case):
    """labels, list of hyperedges as label lists in the drawn listing order"""
    labels = case["labels"]
    return [[labels[i] for i in e] for e in case["edges"]]


@with_history
def _build(edge_lists, case, isolated=()):
    """A Hypergraph holding exactly these hyperedges (duplicates by node set are
    not generated), built through the constructor or through add_edge/add_edges."""
    from hypergraphx import Hypergraph
    how = case.get("build", "ctor")
    weighted = bool(case.get("weighted"))
    es = [tuple(e) for e in edge_lists]
    ws = [1 + (i * 7 + len(e)) % 5 for i, e in enumerate(es)]
    if how == "ctor":
        h = Hypergraph(edge_list=es, weighted=weighted, weights=ws if weighted else None)
    elif how == "add_edges":
        h = Hypergraph(weighted=weighted)
        if weighted:
            h.add_edges(es, weights=ws)
        else:
            h.add_edges(es)
    else:
        h = Hypergraph(weighted=weighted)
        for e, w in zip(es, ws):
            if weighted:
                h.add_edge(e, weight=w)
            else:
                h.add_edge(e)
    if isolated:
        h.add_nodes(list(isolated))
    return h


def _observed(h, order):
    from hypergraphx.motifs import compute_motifs
    out = compute_motifs(h, order=order, runs_config_model=0)
    require(isinstance(out, dict) and "observed" in out,
            lambda: "compute_motifs(order=%d, runs_config_model=0) returned %r, expected a dict "
                    "with key 'observed'" % (order, out), key="shape")
    return list(out["observed"])


def _by_class(observed, order, what):
    """{canonical class: count} of a reported census; a class reported twice or a
    malformed entry is a violation."""
    d = {}
    for ent in observed:
        require(isinstance(ent, (tuple, list)) and len(ent) == 2,
                lambda: "%s: entry %r is not a (pattern, count) pair" % (what, ent), key="shape")
        pat, cnt = ent
        require(isinstance(cnt, numbers.Integral) and not isinstance(cnt, bool) and cnt >= 0,
                lambda: "%s: count of pattern %r is %r, expected a non-negative int"
                        % (what, pat, cnt), key="count-type")
        c = _canon_undirected(pat)
        require(c not in d,
                lambda: "%s: the isomorphism class of %r is reported twice" % (what, pat),
                key="class-twice")
        d[c] = cnt
    return d


def _fmt(c):
    return "class %s" % (list(c),)


def _compare_census(obs, exp, what, order=None):
    """every class the census reports or the enumeration finds -- and, given the order, every
    class of connected patterns (each must be reported, with 0 when it does not occur)"""
    for c in sorted(set(obs) | set(exp) | (classes(order) if order else set())):
        o, e = obs.get(c), exp.get(c, 0)
        require(o == e,
                lambda: "%s: %s expected count %d (exhaustive enumeration), reported %s"
                        % (what, _fmt(c), e, "nothing" if o is None else o), key="count")


def _classify(ctx, exp, order, case):
    nz = len([c for c, n in exp.items() if n])
    if not case["edges"]:
        ctx.label("no_hyperedges")
    ctx.label("order=%d" % order,
              "classes_nonzero=%s" % (nz if nz < 6 else "6+"),
              "n_edges=%s" % ("<5" if len(case["edges"]) < 5 else "5-9" if len(case["edges"]) < 10
                              else "10+"))
    if case.get("profile") == "dense":
        ctx.label("dense_profile")
    big = max([len(c) for c, n in exp.items() if n], default=0)
    ctx.label("max_pattern_edges=%s" % ("<4" if big < 4 else "4-7" if big < 8 else "8+"))
    if any(len(e) > order for e in case["edges"]):
        ctx.label("has_larger_edge")
    if any(len(e) == 1 for e in case["edges"]):
        ctx.label("has_singleton")
    if any(len(c) and max(len(e) for e in c) == order for c, n in exp.items() if n):
        ctx.label("full_pattern")
    if order == 4 and any(n and max(len(e) for e in c) == 3 for c, n in exp.items()):
        ctx.label("not_full_pattern")
    if any(n and max(len(e) for e in c) == 2 for c, n in exp.items()):
        ctx.label("dyadic_pattern")
    ctx.nontrivial(nz >= 3)
    return nz


# --------------------------------------------------------------------------
# clauses (undirected)


def check_counts(case, ctx):
    order = case["order"]
    edge_lists = _abstract(case)
    exp = brute_census({frozenset(e) for e in edge_lists}, order)
    h = _build(edge_lists, case, [case["labels"][i] for i in case.get("isolated", [])])
    obs = _by_class(_observed(h, order), order, "compute_motifs(order=%d)" % order)
    ctx.trace = {"edges": edge_lists, "expected": [[list(c), n] for c, n in sorted(exp.items())]}
    _classify(ctx, exp, order, case)
    _compare_census(obs, exp, "compute_motifs(order=%d) on hyperedges %s" % (order, edge_lists),
                    order)


def check_bijection(case, ctx):
    order = case["order"]
    edge_lists = _abstract(case)
    h = _build(edge_lists, case)
    observed = _observed(h, order)
    mine = classes(order)
    want = {3: 6, 4: 171}[order]
    if len(mine) != want:  # the oracle itself must reproduce the numbers of the statement
        raise RuntimeError("oracle enumerates %d classes for order %d" % (len(mine), order))
    ctx.label("order=%d" % order, "n_edges=%d" % min(len(edge_lists), 3))
    ctx.nontrivial(True)
    seen = Counter()
    for ent in observed:
        require(isinstance(ent, (tuple, list)) and len(ent) == 2,
                lambda: "order %d: entry %r is not a (pattern, count) pair" % (order, ent),
                key="shape")
        pat = ent[0]
        nodes = {v for e in pat for v in e}
        require(len(nodes) == order and all(2 <= len(set(e)) == len(e) <= order for e in pat)
                and len({frozenset(e) for e in pat}) == len(pat),
                lambda: "order %d: reported pattern %r is not a set of distinct hyperedges of size "
                        "2..%d on exactly %d nodes" % (order, pat, order, order), key="pattern-shape")
        require(_connects([set(e) for e in pat], nodes),
                lambda: "order %d: reported pattern %r is not connected" % (order, pat),
                key="pattern-disconnected")
        seen[_canon_undirected(pat)] += 1
    twice = [c for c, n in seen.items() if n > 1]
    require(not twice, lambda: "order %d: %s is reported %d times, expected exactly once"
            % (order, _fmt(twice[0]), seen[twice[0]]), key="class-twice")
    missing = sorted(mine - set(seen))
    require(not missing, lambda: "order %d: %d of the %d isomorphism classes of connected patterns "
            "are not reported, e.g. %s" % (order, len(missing), want, _fmt(missing[0])),
            key="class-missing")
    extra = sorted(set(seen) - mine)
    require(not extra, lambda: "order %d: reported %s is not a class of connected patterns"
            % (order, _fmt(extra[0])), key="class-extra")
    require(len(observed) == want, lambda: "order %d: %d entries reported, expected %d"
            % (order, len(observed), want), key="class-number")


def _relabelled(case):
    """the drawn permutation of the case's labels, as a dict"""
    labels = case["labels"]
    rnd = random.Random(case["perm_seed"])
    image = labels[:]
    rnd.shuffle(image)
    pi = dict(zip(labels, image))
    return pi


def check_relabel(case, ctx):
    order = case["order"]
    edge_lists = _abstract(case)
    pi = _relabelled(case)
    rnd = random.Random(case["ins_seed"])
    what = "compute_motifs(order=%d)" % order
    base = _by_class(_observed(_build(edge_lists, case), order), order, what)
    exp = brute_census({frozenset(e) for e in edge_lists}, order)
    nz = _classify(ctx, exp, order, case)
    moved = sum(1 for a, b in pi.items() if a != b)
    ctx.label("moved_labels=%s" % ("0" if moved == 0 else "some"))

    # (a) relabelling by a permutation of the labels
    rel = [[pi[v] for v in e] for e in edge_lists]
    got = _by_class(_observed(_build(rel, case), order), order, what + " after relabelling")
    for c in sorted(set(base) | set(got)):
        require(base.get(c) == got.get(c),
                lambda: "%s: %s has count %s on hyperedges %s but %s after the relabelling %s "
                        "(hyperedges %s)" % (what, _fmt(c), base.get(c), edge_lists, got.get(c),
                                             sorted(pi.items()), rel), key="relabel")
    # (b) another insertion order, nodes of each hyperedge listed in another order,
    #     another construction path
    reordered = [rnd.sample(e, len(e)) for e in edge_lists]
    rnd.shuffle(reordered)
    case2 = dict(case, build={"ctor": "add_edge", "add_edge": "add_edges",
                              "add_edges": "ctor"}[case.get("build", "ctor")])
    got = _by_class(_observed(_build(reordered, case2), order), order,
                    what + " after re-insertion")
    for c in sorted(set(base) | set(got)):
        require(base.get(c) == got.get(c),
                lambda: "%s: %s has count %s when the hyperedges are inserted as %s but %s when "
                        "inserted as %s" % (what, _fmt(c), base.get(c), edge_lists, got.get(c),
                                            reordered), key="insertion-order")
    ctx.trace = {"edges": edge_lists, "relabelled": rel, "reordered": reordered}
    ctx.nontrivial(nz >= 3 and moved > 0)


def check_large(case, ctx):
    order = case["order"]
    labels = case["labels"]
    small = [[labels[i] for i in e] for e in case["edges"]]
    large = [[labels[i] for i in e] for e in case["large"]]
    what = "compute_motifs(order=%d)" % order
    exp = brute_census({frozenset(e) for e in small}, order)
    nz = _classify(ctx, exp, order, case)
    base = _by_class(_observed(_build(small, case), order), order, what)
    # interleave the larger hyperedges with the small ones in a drawn order
    mixed = small + large
    random.Random(case["ins_seed"]).shuffle(mixed)
    got = _by_class(_observed(_build(mixed, case), order), order, what + " with larger hyperedges")
    ctx.label("n_large=%d" % min(len(large), 3))
    new_nodes = {v for e in large for v in e} - {v for e in small for v in e}
    if new_nodes:
        ctx.label("large_edge_brings_new_nodes")
    for c in sorted(set(base) | set(got)):
        require(base.get(c) == got.get(c),
                lambda: "%s: %s has count %s on hyperedges %s but %s after adding the larger "
                        "hyperedges %s, which must be ignored" % (what, _fmt(c), base.get(c), small,
                                                                   got.get(c), large),
                key="large-not-ignored")
    _compare_census(got, exp, "%s on hyperedges %s" % (what, mixed))
    ctx.trace = {"small": small, "large": large}
    ctx.nontrivial(nz >= 2 and len(large) >= 1)


# --------------------------------------------------------------------------
# 'observed' next to a null model


def check_observed_with_null(case, ctx):
    """runs_config_model=1: the null-model sample, 'config_model' and 'norm_delta' are random
    and never looked at; 'observed' must still be the census of the hypergraph handed in."""
    import numpy
    from hypergraphx.motifs import compute_motifs
    order = case["order"]
    edge_lists = _abstract(case)
    exp = brute_census({frozenset(e) for e in edge_lists}, order)
    h = _build(edge_lists, case)
    what = "compute_motifs(order=%d, runs_config_model=1)['observed']" % order
    random.seed(case["seed"])
    numpy.random.seed(case["seed"])
    out = compute_motifs(h, order=order, runs_config_model=1)
    require(isinstance(out, dict) and "observed" in out,
            lambda: "compute_motifs(order=%d, runs_config_model=1) returned %r, expected a dict "
                    "with key 'observed'" % (order, out), key="shape")
    obs = _by_class(list(out["observed"]), order, what)
    nz = _classify(ctx, exp, order, case)
    ctx.nontrivial(nz >= 1)
    ctx.trace = {"edges": edge_lists, "seed": case["seed"]}
    # the exhaustive census is also what runs_config_model=0 must report (other clauses)
    _compare_census(obs, exp, "%s on hyperedges %s (random and numpy.random seeded with %d)"
                    % (what, edge_lists, case["seed"]))


@st.composite
def _null_cases(draw, tier):
    order = draw(st.sampled_from([3, 3, 3, 3, 4]))
    n = draw(st.sampled_from([4, 5, 6, 6, 7]))
    labels = draw(st.lists(st.sampled_from(INT_POOL), min_size=n, max_size=n, unique=True))
    sizes = draw(st.sampled_from([[2], [2, 2, 3], [2, 3]] if order == 3 else
                                 [[2], [2, 2, 3], [2, 3, 3, 4], [3, 4]]))
    m = draw(st.sampled_from([2, 3, 5, 7, 9]))
    edges = _dedupe_sets(draw(st.lists(_edge(n, sizes), min_size=m, max_size=m)))
    # at least two hyperedges of the sizes the census looks at
    for c in itertools.combinations(range(n), 2):
        if len(edges) >= 2:
            break
        if frozenset(c) not in {frozenset(e) for e in edges}:
            edges.append(list(c))
    return {"order": order, "labels": labels, "edges": edges,
            "build": draw(st.sampled_from(["ctor", "add_edge", "add_edges"])),
            "weighted": False, "seed": draw(st.integers(0, 2 ** 31 - 1))}


# --------------------------------------------------------------------------
# the labelled-pattern -> class table, exhaustively
#
# Every connected labelled pattern on `order` positions (12 for order 3, 1990 for
# order 4) is realised once: pattern number i of a chunk occupies its own block of
# `order` nodes, position j of the pattern being the j-th smallest label of the
# block.  Hyperedges never leave their block, so no connected `order`-subset spans
# two blocks and every block is exactly one connected subset: the census must be
# the Counter of the blocks' classes (class = own canonical form).  A labelled
# variant that is missing from the library's table loses one occurrence.

_TABLE_CHUNKS = {3: 1, 4: 16}
_LABELLED = {}


def labelled_patterns(order):
    """All connected labelled patterns on positions 0..order-1 (list of frozensets of
    frozensets), in a fixed pseudo-random order (so that every chunk mixes classes)."""
    if order not in _LABELLED:
        cand = [frozenset(c) for r in range(2, order + 1)
                for c in itertools.combinations(range(order), r)]
        out = []
        for mask in range(1, 1 << len(cand)):
            pat = frozenset(cand[i] for i in range(len(cand)) if mask >> i & 1)
            if _connects(pat, range(order)):
                out.append(pat)
        want = {3: 12, 4: 1990}[order]
        if len(out) != want or len({_canon_idx(p, order) for p in out}) != {3: 6, 4: 171}[order]:
            raise RuntimeError("oracle enumerates %d labelled patterns for order %d"
                               % (len(out), order))
        random.Random(order).shuffle(out)
        _LABELLED[order] = out
    return _LABELLED[order]


def check_table(case, ctx):
    order, chunk, variant = case["order"], case["chunk"], case["variant"]
    pats = labelled_patterns(order)[chunk::_TABLE_CHUNKS[order]]
    rnd = random.Random(case["variant"] * 101 + chunk)
    n = order * len(pats)
    if variant == 0:
        # consecutive labels, block after block
        pool = list(range(n))
    else:
        # non-contiguous labels (negative ones too); the blocks interleave
        pool = rnd.sample(range(-3 * n, 6 * n), n)
    blocks = [sorted(pool[order * b:order * b + order]) for b in range(len(pats))]
    edge_lists, exp = [], Counter()
    for blk, pat in zip(blocks, pats):
        exp[_canon_idx(pat, order)] += 1
        es = [[blk[i] for i in sorted(e)] for e in sorted(pat, key=sorted)]
        if variant:
            es = [rnd.sample(e, len(e)) for e in es]
        edge_lists.extend(es)
    if variant:
        rnd.shuffle(edge_lists)
    h = _build(edge_lists, {"build": ["ctor", "add_edges", "add_edge"][(chunk + variant) % 3],
                            "weighted": variant % 4 == 3})
    what = "compute_motifs(order=%d)" % order
    obs = _by_class(_observed(h, order), order, what)
    ctx.label("order=%d" % order, "chunk=%d" % chunk,
              "labels=%s" % ("consecutive" if variant == 0 else "interleaved"))
    ctx.nontrivial(True)
    ctx.trace = {"blocks": [[blk, [sorted(e) for e in sorted(pat, key=sorted)]]
                            for blk, pat in zip(blocks, pats)][:4], "n_blocks": len(blocks)}
    for c in sorted(set(obs) | set(exp)):
        o, e = obs.get(c), exp.get(c, 0)
        if o != e:
            # name a block of that class for the reader
            wit = [(blk, [[blk[i] for i in sorted(x)] for x in sorted(pat, key=sorted)])
                   for blk, pat in zip(blocks, pats) if _canon_idx(pat, order) == c]
            raise Violation(
                "%s on %d node-disjoint blocks of %d nodes, one labelled pattern each: %s "
                "expected count %d (number of blocks of that class), reported %s; blocks of that "
                "class, e.g. nodes %s with hyperedges %s"
                % (what, len(blocks), order, _fmt(c), e, "nothing" if o is None else o,
                   wit[0][0] if wit else None, wit[0][1] if wit else None), key="table")


def _table_cases(half):
    """finite case lists (Hypothesis enumerates a small list completely, without repeats):
    half 0 = order 3 and chunks 0..7 of order 4, half 1 = chunks 8..15"""
    def s(tier):
        variants = [1] if tier == "quick" else list(range(64))
        return st.sampled_from([{"order": order, "chunk": c, "variant": v}
                                for v in variants for order in (3, 4)
                                for c in range(_TABLE_CHUNKS[order])
                                if (order == 4 and c >= 8) == bool(half)])
    return s


# --------------------------------------------------------------------------
# strategies (undirected)

# size profiles: biased toward dyads and triples so that overlapping connected
# patterns of every flavour (dyads only; a triple plus a pendant dyad; two triples
# sharing a pair; a quadruple; ...) occur among few nodes
_PROFILES = {
    3: [[2], [2, 2, 2, 3], [2, 2, 2, 3], [2, 2, 3, 3, 2, 3, 1, 4], [2, 2, 3, 3, 4, 5, 6, 1],
        [1, 2, 3, 4, 5, 6]],
    4: [[2], [2, 2, 3], [2, 2, 3], [2, 2, 3, 3, 4], [2, 2, 3, 3, 4, 1, 5],
        [2, 2, 3, 3, 4, 4, 5, 6, 1], [1, 2, 3, 4, 5, 6]],
}


@st.composite
def _edge(draw, n, sizes):
    k = min(draw(st.sampled_from(sizes)), n)
    return draw(st.lists(st.integers(0, n - 1), min_size=k, max_size=k, unique=True))


def _dedupe_sets(edges):
    seen, out = set(), []
    for e in edges:
        k = frozenset(e)
        if k not in seen:
            seen.add(k)
            out.append(e)
    return out


@st.composite
def _dense(draw, order, min_edges):
    """n = 4 or 5 nodes, every candidate hyperedge of size 2..order present with
    probability 1/2 (patterns with many hyperedges, which the size profiles hardly reach)."""
    n = draw(st.sampled_from([4, 5, 5]))
    labels = draw(st.lists(st.sampled_from(INT_POOL), min_size=n, max_size=n, unique=True))
    cand = [list(c) for r in range(2, order + 1) for c in itertools.combinations(range(n), r)]
    bits = draw(st.lists(st.booleans(), min_size=len(cand), max_size=len(cand)))
    edges = [c for c, b in zip(cand, bits) if b]
    if len(edges) < min_edges:
        edges = cand[:min_edges]
    edges = list(draw(st.permutations(edges)))
    return {
        "order": order, "labels": labels, "edges": edges, "profile": "dense",
        "build": draw(st.sampled_from(["ctor", "ctor", "add_edge", "add_edges"])),
        "weighted": draw(st.sampled_from([False, False, False, True])),
    }


@st.composite
def _hypergraphs(draw, order, tier, max_size=6, min_edges=1):
    if draw(st.integers(0, 5)) == 0:
        return draw(_dense(order, min_edges))
    n = draw(st.sampled_from([4, 5, 5, 6, 6, 6, 7, 8] if order == 3 else [4, 5, 5, 5, 6, 6, 7, 8]))
    labels = draw(st.lists(st.sampled_from(INT_POOL), min_size=n, max_size=n, unique=True))
    sizes = [s for s in draw(st.sampled_from(_PROFILES[order])) if s <= max_size]
    # the number of hyperedges is drawn first (lists() alone is heavily biased to
    # short lists); repeated node sets are dropped by construction
    m = draw(st.sampled_from([min_edges, 2, 4, 6, 7, 8, 9, 10, 11, 12, 12, 12]
                             + ([13, 14, 14] if tier != "quick" else [])))
    edges = _dedupe_sets(draw(st.lists(_edge(n, sizes), min_size=m, max_size=m)))
    return {
        "order": order, "labels": labels, "edges": edges,
        "build": draw(st.sampled_from(["ctor", "ctor", "add_edge", "add_edges"])),
        "weighted": draw(st.sampled_from([False, False, False, True])),
    }


def _counts_strategy(order):
    @st.composite
    def s(draw, tier):
        case = draw(_hypergraphs(order, tier))
        if draw(st.integers(0, 24)) == 17:
            case["edges"] = []  # all-zero census
        n = len(case["labels"])
        case["isolated"] = draw(st.lists(st.integers(0, n - 1), max_size=1))
        return case
    return lambda tier: s(tier)


@st.composite
def _bijection_cases(draw, tier):
    order = draw(st.sampled_from([3, 3, 4]))
    return draw(_hypergraphs(order, tier, min_edges=0))


@st.composite
def _relabel_cases(draw, tier):
    order = draw(st.sampled_from([3, 3, 3, 4]))
    case = draw(_hypergraphs(order, tier))
    case["perm_seed"] = draw(st.integers(0, 2 ** 20))
    case["ins_seed"] = draw(st.integers(0, 2 ** 20))
    return case


@st.composite
def _large_cases(draw, tier):
    order = draw(st.sampled_from([3, 3, 3, 4]))
    case = draw(_hypergraphs(order, tier, max_size=order))
    n = len(case["labels"])
    bigger = [k for k in range(order + 1, 7) if k <= n]
    k = draw(st.sampled_from([1, 1, 2, 3, 4]))
    case["large"] = _dedupe_sets(draw(st.lists(_edge(n, bigger), min_size=k, max_size=k))) \
        if bigger else []
    case["ins_seed"] = draw(st.integers(0, 2 ** 20))
    return case


# --------------------------------------------------------------------------
# directed census


def _dcanon(pattern):
    """Lexicographic minimum, over all permutations of the pattern's own node
    set, of the sorted tuple of (sorted source, sorted target) pairs."""
    pattern = [(tuple(s), tuple(t)) for s, t in pattern]
    nodes = sorted({v for s, t in pattern for v in s + t})
    best = None
    for p in itertools.permutations(nodes):
        m = dict(zip(nodes, p))
        cand = tuple(sorted((tuple(sorted(m[v] for v in s)), tuple(sorted(m[v] for v in t)))
                            for s, t in pattern))
        if best is None or cand < best:
            best = cand
    return best


def _dclass(pattern):
    """Label-free class identifier: canonical form after renaming the nodes 0..k-1."""
    nodes = sorted({v for s, t in pattern for v in tuple(s) + tuple(t)})
    idx = {v: i for i, v in enumerate(nodes)}
    return _dcanon([([idx[v] for v in s], [idx[v] for v in t]) for s, t in pattern])


def _dbrute_classes(recs, order):
    """Counter: class -> number of order-subsets whose induced pattern (all the
    hyperedges lying inside the subset) covers the subset and is in that class."""
    es = {(frozenset(s), frozenset(t)) for s, t in recs}
    es = [e for e in es if len(e[0]) + len(e[1]) <= order]
    nodes = sorted({v for s, t in es for v in s | t})
    out = Counter()
    for sub in itertools.combinations(nodes, order):
        ss = set(sub)
        inside = [(s, t) for s, t in es if (s | t) <= ss]
        if inside and {v for s, t in inside for v in s | t} == ss:
            out[_dclass(inside)] += 1
    return out


@with_history
def _dbuild(recs, how, weighted=False, isolated=()):
    """A DirectedHypergraph holding exactly these hyperedges (and the given extra nodes, which
    are in no hyperedge), through the constructor or add_edge/add_edges; weights (when
    weighted) are irrelevant to the census."""
    from hypergraphx import DirectedHypergraph
    es = [(tuple(s), tuple(t)) for s, t in recs]
    ws = [[0.5, 1, 2.5, 3, 7][(i * 3 + len(e[0])) % 5] for i, e in enumerate(es)]
    if how == "ctor":
        h = DirectedHypergraph(edge_list=es, weighted=weighted, weights=ws if weighted else None)
    else:
        h = DirectedHypergraph(weighted=weighted)
        if how == "add_edges":
            if weighted:
                h.add_edges(es, weights=ws)
            else:
                h.add_edges(es)
        else:
            for e, w in zip(es, ws):
                if weighted:
                    h.add_edge(e, weight=w)
                else:
                    h.add_edge(e)
    if isolated:
        h.add_nodes(list(isolated))
    return h


def _dobserved(h, order, what):
    from hypergraphx.motifs.directed_motifs import compute_directed_motifs
    out = compute_directed_motifs(h, order=order, runs_config_model=0)
    require(isinstance(out, dict) and "observed" in out,
            lambda: "%s returned %r, expected a dict with key 'observed'" % (what, out),
            key="shape")
    d = {}
    for ent in out["observed"]:
        require(isinstance(ent, (tuple, list)) and len(ent) == 2,
                lambda: "%s: entry %r is not a (pattern, count) pair" % (what, ent), key="shape")
        pat, cnt = ent
        require(isinstance(cnt, numbers.Integral) and not isinstance(cnt, bool) and cnt >= 0,
                lambda: "%s: count of pattern %r is %r, expected a non-negative int"
                % (what, pat, cnt), key="count-type")
        key = tuple((tuple(s), tuple(t)) for s, t in pat)
        require(key not in d, lambda: "%s: pattern %r is listed twice" % (what, pat),
                key="pattern-twice")
        if cnt:
            # a class listed with count 0 says the same as a class that is not listed
            d[key] = cnt
    return d


def check_directed(case, ctx):
    order = case["order"]
    labels = case["labels"]
    recs = [[[labels[i] for i in s], [labels[i] for i in t]] for s, t in case["edges"]]
    what = "compute_directed_motifs(order=%d)" % order
    weighted = bool(case.get("weighted"))
    iso = [labels[i] for i in case.get("isolated", [])]
    base = _dobserved(_dbuild(recs, case["build"], weighted, iso), order, what + " on %s" % recs)
    n_large = len([1 for s, t in recs if len(s) + len(t) > order])
    ctx.label("order=%d" % order, "patterns=%s" % min(len(base), 3),
              "n_larger=%s" % min(n_large, 2),
              "max_count=%s" % min(max(base.values(), default=0), 3),
              "weighted" if weighted else "unweighted")
    if set(iso) - {v for s, t in recs for v in s + t}:
        ctx.label("has_isolated_node")

    # every reported pattern is its class's canonical representative
    for pat in base:
        nodes = {v for s, t in pat for v in s + t}
        require(len(nodes) == order and all(s and t and not set(s) & set(t) for s, t in pat),
                lambda: "%s on %s: reported pattern %r is not a set of directed hyperedges "
                        "(disjoint non-empty source/target) on %d nodes" % (what, recs, pat, order),
                key="pattern-shape")
        c = _dcanon(pat)
        require(c == pat,
                lambda: "%s on %s: reported pattern %r is not canonical; the lexicographic minimum "
                        "over node permutations is %r" % (what, recs, pat, c), key="not-canonical")
        require(all(len(s) + len(t) <= order for s, t in pat), lambda:
                "%s on %s: pattern %r contains a hyperedge larger than the order" % (what, recs, pat),
                key="large-not-ignored")

    # soundness of what is reported (an upper bound, not an exhaustive count): a
    # reported pattern is the class of the induced pattern of at least `count`
    # node subsets
    realised = _dbrute_classes(recs, order)
    for pat, cnt in base.items():
        have = realised.get(_dclass(pat), 0)
        require(cnt <= have,
                lambda: "%s on %s: pattern %r is reported %d times but only %d %d-node subsets "
                        "induce a pattern of that isomorphism class" % (what, recs, pat, cnt, have,
                                                                        order), key="not-realised")

    # relabelling by a permutation of the labels
    rnd = random.Random(case["perm_seed"])
    image = labels[:]
    rnd.shuffle(image)
    pi = dict(zip(labels, image))
    rel = [[[pi[v] for v in s], [pi[v] for v in t]] for s, t in recs]
    got = _dobserved(_dbuild(rel, case["build"], weighted, [pi[v] for v in iso]), order,
                     what + " on %s" % rel)
    require(got == base,
            lambda: "%s: census %s on hyperedges %s but %s after the relabelling %s (hyperedges %s)"
                    % (what, sorted(base.items()), recs, sorted(got.items()), sorted(pi.items()), rel),
            key="relabel")

    # insertion order, listing order inside source and target, construction path
    rnd = random.Random(case["ins_seed"])
    reordered = [[rnd.sample(s, len(s)), rnd.sample(t, len(t))] for s, t in recs]
    rnd.shuffle(reordered)
    how2 = {"ctor": "add_edge", "add_edge": "add_edges", "add_edges": "ctor"}[case["build"]]
    # (the other weightedness too: weights are no part of the isomorphism type)
    got = _dobserved(_dbuild(reordered, how2, not weighted, iso[::-1]), order,
                     what + " on %s" % reordered)
    require(got == base,
            lambda: "%s: census %s when the hyperedges are inserted as %s but %s when inserted as %s"
                    % (what, sorted(base.items()), recs, sorted(got.items()), reordered),
            key="insertion-order")

    # hyperedges larger than the order are ignored
    small = [r for r in recs if len(r[0]) + len(r[1]) <= order]
    if n_large:
        got = _dobserved(_dbuild(small, case["build"], weighted, iso), order,
                         what + " on %s" % small)
        require(got == base,
                lambda: "%s: census %s on hyperedges %s but %s without the hyperedges larger than "
                        "the order (%s), which must be ignored"
                        % (what, sorted(base.items()), recs, sorted(got.items()),
                           [r for r in recs if r not in small]), key="large-not-ignored")
    moved = sum(1 for a, b in pi.items() if a != b)
    ctx.trace = {"edges": recs, "census": [[list(map(list, k)), v] for k, v in sorted(base.items())]}
    ctx.nontrivial(len(base) >= 2 and moved > 0)


@st.composite
def _dedge(draw, n, sizes):
    k = min(draw(st.sampled_from(sizes)), n)
    ns = draw(st.lists(st.integers(0, n - 1), min_size=k, max_size=k, unique=True))
    cut = draw(st.integers(1, k - 1))
    return [ns[:cut], ns[cut:]]


@st.composite
def _directed_cases(draw, tier):
    order = draw(st.sampled_from([3, 4]))
    n = max(order, draw(st.sampled_from([3, 4, 5, 5, 6, 6, 7])))
    n_iso = draw(st.sampled_from([0, 0, 1, 2]))  # labels n.. are in no hyperedge
    labels = draw(st.lists(st.sampled_from(INT_POOL), min_size=n + n_iso, max_size=n + n_iso,
                           unique=True))
    sizes = draw(st.sampled_from(
        [[2, 3], [2, 2, 3, 3, 4], [2, 3, 3, 4, 5, 6], [3, 3, 4, 5]] if order == 3 else
        [[2, 3, 4], [3, 4, 5], [2, 3, 3, 4, 4, 5, 6], [2, 3, 4, 4, 5]]))
    m = draw(st.integers(1, 12 if tier == "quick" else 16))
    seen, edges = set(), []
    for e in draw(st.lists(_dedge(n, sizes), min_size=m, max_size=m)):
        k = (frozenset(e[0]), frozenset(e[1]))
        if k not in seen:
            seen.add(k)
            edges.append(e)
    return {"order": order, "labels": labels, "edges": edges,
            "build": draw(st.sampled_from(["ctor", "add_edge", "add_edges"])),
            "weighted": draw(st.sampled_from([False, False, True])),
            "isolated": list(range(n, n + n_iso)),
            "perm_seed": draw(st.integers(0, 2 ** 20)),
            "ins_seed": draw(st.integers(0, 2 ** 20))}


_RULE = "at least 3 distinct isomorphism classes have a non-zero count in the exhaustive census"

CLAUSES = [
    Clause("order3_counts", _counts_strategy(3), check_counts, quick=200, thorough=1500,
           shards_quick=2, rule=_RULE),
    Clause("order4_counts", _counts_strategy(4), check_counts, quick=20, thorough=250,
           shards_quick=4, rule=_RULE),
    Clause("order34_table_a", _table_cases(0), check_table, quick=12, thorough=40,
           rule="every case (the case list is finite: the quick tier enumerates all 9 + 8 chunks of "
                "the two halves, i.e. all 12 + 1990 connected labelled patterns, once; thorough "
                "samples chunk x variant)"),
    Clause("order34_table_b", _table_cases(1), check_table, quick=12, thorough=40,
           rule="every case (second half of the chunks of order 4)"),
    Clause("observed_with_null_model", _null_cases, check_observed_with_null, quick=24,
           thorough=60, rule="at least one class has a non-zero count in the exhaustive census"),
    Clause("classes_bijection", _bijection_cases, check_bijection, quick=24, thorough=30,
           rule="every case (the class table is regenerated by every call; hypergraphs with 0..12 "
                "hyperedges, both orders)"),
    Clause("relabel_invariance", _relabel_cases, check_relabel, quick=40, thorough=250,
           shards_quick=4,
           rule=_RULE + " and the drawn label permutation moves at least one label"),
    Clause("large_edges_ignored", _large_cases, check_large, quick=40, thorough=300,
           shards_quick=3,
           rule="at least 2 classes with non-zero count and at least one hyperedge larger than the "
                "order added"),
    Clause("directed", _directed_cases, check_directed, quick=150, thorough=1500, shards_quick=2,
           rule="at least 2 distinct patterns reported and the drawn label permutation moves at "
                "least one label"),
]
