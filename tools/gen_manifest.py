"""Regenerates /verif/MANIFEST.json from the table below (keeps it valid by construction)."""
import json, os, subprocess

V = os.path.dirname(os.path.dirname(os.path.abspath(__file__)))
PY = "PYTHONHASHSEED=0 PYTHONDONTWRITEBYTECODE=1 HGX_VERIF=1 /venv/bin/python -m hgxverif.run"

READY = set(os.environ.get("HGX_READY", " ".join("C%02d" % i for i in range(1, 21))).split())

CHECKS = {
 # id: (technique, level text, design_ref, note)
 "C01": ("model-based history testing (Hypothesis-generated operation sequences vs. a dict/set reference model, full public observation after every step, or - in half of the histories - after two or more mutations)",
         "Every generated history (<=50 public mutator calls incl. rejected ones, copies, batches) is replayed on a 150-line reference model; all public queries incl. every order/size/up_to filter are compared as multisets after every step. Finds history-dependent faults (stale/duplicated incidence entries, wrong-key tables); establishes nothing beyond the explored histories.",
         "2/C01", "trusted: RefHypergraph model, Hypothesis; unspecified corners are value sets or excluded (listed in evidence.assumptions)"),
 "C02": ("model-based history testing (generated operation sequences vs. a dict reference model keyed by (source set, target set))",
         "Same machine as C01 for DirectedHypergraph: role-specific incidence (source/target), direction (the reversed pair is generated on purpose), in/out degrees, neighbours, filters on total size, metadata survival; every public query compared after every step.",
         "2/C02", "trusted: RefDirected model, Hypothesis; remove_node only with keep_edges=False (quantifier)"),
 "C03": ("model-based history testing + derived-object oracle (every time window on a grid, per-time snapshots, aggregate(w) for every width) against a dict keyed by (time, node set)",
         "History machine for TemporalHypergraph incl. rejected times, keep_edges shrinks and the same node set at several times; after every step all queries over all windows (a,b) in -1..8 (also a>=b) and order/size filters; every 6 steps and at the end subhypergraph() snapshots and aggregate(w) for all widths are recomputed from the model, and the object is re-observed to be unchanged.",
         "2/C03", "trusted: RefTemporal model; times limited to 0..6 so that windows are exhaustive on the grid; remove_edges (temporal) not in the statement"),
 "C04": ("model-based history testing + aggregation/overlap oracle against a dict keyed by (node set, layer)",
         "History machine for MultiplexHypergraph (layered insertions incl. weighted batches with one node set in two layers, removals, keep_edges shrinks, weights, attribute helpers); after every step all queries are compared and aggregated_hypergraph()/edge_overlap are recomputed from the model, then the object is re-observed (incl. its hypergraph metadata) to be unchanged.",
         "2/C04", "trusted: RefMultiplex model; layer registry only bounded (layers in use <= reported <= ever inserted)"),
 "C05": ("differential testing of every extractor against a content model of the generated source + copy-independence by mutation in both directions",
         "Sources are built through public mutators with non-trivial internal ids (insert/remove detours), weights != ids, metadata, isolated nodes, singletons; each selection (node subset, order/size lists with repeats and absent values, order|size x up_to x keep_isolated_nodes, largest component with/without filter; directed filter) is compared with the model restricted by the selection (weights, metadata, node set) and the source is re-observed unchanged; copy() equality then up to six mutations on either side with the other side frozen.",
         "2/C05", "trusted: content model + union-find oracle; aliasing between an extracted object and its source is not claimed by the property and not checked"),
 "C06": ("round-trip testing (save/load, two formats, four container types) + grammar-based generation of hMETIS and HIF documents with a structural oracle",
         "Generated objects of all four classes (weighted or not, int or str labels, isolated nodes, repeated node sets across times/layers, JSON metadata) are saved to a temporary directory as .json and .hgx, loaded and compared through the public observation; the saved object is deep-compared before/after saving; .hgr files are emitted from a grammar (fmt codes, comments, blank lines, weights) and HIF documents with node/edge/incidence records are checked against what the generator emitted through an injective name->id recovery.",
         "2/C06", "trusted: the observation functions of C01-C04, json/pickle; reserved keys weight/time/layer excluded from metadata as the statement says"),
 "C07": ("metamorphic testing: pairs of construction histories with the same abstract content must hash equal; single-element edits must hash different",
         "For all four container types two histories (insertion order, node order, insert-then-remove detours of hyperedges and nodes, weights reached by re-insertion or set_weight, metadata via set_attr/remove_attr) ending in the same content are built and hashed; every kind of single edit (node, hyperedge, weight, time, layer, direction, weightedness, node/hyperedge/hypergraph metadata value) must change the hash; hashing never changes the observation.",
         "2/C07", "trusted: the content model that certifies both histories end in the same content (checked through the C01-C04 observation), SHA-256"),
 "C08": ("differential testing against brute-force definitions (counting, union-find) under all 13 order/size filters through methods and module functions",
         "For each generated hypergraph (mixed sizes, isolated nodes, singletons, removed and doubly inserted hyperedges, int/str labels) every degree view and every connectivity wrapper is asked under no filter, size=1..6 and order=0..5 and compared with counting / union-find over the filtered node sets; degrees also for Directed, Temporal and Multiplex records.",
         "2/C08", "trusted: 30-line union-find oracle; any maximum-size component accepted for largest_component"),
 "C09": ("differential testing of every matrix/tensor against dense numpy matrices built from the abstract content through the returned mapping",
         "Arbitrary non-contiguous int / string labels, isolated nodes, weighted or not, every order 0..max+1, keep_isolated_nodes both ways; mapping must be a bijection; incidence, weighted incidence, adjacency, by-order variants, degree matrix, Laplacians (L_d = d D_d - A_d, symmetric, zero row sums), dual adjacency, uniform adjacency tensor, temporal adjacency per time; a heavy-pair family (>=260 hyperedges sharing a pair) targets narrow integer dtypes. Exact integer comparison.",
         "2/C09", "trusted: numpy dense reference built from the case; column order = position in get_edges()"),
 "C10": ("differential testing against set-arithmetic definitions with exact rational thresholds",
         "Bipartite, clique, line-graph (intersection and Jaccard, thresholds drawn so that pairs sit exactly at and just below s), directed line graph and simplicial complex are compared with definitions computed from the node sets with Fractions; id tables must be bijections; weights equal the similarity when weighted.",
         "2/C10", "trusted: fractions arithmetic; Jaccard thresholds are rationals p/q with q<=6 passed as floats (sound: see DESIGN C10)"),
 "C11": ("differential testing against exhaustive subset enumeration + independent enumeration of isomorphism classes + metamorphic relabelling/insertion-order invariance",
         "For every 3- and 4-subset of nodes the induced pattern of hyperedges (size>=2) is classified by a canonical form computed as the minimum over all node permutations and counted; the library's keys must be in bijection with the independently enumerated 6 / 171 classes and carry the same counts; counts are invariant under label permutation, insertion order and addition of larger hyperedges; directed census: invariance, canonical representatives, positive integer counts.",
         "2/C11", "trusted: brute-force canonicaliser (permutation minimum); runs_config_model=0, plus one clause with one null-model run that reads 'observed' only; two deterministic clauses exercise every connected labelled pattern of orders 3 and 4"),
 "C12": ("differential testing against definitions in exact rational arithmetic",
         "in/out degrees (with filters) and sequences, the signature vector cell by cell with its sum identity and length, and exact/strong/weak reciprocity per size recomputed from their definitions on the size-bounded hyperedge set, in [0,1], 0 for empty sizes, exact<=strong<=weak; generators produce reversed and partially reversed pairs so that the three differ.",
         "2/C12", "trusted: Fraction-based oracle"),
 "C13": ("invariant checking over seeded random executions (degree-per-size never increases, equality when the hyperedge count is preserved)",
         "Each input (>=2 hyperedges, repeated sizes) is run with several drawn seeds for label in {edge,stub}, detailed both ways, n_steps 0..200, optional size/order; invariants from the statement are checked on every output; directed model likewise with in/out degrees and (|S|,|T|) shapes.",
         "2/C13", "trusted: counting oracle; the random outcomes are sampled over seeds, never exhausted"),
 "C14": ("contract checking of samplers over seeded random executions",
         "random_hypergraph / random_uniform_hypergraph (nodes, sizes, counts, seed reproducibility), scale_free_hypergraph (exact counts, defaults, correlated or not), HOADmodel, add_random_edge(s), random_shuffle(_all_orders) (other sizes intact with weights and metadata, p=0 identity, inplace=False) — each on drawn parameters and several drawn seeds.",
         "2/C14", "trusted: counting oracle; global RNGs are seeded from the case"),
 "C15": ("differential testing of closed forms against exhaustive enumeration over all possible hyperedges + EM invariants over refits with growing n_iter",
         "poisson_params, log_kappa, expected_degree, dimension_sequence(expected=True), C() are compared (rtol 1e-9) with sums over all hyperedges of size 2..D on N<=7 nodes; fit() keeps supplied parameters bit-identical, finite, non-negative, w symmetric/diagonal; the exact Poisson likelihood (MAP objective under a prior) is non-decreasing over n_iter=1..8 with the same seed.",
         "2/C15", "trusted: exhaustive-enumeration oracle in float64 with stated tolerances"),
 "C16": ("invariant checking of every yielded sample over seeded chains (validity, conditioning, determinism)",
         "Samples from an initial hypergraph, from degree/size sequences (matching or not) and from the model are checked for weightedness, positive integer weights, no repeats, sizes, node sets, never-exceeded degrees/size counts and exact equality when no two hyperedges coincided; two samplers with equal parameters and seed yield identical sequences.",
         "2/C16", "trusted: counting oracle; chains sampled over seeds"),
 "C17": ("invariant and differential checking of EM runs (validity, bookkeeping, ascent, agreement with the likelihood definition, determinism) over seeded fits",
         "HypergraphMT.fit outputs are checked for shape, finiteness, sign, zero rows exactly for isolated nodes, row normalisation, maxL bookkeeping against train_info, ascent of loglik within a realisation (normalizeU=False), agreement with the definition (elementary symmetric polynomials) for min_value_par=0, and bit-identical reruns; HySC.fit gives a 0/1 matrix with one 1 per non-isolated node, deterministic.",
         "2/C17", "trusted: independent likelihood from the textbook recurrence; add-only HGX_VERIF-guarded counters of numerical guard events attribute failures to guard call sites"),
 "C18": ("differential testing against closed forms and a reference synchronous simulation",
         "Transition matrix entries and row sums, stationary vector (fixed point, closed form), density propagation step by step, sampled walks step only along shared hyperedges; contagion trajectories in [0,1], start value, monotonicity for mu=0 / beta=beta_D=0, and exact agreement with a 15-line synchronous reference in the 8 deterministic regimes.",
         "2/C18", "trusted: numpy reference; global RNG seeded from the case"),
 "C19": ("differential testing against a criteria oracle on the abstract content + exact binomial p-values (Fractions) and recomputed step-up threshold",
         "filter_hypergraph on Hypergraph/Temporal/Multiplex with node and hyperedge criteria, both modes, keep_edges both ways is compared with the matching rule applied to the model; get_svh tables list each hyperedge once, p-values equal exact binomial survival sums (rtol 1e-9), fdr column equals the threshold rule recomputed from the reported p-values.",
         "2/C19", "trusted: Fraction binomial sums; default alpha"),
 "C20": ("differential testing against networkx / scipy on independently built graphs and matrices + eigen-equation residuals + metamorphic relabelling",
         "s-betweenness/closeness of hyperedges and nodes vs networkx on graphs built by the oracle, temporal averages from the abstract records, sub-hypergraph centrality vs log diag expm(A) (rtol 1e-8), CEC/HEC positivity, normalisation and residuals <= 1e-6 with tol=1e-12,max_iter=20000, and equivariance under label permutations.",
         "2/C20", "trusted: networkx centralities, scipy.linalg.expm, numpy eigensolver"),
}

def main():
    not_applicable = []
    props = [json.loads(l) for l in open(os.path.join(V, "properties.jsonl"))]
    checks = []
    for p in props:
        pid = p["id"]
        if pid not in CHECKS or pid not in READY:
            not_applicable.append({"property_id": pid, "reason": "check not built yet in this round (planned in DESIGN.md section 2/%s); nothing is claimed for it" % pid})
            continue
        tech, text, ref, note = CHECKS[pid]
        checks.append({
            "property_id": pid,
            "quick_cmd": "%s %s --tier quick" % (PY, pid),
            "thorough_cmd": "%s %s --tier thorough" % (PY, pid),
            "evidence_file": "/verif/evidence/%s.json" % pid,
            "replay_cmd_template": "%s %s --replay {path}" % (PY, pid),
            "engine": "hgxverif",
            "level_claimed": {"category": "exploration", "text": text, "design_ref": ref},
            "level_note": note,
            "technique": tech,
        })
    hooks_commits = ["e7596f1", "2b22de9", "80ccd6b"]
    m = {
        "version": 1,
        "setup_cmd": "(/venv/bin/python -c 'import hypothesis' 2>/dev/null || PIP_NO_INDEX=1 /venv/bin/pip install --no-index --find-links /opt/veriftools/wheels hypothesis) && (PYTHONPATH=/verif/.deps /venv/bin/python -c 'import atheris' 2>/dev/null || PIP_NO_INDEX=1 /venv/bin/pip install -q --no-index --find-links /opt/veriftools/wheels --target /verif/.deps atheris || true)",
        "hooks": {
            "guard": "HGX_VERIF",
            "enable": "environment variable HGX_VERIF=1 (set by every check command). Only hook: add-only counters/log of numerical guard events in hypergraphx/communities/hypergraph_mt/model.py (GUARD_EVENTS, GUARD_LOG, GUARD_UMAX, _verif_guard_event, _verif_iteration_done), read by C17 to attribute likelihood decreases to guard call sites; inert when the variable is unset. All other oracles use the public API only.",
            "baseline_off_cmd": "cd /repo && env -u HGX_VERIF /venv/bin/python -m pytest -ra -q -p no:cacheprovider --timeout=900 --continue-on-collection-errors",
            "source_commits": hooks_commits,
            "add_only": True,
        },
        "engines": [{
            "name": "hgxverif", "path": "/verif/hgxverif",
            "serves_properties": [c["property_id"] for c in checks],
            "kind_free_text": "Hypothesis 6.168 property-based testing: generated cases (JSON), explicit oracles (reference models, brute-force definitions, round trips, metamorphic relations), shrinking to replay files, 16-way sharding",
        }],
        "checks": checks,
        "not_applicable": not_applicable,
        "notes": "Checks import hypergraphx from /repo's working tree (sys.path[0]=/repo, no bytecode). VERIF_SEED seeds Hypothesis (hypothesis.seed, database=None, deadline=None). Exit 2 = harness error, never a verdict. Known findings: /verif/known_findings.txt.",
    }
    with open(os.path.join(V, "MANIFEST.json"), "w") as f:
        json.dump(m, f, indent=1)
    import jsonschema
    jsonschema.validate(m, json.load(open("/root/.vp/MANIFEST.schema.json")))
    print("MANIFEST.json: %d checks, %d not_applicable" % (len(checks), len(not_applicable)))

if __name__ == "__main__":
    main()
