"""C02 -- DirectedHypergraph faithfully stores (source set, target set) hyperedges.

Same history machine as C01; key = (frozenset source, frozenset target), disjoint
and non-empty.  The reversed pair of an existing hyperedge is generated often.
"""

from collections import Counter

from .. import history as H
from ..common import dc, dedupe, permuted
from ..common import nodes_with_metadata, clone_label
from ..engine import Clause, Violation

ASSUMPTIONS = [
    "oracle = RefDirected (dict (source set, target set) -> [weight, metadata])",
    "remove_node only with the default keep_edges=False (the quantifier lists no other)",
    "hypergraph metadata after clear() unconstrained; get_all_*_metadata not observed",
    "source and target sets generated disjoint and non-empty",
]

SIZES = list(range(0, 8))


def cdedge(e):
    s, t = e
    s, t = tuple(s), tuple(t)
    if len(set(s)) != len(s) or len(set(t)) != len(t):
        raise Violation("directed hyperedge %r lists a node twice" % (e,))
    return (tuple(sorted(s)), tuple(sorted(t)))


class RefDirected(H.RefBase):
    def nodes_of(self, key):
        return key[0] | key[1]

    def shrink(self, key, n):
        raise AssertionError("keep_edges=True is outside the quantifier for directed hypergraphs")

    def valid_key(self, key):
        return bool(key[0]) and bool(key[1]) and not (key[0] & key[1])

    # queries
    def is_weighted(self):
        return self.weighted

    def get_nodes(self, metadata=False):
        return dict(self.nodes) if metadata else list(self.nodes)

    def num_nodes(self):
        return len(self.nodes)

    def check_node(self, n):
        return n in self.nodes

    def _sel(self, order=None, size=None, up_to=False):
        if size is not None:
            order = size - 1
        out = []
        for k in self.edges:
            sz = len(k[0]) + len(k[1])
            if order is None or (sz - 1 <= order if up_to else sz - 1 == order):
                out.append(k)
        return out

    @staticmethod
    def _t(k):
        return (tuple(sorted(k[0])), tuple(sorted(k[1])))

    def get_edges(self, order=None, size=None, up_to=False, metadata=False):
        ks = self._sel(order, size, up_to)
        if metadata:
            return {self._t(k): self.edges[k][1] for k in ks}
        return [self._t(k) for k in ks]

    def num_edges(self):
        return len(self.edges)

    def __len__(self):
        return len(self.edges)

    def get_sources(self):
        return [self._t(k)[0] for k in self.edges]

    def get_targets(self):
        return [self._t(k)[1] for k in self.edges]

    def check_edge(self, e):
        return (frozenset(e[0]), frozenset(e[1])) in self.edges

    def get_weight(self, e):
        return self.edges[(frozenset(e[0]), frozenset(e[1]))][0]

    def get_edge_metadata(self, e):
        return self.edges[(frozenset(e[0]), frozenset(e[1]))][1]

    def get_weights(self, order=None, size=None, up_to=False, asdict=False):
        ks = self._sel(order, size, up_to)
        if asdict:
            return {self._t(k): self.edges[k][0] for k in ks}
        return [self.edges[k][0] for k in ks]

    def get_source_edges(self, n, order=None, size=None):
        return [self._t(k) for k in self._sel(order, size) if n in k[0]]

    def get_target_edges(self, n, order=None, size=None):
        return [self._t(k) for k in self._sel(order, size) if n in k[1]]

    def get_incident_edges(self, n, order=None, size=None):
        return self.get_source_edges(n, order, size) + self.get_target_edges(n, order, size)

    def get_neighbors(self, n, order=None, size=None):
        out = set()
        for k in self._sel(order, size):
            if n in k[0] or n in k[1]:
                out |= k[0] | k[1]
        out.discard(n)
        return out

    def degree(self, n, order=None, size=None):
        return len(self.get_incident_edges(n, order, size))

    def degree_sequence(self, order=None, size=None):
        return {n: self.degree(n, order, size) for n in self.nodes}

    def degree_distribution(self, order=None, size=None):
        return dict(Counter(self.degree_sequence(order, size).values()))

    def get_sizes(self):
        return [len(k[0]) + len(k[1]) for k in self.edges]

    def get_orders(self):
        return [x - 1 for x in self.get_sizes()]

    def distribution_sizes(self):
        return dict(Counter(self.get_sizes()))

    def max_size(self):
        return max(self.get_sizes())

    def max_order(self):
        return self.max_size() - 1

    def is_uniform(self):
        return len(set(self.get_sizes())) <= 1

    def isolated_nodes(self):
        return [n for n in self.nodes if not self.get_neighbors(n)]

    def is_isolated(self, n):
        return not self.get_neighbors(n)

    def get_node_metadata(self, n):
        return self.nodes[n]


def _setof(x):
    x = list(x)
    for v in x:
        if isinstance(v, (tuple, list, set, frozenset)):
            raise Violation("get_neighbors returned a non-node element %r (whole result %r)"
                            % (v, x), key="neighbors-not-nodes")
    s = set(x)
    if len(s) != len(x):
        raise Violation("neighbour listing repeats a node: %r" % (x,))
    return s


def observe(h, U, probes, real):
    if real:
        from hypergraphx.measures.degree import degree as m_degree
        from hypergraphx.measures.degree import degree_sequence as m_dseq
        from hypergraphx.measures.directed import (in_degree, out_degree, in_degree_sequence,
                                                   out_degree_sequence)
    else:
        m_degree = lambda g, n, **kw: g.degree(n, **kw)  # noqa
        m_dseq = lambda g, **kw: g.degree_sequence(**kw)  # noqa
        in_degree = lambda g, n, **kw: len(g.get_source_edges(n, **kw))  # noqa
        out_degree = lambda g, n, **kw: len(g.get_target_edges(n, **kw))  # noqa
        in_degree_sequence = lambda g, **kw: {n: in_degree(g, n, **kw) for n in g.get_nodes()}  # noqa
        out_degree_sequence = lambda g, **kw: {n: out_degree(g, n, **kw) for n in g.get_nodes()}  # noqa
    o = {}
    nodes = list(h.get_nodes())
    o["get_nodes"] = Counter(nodes)
    o["num_nodes"] = h.num_nodes()
    o["is_weighted"] = h.is_weighted()
    o["check_node"] = {u: h.check_node(u) for u in U}
    edges = [cdedge(e) for e in h.get_edges()]
    o["get_edges"] = Counter(edges)
    o["num_edges"] = h.num_edges()
    o["len"] = len(h)
    # the two listings are compared separately: nothing says that position i of one belongs
    # to position i of the other (direction is pinned by get_edges)
    o["get_sources"] = Counter(tuple(sorted(s)) for s in h.get_sources())
    o["get_targets"] = Counter(tuple(sorted(t)) for t in h.get_targets())
    o["get_weights"] = Counter(h.get_weights())
    o["get_weights_dict"] = {cdedge(k): v for k, v in h.get_weights(asdict=True).items()}
    o["edges_meta"] = {cdedge(k): dc(v) for k, v in h.get_edges(metadata=True).items()}
    for k in SIZES:
        for up_to in (False, True):
            for kw in ({"size": k}, {"order": k - 1}):
                tag = (tuple(kw.items())[0], up_to)
                o[("get_edges", tag)] = Counter(cdedge(e) for e in h.get_edges(up_to=up_to, **kw))
                o[("get_weights", tag)] = Counter(h.get_weights(up_to=up_to, **kw))
                o[("get_weights_dict", tag)] = {
                    cdedge(a): b for a, b in h.get_weights(up_to=up_to, asdict=True, **kw).items()}
                o[("edges_meta", tag)] = {
                    cdedge(a): dc(b)
                    for a, b in h.get_edges(metadata=True, up_to=up_to, **kw).items()}
        o[("get_edges", "up_to omitted", k)] = Counter(cdedge(e) for e in h.get_edges(size=k))
        o[("get_weights", "up_to omitted", k)] = Counter(h.get_weights(order=k - 1))
    o["check_edge"], o["get_weight"], o["edge_meta"] = {}, {}, {}
    eset = set(edges)
    for p in list(probes) + [e for e in edges if e not in probes]:
        rp = (tuple(reversed(p[0])), tuple(reversed(p[1])))
        o["check_edge"][p] = h.check_edge(rp)
        if p in eset:
            o["get_weight"][p] = h.get_weight(rp)
            o["edge_meta"][p] = dc(h.get_edge_metadata(rp))
    src, tgt, inc, nei, deg, mdeg, ind, outd, iso, nmeta = ({} for _ in range(10))
    for n0 in nodes:
        n = clone_label(n0)   # equal label, other object: found by equality
        src[n] = {None: Counter(cdedge(e) for e in h.get_source_edges(n))}
        tgt[n] = {None: Counter(cdedge(e) for e in h.get_target_edges(n))}
        inc[n] = {None: Counter(cdedge(e) for e in h.get_incident_edges(n))}
        nei[n] = {None: _setof(h.get_neighbors(n))}
        deg[n] = {None: h.degree(n)}
        mdeg[n] = {None: m_degree(h, n)}
        ind[n] = {None: in_degree(h, n)}
        outd[n] = {None: out_degree(h, n)}
        for k in SIZES:
            for kw in ({"size": k}, {"order": k - 1}):
                tag = tuple(kw.items())[0]
                src[n][tag] = Counter(cdedge(e) for e in h.get_source_edges(n, **kw))
                tgt[n][tag] = Counter(cdedge(e) for e in h.get_target_edges(n, **kw))
                inc[n][tag] = Counter(cdedge(e) for e in h.get_incident_edges(n, **kw))
                nei[n][tag] = _setof(h.get_neighbors(n, **kw))
                deg[n][tag] = h.degree(n, **kw)
                ind[n][tag] = in_degree(h, n, **kw)
                outd[n][tag] = out_degree(h, n, **kw)
            mdeg[n][("size", k)] = m_degree(h, n, size=k)
        iso[n] = h.is_isolated(n)
        nmeta[n] = dc(h.get_node_metadata(n))
    o["get_source_edges"], o["get_target_edges"], o["get_incident_edges"] = src, tgt, inc
    o["get_neighbors"], o["degree"], o["measures.degree"] = nei, deg, mdeg
    o["in_degree"], o["out_degree"] = ind, outd
    o["is_isolated"], o["node_meta"] = iso, nmeta
    o["nodes_meta"] = {k: dc(v) for k, v in nodes_with_metadata(h).items()}
    o["degree_sequence"] = {None: dict(h.degree_sequence())}
    o["degree_distribution"] = {None: dict(h.degree_distribution())}
    o["measures.degree_sequence"] = dict(m_dseq(h))
    o["in_degree_sequence"] = {None: dict(in_degree_sequence(h))}
    o["out_degree_sequence"] = {None: dict(out_degree_sequence(h))}
    for k in SIZES:
        o["degree_sequence"][("size", k)] = dict(h.degree_sequence(size=k))
        o["degree_sequence"][("order", k - 1)] = dict(h.degree_sequence(order=k - 1))
        o["degree_distribution"][("size", k)] = dict(h.degree_distribution(size=k))
        o["in_degree_sequence"][("size", k)] = dict(in_degree_sequence(h, size=k))
        o["out_degree_sequence"][("order", k - 1)] = dict(out_degree_sequence(h, order=k - 1))
    o["isolated_nodes"] = Counter(h.isolated_nodes())
    o["get_sizes"] = Counter(h.get_sizes())
    o["get_orders"] = Counter(h.get_orders())
    o["distribution_sizes"] = dict(h.distribution_sizes())
    if edges:
        o["max_size"] = h.max_size()
        o["max_order"] = h.max_order()
    o["is_uniform"] = h.is_uniform()
    return o


class DirectedAdapter(H.Adapter):
    name = "DirectedHypergraph"
    keep_edges_allowed = False
    has_add_nodes_metadata = False
    dup_check_in_weighted_batch = False
    other_containers = True

    def fresh_record(self, spec, U):
        ns = dedupe([U[i % len(U)] for i in spec["ns"]])
        if len(ns) < 2:
            ns.append(next(u for u in U if u not in ns))
        c = 1 + spec["cut"] % (len(ns) - 1)
        return [ns[:c], ns[c:]]

    def record_of_key(self, key, perm):
        return [permuted(sorted(key[0]), perm), permuted(sorted(key[1]), perm + 1)]

    def variant_of_key(self, key, spec, U):
        # the reversed hyperedge: direction must not be lost or swapped
        return [permuted(sorted(key[1]), spec["perm"]), permuted(sorted(key[0]), spec["perm"])]

    def key_of(self, rec):
        return (frozenset(rec[0]), frozenset(rec[1]))

    def probe_of_key(self, key):
        return (tuple(sorted(key[0])), tuple(sorted(key[1])))

    def sibling_keys(self, key):
        # the reversed hyperedge is always asked about too
        return [(key[1], key[0])] if key[0] != key[1] else []

    def sort_key(self, key):
        return (len(key[0]) + len(key[1]), sorted(key[0]), sorted(key[1]))

    def new_model(self, weighted):
        return RefDirected(weighted)

    @staticmethod
    def _t(rec):
        return (tuple(rec[0]), tuple(rec[1]))

    def construct(self, weighted, recs, ws, metas, node_meta, hg_meta):
        from hypergraphx import DirectedHypergraph
        kw = {"weighted": True} if weighted else {}   # the documented default is unweighted
        if hg_meta is not None:
            kw["hypergraph_metadata"] = hg_meta
        if node_meta is not None:
            kw["node_metadata"] = node_meta
        if recs:
            kw["edge_list"] = [self._t(r) for r in recs]
            if ws is not None:
                kw["weights"] = ws
            if metas is not None:
                kw["edge_metadata"] = metas
        return DirectedHypergraph(**kw)

    def r_add_nodes(self, h, ns, metas):
        h.add_nodes(list(ns))

    def r_add_edge(self, h, e, w, meta):
        kw = {}
        if w is not None:
            kw["weight"] = w
        if meta is not None:
            kw["metadata"] = meta
        conv = {"list": list, "frozenset": frozenset}.get(self.container, tuple)
        h.add_edge((conv(e[0]), conv(e[1])), **kw)

    def r_add_edges(self, h, es, ws, metas):
        kw = {}
        if ws is not None:
            kw["weights"] = ws
        if metas is not None:
            kw["metadata"] = metas
        h.add_edges([self._t(e) for e in es], **kw)

    def r_remove_edge(self, h, e):
        h.remove_edge(self._t(e))

    def r_remove_edges(self, h, es):
        h.remove_edges([self._t(e) for e in es])

    def r_remove_node(self, h, n, keep):
        h.remove_node(n)

    def r_remove_nodes(self, h, ns, keep):
        h.remove_nodes(list(ns))

    def r_set_weight(self, h, e, w):
        h.set_weight(self._t(e), w)

    def r_set_edge_metadata(self, h, e, meta):
        h.set_edge_metadata(self._t(e), meta)

    def r_get_edge_metadata(self, h, e):
        return h.get_edge_metadata(self._t(e))

    def r_set_attr_edge(self, h, e, f, v):
        h.set_attr_to_edge_metadata(self._t(e), f, v)

    def r_remove_attr_edge(self, h, e, f):
        h.remove_attr_from_edge_metadata(self._t(e), f)

    def observe(self, h, U, probes, real):
        return observe(h, U, probes, real)


ADAPTER = DirectedAdapter()


def check_history(case, ctx):
    H.check_history(ADAPTER, case, ctx)
    # sub-clauses named by the property: node metadata set before an insertion survives
    ops = [o["op"] for o in case["ops"]]
    meta_before = False
    for o in ops:
        if o in ("set_node_metadata", "set_attr_node"):
            meta_before = True
        if o in ("add_edge", "add_edges") and meta_before:
            ctx.label("node_metadata_then_add_edge")
            ctx.nontrivial()
            break


def _strategy(tier):
    return H.histories(30 if tier == "quick" else 50)


CLAUSES = [
    Clause(
        "history", _strategy, check_history, quick=150, thorough=3000, shards_quick=4,
        rule="history with node metadata set before a hyperedge insertion, or with a removal "
             "followed by a re-insertion of an existing (source,target) key; distinct by "
             "canonical JSON of the whole case",
    ),
]
