"""C15 -- Hy-MMSBM quantities equal their definitions; EM ascends, fixed inputs stay.

Identities: every closed form of HyMMSBM (poisson_params, log_kappa, C,
expected_degree, dimension_sequence(expected=True)) is compared with the
*definition* evaluated by exhaustive enumeration of all hyperedges of size
2..D on N nodes (N <= 7, so at most 120 hyperedges) in plain Python floats
(math.fsum) and exact integer binomials.

fit(): parameters supplied at construction must come back bit-identical (and the
caller's arrays untouched), everything finite and non-negative, w symmetric /
diagonal (a third of the validity cases train both parameters with more
communities than the data support, where a community dies out by underflow); the
maximum size is detected from the data when not supplied, and the closed forms are
compared with the definitions once more on the parameters the model carries after
fit() (model.u / model.w read back; before fit() as well when both were supplied);
a second fit() on the same model leaves the supplied parameters bit-identical too;
with u supplied the
exact Poisson log-likelihood (w_prior = 0) or the MAP objective (w_prior > 0) of
the data must not decrease over fresh fits with n_iter = 1..8 and the same seed.

Tolerances (DESIGN 1.4)
  closed forms : |obs - exp| <= 1e-9*|exp| + 1e-13*M, where M = (sum_i u_i)^T w (sum_i u_i)
                 bounds every addend that the quadratic-form shortcuts subtract from each
                 other (0.5*(s^T w s - sum u_i^T w u_i)); the absolute term is ~100x the
                 rounding error of that cancellation and 1e-9 relative is ~1e6 ulp for the
                 handful of flops of each formula.
  log_kappa    : exp(log_kappa) against the exact integer kappa, rtol 1e-9.
  symmetry     : |w - w^T| <= 1e-9*max|w|.
  sign         : parameters >= -1e-12.
  ascent       : F(n+1) >= F(n) - 1e-9*(1+|F(n)|)  (F is a sum of <= 120 terms of size <= |F|).
"""

import itertools
import math

import numpy as np
from hypothesis import strategies as st

from .. import strategies as S
from ..common import permuted
from ..engine import Clause, require
from ..common import with_history  # noqa: E402

ASSUMPTIONS = [
    "oracle = the definitions evaluated by exhaustive enumeration of all hyperedges of size "
    "2..D (plain Python floats with math.fsum, exact integer binomials); kappa_d = "
    "binom(N-2,d-2)*d*(d-1)/2 as in the reference paper ('binom+avg', the only implemented form)",
    "domain: 3 <= N <= 7, 1 <= K <= 3, 2 <= D <= N, entries of u and w are 0 or in [0.25, 2] "
    "(bounded condition number, so that rtol 1e-9 is meaningful for the cancelling shortcuts); "
    "a quarter of the cases hands whole-number u and/or w over as int64 arrays",
    "fit: 2 <= N <= 7 nodes with any comparable labels (isolated nodes allowed), hyperedge "
    "sizes 2..D <= N, at least one hyperedge, positive weights (integers 1..5, or drawn from "
    "{0.5, 1.5, 2.25, 1, 3}: the exact log-likelihood a*log(m) - m - lgamma(a+1) is evaluated for "
    "real a), supplied parameters as float64 or (whole numbers) int64 arrays, row i of a "
    "supplied u belongs to the node that Hypergraph.get_mapping() sends to i; a supplied u is "
    "strictly positive and a supplied w has at least one positive entry (zero rows allowed), so "
    "that every observed hyperedge has a positive Poisson rate -- data of probability zero "
    "are outside the model's domain; n_iter <= 20",
    "ascent: with a prior on w the ascending quantity is the MAP objective "
    "L(u, w) - w_prior * C * sum_kq w_kq (C = sum_d binom(N-2,d-2)/kappa_d; C*w is the affinity "
    "the multiplicative updates operate on); the plain likelihood is only demanded for w_prior = 0",
    "the likelihood is summed over all hyperedges up to the model's maximum size: the supplied "
    "max_hye_size, or the maximum size found in the data when None is supplied (documented: "
    "'detected automatically')",
    "closed forms after fit(): the oracle is evaluated on model.u / model.w as read back from the "
    "fitted model (whatever spread their entries have: every tolerance is relative to M); "
    "parameters with 0 < M < 1e-250 (underflow range, no relative error bound) are excluded and "
    "counted",
]

RTOL = 1e-9
ATOL_FACTOR = 1e-13


# --------------------------------------------------------------------------
# oracle: definitions by enumeration


def kappa(N, d):
    return math.comb(N - 2, d - 2) * d * (d - 1) // 2


def pair_table(u, w):
    """P[i][j] = u_i^T w u_j from the definition (plain floats)."""
    N, K = len(u), len(w)
    P = [[0.0] * N for _ in range(N)]
    for i in range(N):
        for j in range(N):
            P[i][j] = math.fsum(u[i][k] * w[k][q] * u[j][q]
                                for k in range(K) for q in range(K))
    return P


def lam(e, P):
    return math.fsum(P[e[a]][e[b]] for a in range(len(e)) for b in range(a + 1, len(e)))


def all_hyperedges(N, D, dmin=2):
    return [e for d in range(dmin, D + 1) for e in itertools.combinations(range(N), d)]


def magnitude(u, w):
    K = len(w)
    U = [math.fsum(r[k] for r in u) for k in range(K)]
    return math.fsum(U[k] * w[k][q] * U[q] for k in range(K) for q in range(K))


def close(obs, exp, M):
    obs = float(obs)
    return math.isfinite(obs) and abs(obs - exp) <= RTOL * abs(exp) + ATOL_FACTOR * M


def C_def(N, dims):
    return math.fsum(math.comb(N - 2, d - 2) / kappa(N, d) for d in dims)


def log_likelihood(N, D, P, data):
    """Exact Poisson log-likelihood: data = {sorted index tuple: count}; all
    hyperedges of size 2..D on N nodes are summed, the unobserved ones with A_e = 0."""
    terms = []
    for e in all_hyperedges(N, D):
        mean = lam(e, P) / kappa(N, len(e))
        terms.append(-mean)
        a = data.get(e, 0)
        if a:
            if not mean > 0:
                return -math.inf
            terms.append(a * math.log(mean) - math.lgamma(a + 1))
    return math.fsum(terms)


# --------------------------------------------------------------------------
# strategies

entry = st.one_of(st.just(0.0), st.floats(0.25, 2.0), st.floats(0.25, 2.0),
                  st.sampled_from([0.25, 0.5, 1.0, 2.0]))
pos_entry = st.one_of(st.floats(0.25, 2.0), st.sampled_from([0.25, 0.5, 1.0, 2.0]))


int_entry = st.sampled_from([0.0, 1.0, 1.0, 2.0, 3.0])
int_pos_entry = st.sampled_from([1.0, 1.0, 2.0, 3.0])


@st.composite
def u_matrices(draw, N, K, positive=False, integral=False):
    el = pos_entry if positive else entry
    if integral:
        el = int_pos_entry if positive else int_entry
    u = [[draw(el) for _ in range(K)] for _ in range(N)]
    if not any(x > 0 for r in u for x in r):
        u[0][0] = 1.0
    return u


@st.composite
def w_matrices(draw, K, diagonal, positive=False, integral=False):
    el = pos_entry if positive else entry
    if integral:
        el = int_pos_entry if positive else int_entry
    w = [[0.0] * K for _ in range(K)]
    for k in range(K):
        w[k][k] = draw(el)
        if not diagonal:
            for q in range(k + 1, K):
                w[k][q] = w[q][k] = draw(el)
    return w


@st.composite
def param_cases(draw):
    N = draw(st.sampled_from([2, 3, 4, 5, 5, 6, 6, 7]))
    K = draw(st.sampled_from([1, 2, 2, 3, 3]))
    D = N - draw(st.integers(0, N - 2)) if draw(st.booleans()) else draw(st.integers(2, N))
    diagonal = draw(st.booleans())
    # a quarter of the cases: whole-number parameters handed over as int64 arrays (u, w or both)
    int_arrays = draw(st.sampled_from([None, None, None, None, None, None, "u", "w", "both"]))
    u = draw(u_matrices(N, K, integral=int_arrays in ("u", "both")))
    w = draw(w_matrices(K, diagonal, integral=int_arrays in ("w", "both")))
    # magnitudes: the identities are homogeneous, they must hold for tiny parameters as well
    # (all tolerances below are relative to M = (sum u)^T w (sum u))
    su = draw(st.sampled_from([1.0, 1.0, 1.0, 1e-3, 1e-6, 1e-8]))
    sw = draw(st.sampled_from([1.0, 1.0, 1.0, 1e-12, 1e3]))
    if int_arrays in ("u", "both"):
        su = 1.0
    if int_arrays in ("w", "both"):
        sw = 1.0
    u = [[x * su for x in r] for r in u]
    w = [[x * sw for x in r] for r in w]
    dims = draw(st.lists(st.integers(2, D), min_size=1, max_size=D - 1, unique=True))
    return {"N": N, "K": K, "D": D, "diagonal": diagonal, "u": u, "w": w, "dims": dims,
            "perm": draw(S.seeds), "int_arrays": int_arrays}


def _params_strategy(tier):
    return param_cases()


def _array(rows, as_int):
    """float64 array of the case's numbers; int64 when the case asks for an integer-dtype
    array (only drawn together with whole-number entries, verified here)."""
    if as_int:
        if not all(float(x).is_integer() for r in rows for x in r):
            raise AssertionError("integer-dtype array requested for non-integral entries")
        return np.array(rows, dtype=np.int64)
    return np.array(rows, dtype=float)


def make_model(case):
    from hypergraphx.communities.hy_mmsbm.model import HyMMSBM
    u = _array(case["u"], case.get("int_arrays") in ("u", "both"))
    w = _array(case["w"], case.get("int_arrays") in ("w", "both"))
    return HyMMSBM(u=u, w=w, max_hye_size=case["D"]), u, w


def _classify(case, ctx):
    ctx.label("N=%d" % case["N"], "K=%d" % case["K"], "D=%d" % case["D"],
              "w:diagonal" if case["diagonal"] else "w:full")
    if any(x == 0 for r in case["u"] for x in r):
        ctx.label("u has zero entry")
    if all(x == 0 for r in case["w"] for x in r):
        ctx.label("w all zero")
    if case.get("int_arrays"):
        ctx.label("int64 parameter array: " + case["int_arrays"])


# --------------------------------------------------------------------------
# identities


def check_poisson_params(case, ctx):
    from scipy import sparse
    from hypergraphx.linalg.linalg import hye_list_to_binary_incidence
    N, D = case["N"], case["D"]
    _classify(case, ctx)
    model, u0, w0 = make_model(case)
    P = pair_table(case["u"], case["w"])
    M = magnitude(case["u"], case["w"])
    hyes = permuted(all_hyperedges(N, D), case["perm"])   # column order is arbitrary
    dense = np.zeros((N, len(hyes)))
    for j, e in enumerate(hyes):
        for i in e:
            dense[i, j] = 1.0
    coo = hye_list_to_binary_incidence(hyes, shape=(N, len(hyes)))
    require(coo.shape == dense.shape and (coo.toarray() == dense).all(),
            lambda: "hye_list_to_binary_incidence(%r) is not the 0/1 incidence matrix" % (hyes,),
            key="incidence")
    variants = [("dense float", dense, hyes), ("dense uint8", dense.astype(np.uint8), hyes),
                ("sparse coo", coo, hyes), ("sparse csr", coo.tocsr(), hyes),
                ("sparse csc float", sparse.csc_array(dense), hyes)]
    # the same for a single hyperedge and for a drawn sub-list (matrices with 1 / few columns)
    n_sub = 1 + case["perm"] % min(len(hyes), 6)
    for sub in (hyes[:1], hyes[-n_sub:]):
        sub_coo = hye_list_to_binary_incidence(sub, shape=(N, len(sub)))
        variants += [("sparse coo, %d column(s)" % len(sub), sub_coo, sub),
                     ("sparse csr, %d column(s)" % len(sub), sub_coo.tocsr(), sub),
                     ("dense, %d column(s)" % len(sub), sub_coo.toarray().astype(float), sub)]
    for name, B, cols in variants:
        got = model.poisson_params(B)
        require(np.shape(got) == (len(cols),),
                lambda: "poisson_params(%s) has shape %r for %d hyperedges"
                % (name, np.shape(got), len(cols)), key="shape")
        for e, o in zip(cols, np.asarray(got).tolist()):
            x = lam(e, P)
            require(close(o, x, M),
                    lambda: "poisson_params(%s incidence) of hyperedge %r: definition "
                    "sum_{i<j} u_i^T w u_j = %r, got %r (u=%r, w=%r)"
                    % (name, e, x, o, case["u"], case["w"]), key="poisson_params")
    got, edge_sum = model.poisson_params(coo.tocsr(), return_edge_sum=True)
    for j, e in enumerate(hyes):
        for k in range(case["K"]):
            x = math.fsum(case["u"][i][k] for i in e)
            require(close(np.asarray(edge_sum)[j, k], x, 0.0),
                    lambda: "edge sum of hyperedge %r, community %d: expected %r, got %r"
                    % (e, k, x, np.asarray(edge_sum)[j, k]), key="edge_sum")
    require((model.u == u0).all() and (model.w == w0).all(),
            "poisson_params changed the model parameters", key="mutation")
    ctx.nontrivial(D >= 3 and case["K"] >= 2 and M > 0)


BIG_N = [60, 400, 1032, 1500, 5000]


def _check_kappa_large(case, ctx):
    """"for all N": the normalisation of a model with many nodes, where binom(N-2, d-2) leaves
    the float range (N-2 >= 1030 with mid-range sizes) -- log_kappa must stay the logarithm of
    the exact integer.  Only u of shape (N, 1) is built; nothing is enumerated."""
    from hypergraphx.communities.hy_mmsbm.model import HyMMSBM
    N = BIG_N[case["perm"] % len(BIG_N)]
    model = HyMMSBM(u=np.ones((N, 1)), w=np.ones((1, 1)), max_hye_size=N)
    sizes = sorted({2, 3, N // 7, N // 3, N // 2, N // 2 + 1, N - 1, N})
    sizes = [d for d in sizes if 2 <= d <= N]
    exact = [math.log(math.comb(N - 2, d - 2)) + math.log(d * (d - 1) // 2) for d in sizes]
    for d, e in zip(sizes, exact):
        got = float(model.log_kappa(d))
        require(math.isfinite(got) and abs(got - e) <= 1e-9 * max(1.0, abs(e)),
                lambda: "log_kappa(%d) with N=%d: expected log(binom(N-2,d-2)*d*(d-1)/2) = %r, "
                        "got %r" % (d, N, e, got), key="log_kappa_large")
    got = np.asarray(model.log_kappa(np.array(sizes)), dtype=float).tolist()
    require(len(got) == len(sizes) and all(
        math.isfinite(g) and abs(g - e) <= 1e-9 * max(1.0, abs(e)) for g, e in zip(got, exact)),
        lambda: "log_kappa(array %r) with N=%d: expected %r, got %r" % (sizes, N, exact, got),
        key="log_kappa_large")
    ctx.label("large_N=%d" % N)


def check_kappa(case, ctx):
    N, D = case["N"], case["D"]
    _classify(case, ctx)
    if case["perm"] % 8 == 0:
        _check_kappa_large(case, ctx)
    model, _, _ = make_model(case)
    dims = case["dims"]
    for d in range(2, D + 1):
        exp = kappa(N, d)
        for name, arg in (("int", d), ("numpy int", np.int64(d))):
            got = model.log_kappa(arg)
            require(np.ndim(got) == 0 and close(math.exp(got), exp, 0.0),
                    lambda: "exp(log_kappa(%s %d)) with N=%d: expected binom(N-2,d-2)*d*(d-1)/2 "
                    "= %d, got %r" % (name, d, N, exp, math.exp(got) if np.ndim(got) == 0 else got),
                    key="log_kappa")
    got = model.log_kappa(np.array(dims))
    require(np.shape(got) == (len(dims),),
            lambda: "log_kappa(array %r) has shape %r" % (dims, np.shape(got)), key="shape")
    for d, g in zip(dims, np.asarray(got).tolist()):
        require(close(math.exp(g), kappa(N, d), 0.0),
                lambda: "exp(log_kappa(array %r))[d=%d] with N=%d: expected %d, got %r"
                % (dims, d, N, kappa(N, d), math.exp(g)), key="log_kappa")
    got = model.log_kappa(np.array([], dtype=int))
    require(np.shape(got) == (0,),
            lambda: "log_kappa(empty array) returned %r, expected an empty array" % (got,),
            key="log_kappa_empty")
    # C: sum_d binom(N-2, d-2) / kappa_d, for "all", an int, an array; summands
    allD = list(range(2, D + 1))
    for name, arg, ds in (("'all'", "all", allD), ("int %d" % dims[0], dims[0], [dims[0]]),
                          ("array %r" % dims, np.array(dims), dims)):
        exp = C_def(N, ds)
        got = model.C(arg)
        require(close(got, exp, 0.0),
                lambda: "C(%s) with N=%d, D=%d: expected sum_d binom(N-2,d-2)/kappa_d = %r, got %r"
                % (name, N, D, exp, got), key="C")
        summ = np.asarray(model.C(arg, return_summands=True)).tolist()
        require(len(summ) == len(ds) and all(
            close(g, math.comb(N - 2, d - 2) / kappa(N, d), 0.0) for d, g in zip(ds, summ)),
            lambda: "C(%s, return_summands=True) with N=%d: expected %r, got %r"
            % (name, N, [math.comb(N - 2, d - 2) / kappa(N, d) for d in ds], summ),
            key="C_summands")
    got = model.C()
    require(close(got, C_def(N, allD), 0.0),
            lambda: "C() with N=%d, D=%d: expected %r, got %r" % (N, D, C_def(N, allD), got),
            key="C")
    ctx.nontrivial(D >= 3)


def check_expected_degree(case, ctx):
    N, D = case["N"], case["D"]
    _classify(case, ctx)
    model, u0, w0 = make_model(case)
    P = pair_table(case["u"], case["w"])
    M = magnitude(case["u"], case["w"])
    dims = case["dims"]
    allD = list(range(2, D + 1))

    def definition(ds):
        per_node = [[] for _ in range(N)]
        for d in ds:
            for e in itertools.combinations(range(N), d):
                x = lam(e, P) / kappa(N, d)
                for i in e:
                    per_node[i].append(x)
        return [math.fsum(t) for t in per_node]

    queries = [("d='all'", {"d": "all"}, allD), ("default d", {}, allD),
               ("d=array %r" % dims, {"d": np.array(dims)}, dims),
               ("d=int %d" % dims[0], {"d": dims[0]}, [dims[0]])]
    for name, kw, ds in queries:
        exp = definition(ds)
        got = model.expected_degree(per_node=True, **kw)
        require(np.shape(got) == (N,),
                lambda: "expected_degree(per_node=True, %s) has shape %r, N=%d"
                % (name, np.shape(got), N), key="shape")
        for i, (x, o) in enumerate(zip(exp, np.asarray(got).tolist())):
            require(close(o, x, M),
                    lambda: "expected_degree(per_node=True, %s)[node %d]: definition "
                    "sum_{e contains i} lambda_e/kappa_|e| = %r, got %r (N=%d, D=%d, u=%r, w=%r)"
                    % (name, i, x, o, N, D, case["u"], case["w"]), key="expected_degree")
        avg = math.fsum(exp) / N
        got = model.expected_degree(per_node=False, **kw)
        require(np.ndim(got) == 0 and close(got, avg, M),
                lambda: "expected_degree(per_node=False, %s): mean of the per-node definition "
                "= %r, got %r (N=%d, D=%d, u=%r, w=%r)" % (name, avg, got, N, D, case["u"], case["w"]),
                key="average_degree")
    # degree_sequence(expected=True) is the same quantity over sizes 2..D / 3..D
    for dyadic in (True, False):
        ds = allD if dyadic else allD[1:]
        exp = definition(ds)
        got = model.degree_sequence(include_dyadic=dyadic, expected=True)
        require(np.shape(got) == (N,) and all(
            close(o, x, M) for x, o in zip(exp, np.asarray(got).tolist())),
            lambda: "degree_sequence(include_dyadic=%r, expected=True): expected %r, got %r"
            % (dyadic, exp, np.asarray(got).tolist()), key="degree_sequence")
    require((model.u == u0).all() and (model.w == w0).all(),
            "expected_degree changed the model parameters", key="mutation")
    ctx.nontrivial(D >= 3 and case["K"] >= 2 and M > 0)


def check_dimension_sequence(case, ctx):
    N, D = case["N"], case["D"]
    _classify(case, ctx)
    model, _, _ = make_model(case)
    P = pair_table(case["u"], case["w"])
    M = magnitude(case["u"], case["w"])
    some_positive = False
    for dyadic in (True, False):
        ds = list(range(2 if dyadic else 3, D + 1))
        got = model.dimension_sequence(include_dyadic=dyadic, expected=True)
        require(isinstance(got, dict),
                lambda: "dimension_sequence(expected=True) returned %r" % (type(got),), key="type")
        got = {int(k): float(v) for k, v in got.items()}
        require(set(got) <= set(ds),
                lambda: "dimension_sequence(include_dyadic=%r, expected=True) lists sizes %r, "
                "allowed are %r" % (dyadic, sorted(got), ds), key="dimension_keys")
        for d in ds:
            exp = math.fsum(lam(e, P) for e in itertools.combinations(range(N), d)) / kappa(N, d)
            if exp > ATOL_FACTOR * M:
                some_positive = True
                require(d in got,
                        lambda: "dimension_sequence(include_dyadic=%r, expected=True) omits size %d "
                        "whose expected count is %r (got %r)" % (dyadic, d, exp, got),
                        key="dimension_missing")
            # an omitted size stands for "expected count not positive"
            o = got.get(d, 0.0)
            require(close(o, exp, M),
                    lambda: "dimension_sequence(include_dyadic=%r, expected=True)[%d]: definition "
                    "sum_{|e|=d} lambda_e/kappa_d = %r, got %r (N=%d, u=%r, w=%r)"
                    % (dyadic, d, exp, o, N, case["u"], case["w"]), key="dimension_sequence")
    ctx.nontrivial(D >= 3 and case["K"] >= 2 and some_positive)


# --------------------------------------------------------------------------
# fit


@st.composite
def sized_edges(draw, N, D, max_edges=8):
    """1..max_edges distinct node-index sets with sizes in 2..D, the first one of size D
    (so the maximum size of the data is D), each listed in a drawn order."""
    n = draw(st.integers(1, max_edges))
    out, seen = [], set()
    for j in range(n):
        d = D if j == 0 else draw(st.integers(2, D))
        e = draw(st.lists(st.integers(0, N - 1), min_size=d, max_size=d, unique=True))
        if tuple(sorted(e)) not in seen:
            seen.add(tuple(sorted(e)))
            out.append(e)
    return out


@st.composite
def fit_cases(draw, ascent=False, supplies=("u", "w", "u", "w", "both", "none"), dying=False):
    uni = draw(S.universes(min_size=3, max_size=7))
    labels = uni["labels"]
    N = len(labels)
    K = draw(st.sampled_from([1, 2, 2, 3, 3]))
    D = N - draw(st.integers(0, N - 2)) if draw(st.booleans()) else draw(st.integers(2, N))
    edges = draw(sized_edges(N, D))
    weighted = draw(st.booleans())
    weights = [draw(st.integers(1, 5)) for _ in edges] if weighted else None
    if weighted and draw(st.integers(0, 2)) == 0:
        # positive non-integer weights (a weighted hypergraph carries any positive number; the
        # Poisson log-likelihood a*log(m) - m - lgamma(a+1) is defined for real a and the
        # multiplicative updates are the same majorisation steps)
        weights = [draw(st.sampled_from([0.5, 1.5, 2.25, 0.5, 1, 3])) for _ in edges]
    assortative = draw(st.booleans())
    if ascent:
        supply = "u"
    else:
        supply = draw(st.sampled_from(list(supplies)))
    # whole-number parameters handed over as int64 arrays (a fifth of the cases)
    int_arrays = draw(st.integers(0, 4)) == 0
    u = (draw(u_matrices(N, K, positive=True, integral=int_arrays))
         if supply in ("u", "both") else None)
    w = None
    if supply in ("w", "both"):
        # zero entries (even a whole zero row: a community nobody can use) are allowed
        w = draw(w_matrices(K, assortative, positive=draw(st.booleans()), integral=int_arrays))
        if not any(x > 0 for r in w for x in r):
            w[0][0] = 1.0
    # (u_prior, w_prior); a prior on u with a free w is the scale-degenerate combination in
    # which surplus communities die out fastest
    priors = draw(st.sampled_from([(0.0, 0.0), (0.0, 1.0), (0.0, 3.0), (0.5, 0.0), (0.5, 0.0),
                                   (0.5, 1.0), (0.5, 3.0)]))
    priors = list(priors)
    # documented alternative: one rate per entry (w_prior symmetric, same shape as w; u_prior
    # of the shape of u); entries stay positive
    rate = st.sampled_from([0.5, 1.0, 3.0])
    if draw(st.integers(0, 4)) == 0:
        wp = [[0.0] * K for _ in range(K)]
        for k in range(K):
            for q in range(k, K):
                wp[k][q] = wp[q][k] = draw(rate)
        priors[1] = wp
    if not ascent and draw(st.integers(0, 5)) == 0:
        priors[0] = [[draw(rate) for _ in range(K)] for _ in range(N)]
    sparse_u = False
    if supply == "u" and K >= 2 and not dying and draw(st.integers(0, 2)) == 0:
        # hard / sparse memberships (zero entries, every row non-zero); half of the time one
        # community has a single member.  Only hyperedges that the model can produce are kept:
        # in an assortative model two of its nodes must share a community
        keep = [draw(st.lists(st.booleans(), min_size=K, max_size=K)) for _ in range(N)]
        for i in range(N):
            if not any(keep[i]):
                keep[i][draw(st.integers(0, K - 1))] = True
        if draw(st.booleans()):
            c, i0 = draw(st.integers(0, K - 1)), draw(st.integers(0, N - 1))
            for i in range(N):
                keep[i][c] = (i == i0)
                if not any(keep[i]):
                    keep[i][(c + 1) % K] = True
        su = [[x if keep[i][k] else 0.0 for k, x in enumerate(r)] for i, r in enumerate(u)]

        # row r of u belongs to the node that get_mapping() sends to r: the encoder sorts the
        # labels, which is predicted here and verified at run time (_in_support)
        rank = {i: r for r, i in enumerate(sorted(range(N), key=lambda i: labels[i]))}

        def producible(e):
            if not assortative:
                return True
            rows = [rank[i] for i in e]
            return any(su[i][k] > 0 and su[j][k] > 0 for a, i in enumerate(rows)
                       for j in rows[a + 1:] for k in range(K))
        kept = [j for j, e in enumerate(edges) if producible(e)]
        if kept:
            u, sparse_u = su, True
            edges = [edges[j] for j in kept]
            if weights is not None:
                weights = [weights[j] for j in kept]
            if draw(st.integers(0, 2)) > 0:
                # no prior on w: the update's denominator of a single-member community is
                # exactly 0 and only its guard decides what happens to a rounding residue
                priors[1] = 0.0
    case = {
        "kind": uni["kind"], "labels": labels, "edges": edges, "weights": weights,
        "add_all_nodes": draw(st.booleans()),
        "K": K, "assortative": assortative, "supply": supply, "u": u, "w": w,
        "u_prior": priors[0],
        "w_prior": priors[1],
        "max_hye": draw(st.sampled_from(["none", "none", "D", "D+1"])),
        "pass_K": draw(st.booleans()),
        "seed": draw(S.seeds),
        "sparse_u": sparse_u,
        "int_arrays": int_arrays and supply != "none",
    }
    if dying:
        # both parameters trained, more communities than the data support, a prior on u
        # only: the surplus communities decay doubly exponentially
        case.update(K=draw(st.sampled_from([2, 3])), supply="none", u=None, w=None,
                    assortative=draw(st.sampled_from([True, True, False])), u_prior=0.5,
                    int_arrays=False,
                    w_prior=draw(st.sampled_from([0.0, 0.0, 1.0])))
    if not ascent:
        case["n_iter"] = draw(st.sampled_from([8, 12, 20] if dying else [1, 2, 3, 5, 8, 12, 20]))
        case["tolerance"] = draw(st.sampled_from([None, None, 1e-3]))
        case["check_every"] = draw(st.sampled_from([1, 2, 10]))
    else:
        # the tolerance criterion may stop the run early: the sequence over n_iter must still
        # ascend (it becomes constant once the criterion is met)
        case["tolerance"] = draw(st.sampled_from([None, 1e-1, 1e-2, 1e-3]))
        case["check_every"] = draw(st.sampled_from([1, 1, 2]))
    return case


@with_history
def build_data(case):
    """The hypergraph of the case, its node->row table (public get_mapping) and the
    data as {sorted row-index tuple: count}."""
    from hypergraphx import Hypergraph
    labels = case["labels"]
    edges = [tuple(labels[i] for i in e) for e in case["edges"]]
    if case["weights"] is not None:
        h = Hypergraph(edge_list=edges, weighted=True, weights=list(case["weights"]))
    else:
        h = Hypergraph(edge_list=edges)
    used = {x for e in edges for x in e}
    if case["add_all_nodes"] or case["supply"] in ("u", "both"):
        # a supplied u has one row per label: all labels are nodes (isolated ones included)
        h.add_nodes([x for x in labels if x not in used])
        nodes = list(labels)
    else:
        nodes = [x for x in labels if x in used]
    require(h.num_nodes() == len(nodes),
            lambda: "num_nodes() = %d for %d nodes" % (h.num_nodes(), len(nodes)), key="num_nodes")
    idx = [int(i) for i in h.get_mapping().transform(nodes)]
    require(sorted(idx) == list(range(len(nodes))),
            lambda: "get_mapping() is not a bijection onto 0..N-1: %r" % (idx,), key="mapping")
    row = dict(zip(nodes, idx))
    data = {}
    for e, a in zip(edges, case["weights"] or [1] * len(edges)):
        data[tuple(sorted(row[x] for x in e))] = a
    return h, nodes, row, data


def data_max_size(case):
    return max(len(e) for e in case["edges"])


def model_max_size(case, N):
    """The maximum size the model is asked to use (None -> detected from the data)."""
    D = data_max_size(case)
    if case["max_hye"] == "D+1" and D + 1 <= N:
        return D + 1, D + 1
    if case["max_hye"] == "none":
        return None, D
    return D, D


def _prior_arg(p, rows=None):
    """A float, or an array of rates (for u: one row per node of the hypergraph)."""
    if not isinstance(p, list):
        return p
    return np.array(p if rows is None else p[:rows], dtype=float)


def _in_support(case, data):
    """Sparse supplied memberships of an assortative model: every observed hyperedge (row
    indices) must contain two nodes sharing a community, or its rate is 0 for every w."""
    if not (case.get("sparse_u") and case["assortative"]):
        return True
    u, K = case["u"], case["K"]
    return all(any(u[i][k] > 0 and u[j][k] > 0 for a, i in enumerate(e) for j in e[a + 1:]
                   for k in range(K)) for e in data)


def _prior_label(p):
    return "array" if isinstance(p, list) else "%g" % p


def new_model(case, N, seed=None):
    """Fresh model from the case (fresh arrays for the supplied parameters)."""
    from hypergraphx.communities.hy_mmsbm.model import HyMMSBM
    arg, _ = model_max_size(case, N)
    kw = {"assortative": case["assortative"], "max_hye_size": arg,
          "u_prior": _prior_arg(case["u_prior"], N), "w_prior": _prior_arg(case["w_prior"]),
          "seed": case["seed"] if seed is None else seed}
    u = w = None
    if case["u"] is not None:
        u = _array(case["u"], case.get("int_arrays"))
        kw["u"] = u
    if case["w"] is not None:
        w = _array(case["w"], case.get("int_arrays"))
        kw["w"] = w
    if case["pass_K"] or (u is None and w is None):
        kw["K"] = case["K"]
    return HyMMSBM(**kw), u, w


def _classify_fit(case, ctx, N):
    ctx.label("labels:" + case["kind"], "supplied:" + case["supply"], "K=%d" % case["K"],
              "assortative" if case["assortative"] else "full w",
              "weighted" if case["weights"] is not None else "unweighted",
              "max_hye_size:" + case["max_hye"], "w_prior=" + _prior_label(case["w_prior"]),
              "u_prior=" + _prior_label(case["u_prior"]), "data max size %d" % data_max_size(case))
    if case.get("int_arrays"):
        ctx.label("supplied parameters as int64 arrays")
    if case["weights"] is not None and any(not float(a).is_integer() for a in case["weights"]):
        ctx.label("non-integer weights")
    if case.get("sparse_u"):
        ctx.label("sparse memberships (zeros in the supplied u)")
        cols = list(zip(*case["u"]))
        if any(sum(1 for x in c if x > 0) == 1 for c in cols):
            ctx.label("community with a single member")
    used = {i for e in case["edges"] for i in e}
    if "n_iter" in case:
        ctx.label("n_iter >= 8" if case["n_iter"] >= 8 else "n_iter < 8")
    if len(used) < len(case["labels"]) and N == len(case["labels"]):
        ctx.label("has isolated node")


def check_fit_fixed_params(case, ctx):
    h, nodes, row, data = build_data(case)
    if not _in_support(case, data):
        ctx.exclude("sparse supplied u, assortative: an observed hyperedge has rate 0 for every w")
        return
    N = len(nodes)
    _classify_fit(case, ctx, N)
    model, u, w = new_model(case, N)
    u_copy = None if u is None else u.copy()
    w_copy = None if w is None else w.copy()
    model.fit(h, n_iter=case["n_iter"], tolerance=case["tolerance"],
              check_convergence_every=case["check_every"])
    for name, mine, copy_, attr in (("u", u, u_copy, model.u), ("w", w, w_copy, model.w)):
        if mine is None:
            continue
        require(np.shape(attr) == copy_.shape and np.array_equal(np.asarray(attr), copy_),
                lambda: "fit(n_iter=%d) changed the supplied %s: before %r, after %r"
                % (case["n_iter"], name, copy_.tolist(), np.asarray(attr).tolist()),
                key="fixed_changed")
        require(np.array_equal(mine, copy_),
                lambda: "fit(n_iter=%d) modified the caller's %s array in place: before %r, "
                "after %r" % (case["n_iter"], name, copy_.tolist(), mine.tolist()),
                key="caller_array")
    require(model.trained is True, "model.trained is not True after fit", key="trained")
    # fit() again on the same model (every second case with other settings): what was supplied
    # at construction still comes back bit-identical, the caller's arrays stay untouched
    again = {"n_iter": case["n_iter"], "tolerance": case["tolerance"],
             "check_convergence_every": case["check_every"]}
    if case["seed"] % 2:
        again = {"n_iter": 1 + case["seed"] % 4}
    model.fit(h, **again)
    for name, mine, copy_, attr in (("u", u, u_copy, model.u), ("w", w, w_copy, model.w)):
        if mine is None:
            continue
        require(np.shape(attr) == copy_.shape and np.array_equal(np.asarray(attr), copy_),
                lambda: "a second fit(%r) on the same model changed the supplied %s: at "
                "construction %r, now %r" % (again, name, copy_.tolist(), np.asarray(attr).tolist()),
                key="fixed_changed_refit")
        require(np.array_equal(mine, copy_),
                lambda: "a second fit(%r) on the same model modified the caller's %s array in "
                "place: before %r, after %r" % (again, name, copy_.tolist(), mine.tolist()),
                key="caller_array_refit")
    ctx.nontrivial(case["supply"] in ("u", "w") and case["n_iter"] >= 2)


def check_fit_validity(case, ctx):
    h, nodes, row, data = build_data(case)
    if not _in_support(case, data):
        ctx.exclude("sparse supplied u, assortative: an observed hyperedge has rate 0 for every w")
        return
    N = len(nodes)
    K = case["K"]
    _classify_fit(case, ctx, N)
    model, u, w = new_model(case, N)
    model.fit(h, n_iter=case["n_iter"], tolerance=case["tolerance"],
              check_convergence_every=case["check_every"])
    U, W = np.asarray(model.u), np.asarray(model.w)
    require(U.shape == (N, K) and W.shape == (K, K),
            lambda: "after fit u has shape %r and w %r; expected (%d,%d) and (%d,%d)"
            % (U.shape, W.shape, N, K, K, K), key="shape")
    for name, A in (("u", U), ("w", W)):
        require(np.isfinite(A).all(),
                lambda: "after fit(n_iter=%d) %s is not finite: %r" % (case["n_iter"], name, A.tolist()),
                key="not_finite")
        require((A >= -1e-12).all(),
                lambda: "after fit(n_iter=%d) %s has a negative entry: %r"
                % (case["n_iter"], name, A.tolist()), key="negative")
    tol = 1e-9 * float(np.abs(W).max()) if W.size else 0.0
    require(np.abs(W - W.T).max() <= tol,
            lambda: "after fit w is not symmetric (tolerance %g): %r" % (tol, W.tolist()),
            key="asymmetric")
    if case["assortative"]:
        off = W[~np.eye(K, dtype=bool)]
        require((off == 0).all(),
                lambda: "assortative model, but w is not diagonal after fit: %r" % (W.tolist(),),
                key="not_diagonal")
    ctx.nontrivial(case["supply"] != "both" and case["n_iter"] >= 2 and K >= 2)


def closed_forms_on(model, N, D, when, ctx):
    """poisson_params of every hyperedge of size 2..D, expected_degree (per node / average) and
    dimension_sequence(expected=True) of `model` against the definitions evaluated on the
    parameters the model CARRIES NOW (model.u, model.w read back).  Tolerance as for the
    closed-form clauses: relative 1e-9 plus 1e-13*M, M = (sum_i u_i)^T w (sum_i u_i), which
    bounds every addend of the shortcuts whatever the spread of the entries is."""
    from hypergraphx.linalg.linalg import hye_list_to_binary_incidence
    u = np.asarray(model.u, dtype=float).tolist()
    w = np.asarray(model.w, dtype=float).tolist()
    P = pair_table(u, w)
    M = magnitude(u, w)
    if 0 < abs(M) < 1e-250:
        ctx.exclude("parameters near the underflow range: no relative error bound")
        return
    hyes = all_hyperedges(N, D)
    got = model.poisson_params(hye_list_to_binary_incidence(hyes, shape=(N, len(hyes))))
    require(np.shape(got) == (len(hyes),),
            lambda: "%s: poisson_params has shape %r for %d hyperedges"
            % (when, np.shape(got), len(hyes)), key="shape")
    for e, o in zip(hyes, np.asarray(got).tolist()):
        x = lam(e, P)
        require(close(o, x, M),
                lambda: "%s: poisson_params of hyperedge %r: definition sum_{i<j} u_i^T w u_j "
                "= %r on the model's current parameters, got %r (u=%r, w=%r)"
                % (when, e, x, o, u, w), key="poisson_params_fit")
    if model.max_hye_size is None:
        return
    per_node = [[] for _ in range(N)]
    per_size = {}
    for e in hyes:
        x = lam(e, P) / kappa(N, len(e))
        per_size.setdefault(len(e), []).append(x)
        for i in e:
            per_node[i].append(x)
    exp = [math.fsum(t) for t in per_node]
    got = model.expected_degree(per_node=True)
    require(np.shape(got) == (N,) and all(
        close(o, x, M) for x, o in zip(exp, np.asarray(got).tolist())),
        lambda: "%s: expected_degree(per_node=True): definition on the model's current "
        "parameters %r, got %r (sizes 2..%d, u=%r, w=%r)"
        % (when, exp, np.asarray(got).tolist(), D, u, w), key="expected_degree_fit")
    avg = math.fsum(exp) / N
    got = model.expected_degree(per_node=False)
    require(np.ndim(got) == 0 and close(got, avg, M),
            lambda: "%s: expected_degree(per_node=False): definition on the model's current "
            "parameters %r, got %r (sizes 2..%d, u=%r, w=%r)" % (when, avg, got, D, u, w),
            key="average_degree_fit")
    got = model.dimension_sequence(include_dyadic=True, expected=True)
    got = {int(k): float(v) for k, v in got.items()}
    for d in range(2, D + 1):
        x = math.fsum(per_size[d])
        o = got.get(d, 0.0)      # an omitted size stands for "expected count not positive"
        require(close(o, x, M),
                lambda: "%s: dimension_sequence(include_dyadic=True, expected=True)[%d]: "
                "definition on the model's current parameters %r, got %r (u=%r, w=%r)"
                % (when, d, x, o, u, w), key="dimension_sequence_fit")
    require(set(got) <= set(range(2, D + 1)),
            lambda: "%s: dimension_sequence lists sizes %r, maximum size is %d"
            % (when, sorted(got), D), key="dimension_keys_fit")


def check_fit_max_size(case, ctx):
    """Documented in fit(): the maximum hyperedge size is 'detected automatically' from the
    data when the model was built with max_hye_size=None, and a supplied value is kept.  Every
    closed form above and the likelihood sum over 'all hyperedges up to the maximum size'."""
    h, nodes, row, data = build_data(case)
    if not _in_support(case, data):
        ctx.exclude("sparse supplied u, assortative: an observed hyperedge has rate 0 for every w")
        return
    N = len(nodes)
    _classify_fit(case, ctx, N)
    model, u, w = new_model(case, N)
    arg, expected = model_max_size(case, N)
    if case["supply"] == "both":
        # a complete model answers before it is fitted (the size-dependent quantities only
        # when a maximum size was supplied), and gives the same answers afterwards
        ctx.label("closed forms queried before fit")
        closed_forms_on(model, N, expected if arg is None else arg,
                        "HyMMSBM(u, w, max_hye_size=%r) before fit" % (arg,), ctx)
    model.fit(h, n_iter=case["n_iter"])
    got = model.max_hye_size
    require(got == expected,
            lambda: "HyMMSBM(max_hye_size=%r).fit(data with maximum hyperedge size %d): "
            "model.max_hye_size is %r afterwards, expected %d (sizes in the data: %r)"
            % (arg, data_max_size(case), got, expected,
               sorted(len(e) for e in case["edges"])), key="max_hye_size")
    # the normalisation constant follows the maximum size: sum_{d=2..D} binom(N-2,d-2)/kappa_d
    exp = C_def(N, range(2, expected + 1))
    require(close(model.C(), exp, 0.0),
            lambda: "C() after fit: expected %r for sizes 2..%d, got %r" % (exp, expected, model.C()),
            key="C_after_fit")
    # ... and so do the closed forms, evaluated on the parameters the model carries now
    closed_forms_on(model, N, expected, "after fit(n_iter=%d), supplied: %s"
                    % (case["n_iter"], case["supply"]), ctx)
    ctx.nontrivial(arg is None and data_max_size(case) >= 3)


N_ITERS = list(range(1, 9))


def check_em_ascent(case, ctx):
    h, nodes, row, data = build_data(case)
    if not _in_support(case, data):
        ctx.exclude("sparse supplied u, assortative: an observed hyperedge has rate 0 for every w")
        return
    N = len(nodes)
    K = case["K"]
    _classify_fit(case, ctx, N)
    _, D_model = model_max_size(case, N)
    # row r of the supplied u describes the node that get_mapping() sends to r; the data
    # are expressed in the same row indices (build_data)
    u_rows = case["u"]
    u_case = case
    Cconst = C_def(N, range(2, D_model + 1))
    values, plain = [], []
    for n in N_ITERS:
        model, u, _ = new_model(u_case, N)
        if case.get("tolerance") is None:
            model.fit(h, n_iter=n)
        else:
            model.fit(h, n_iter=n, tolerance=case["tolerance"],
                      check_convergence_every=case["check_every"])
        W = np.asarray(model.w, dtype=float)
        require(W.shape == (K, K) and np.isfinite(W).all() and (W >= -1e-12).all(),
                lambda: "after fit(n_iter=%d) w = %r" % (n, W.tolist()), key="w_invalid")
        wl = np.maximum(W, 0.0).tolist()
        L = log_likelihood(N, D_model, pair_table(u_rows, wl), data)
        require(math.isfinite(L),
                lambda: "after fit(n_iter=%d) an observed hyperedge has Poisson rate 0 although "
                "u > 0: w = %r" % (n, wl), key="zero_rate")
        plain.append(L)
        wp = case["w_prior"]
        if isinstance(wp, list):
            L = L - Cconst * math.fsum(wp[k][q] * wl[k][q] for k in range(K) for q in range(K))
        elif wp > 0:
            L = L - wp * Cconst * math.fsum(x for r in wl for x in r)
        values.append(L)
    what = ("exact Poisson log-likelihood" if case["w_prior"] == 0 else
            "MAP objective (log-likelihood - C*sum(w_prior*w))")
    ctx.trace = {"objective": what, "values": values, "plain_log_likelihood": plain,
                 "max_size_used": D_model}
    increased = False
    for a, b, n in zip(values, values[1:], N_ITERS[1:]):
        require(b >= a - 1e-9 * (1 + abs(a)),
                lambda: "%s of the data under (u, w after n EM iterations) decreased from %r "
                "(n_iter=%d) to %r (n_iter=%d); all values %r; sizes up to %d, N=%d, "
                "max_hye_size argument %r, w_prior=%r"
                % (what, a, n - 1, b, n, values, D_model, N, model_max_size(case, N)[0],
                   case["w_prior"]), key="ascent")
        if b > a + 1e-9 * (1 + abs(a)):
            increased = True
    if increased:
        ctx.label("objective strictly increased")
    ctx.label("tolerance:%s" % case.get("tolerance"))
    ctx.nontrivial(K >= 2 and data_max_size(case) >= 3 and increased)


def _fit_strategy(tier):
    return fit_cases()


def _validity_strategy(tier):
    # both parameters trained is where a community can die out (0/0 in the updates)
    general = fit_cases(supplies=("none", "none", "none", "u", "w", "both"))
    return st.one_of(general, general, fit_cases(dying=True))


def _ascent_strategy(tier):
    return fit_cases(ascent=True)


CLAUSES = [
    Clause("poisson_params", _params_strategy, check_poisson_params, quick=150, thorough=2000,
           shards_quick=2,
           rule="D >= 3, K >= 2 and at least one positive Poisson parameter; all hyperedges of "
                "size 2..D enumerated, dense and sparse incidence"),
    Clause("kappa", _params_strategy, check_kappa, quick=150, thorough=2000,
           rule="D >= 3 (every size 2..D as int and numpy int, a drawn array of sizes)"),
    Clause("expected_degree", _params_strategy, check_expected_degree, quick=150, thorough=2000,
           shards_quick=2,
           rule="D >= 3, K >= 2 and a positive expected degree"),
    Clause("dimension_sequence", _params_strategy, check_dimension_sequence, quick=200,
           thorough=2000,
           rule="D >= 3, K >= 2 and at least one size with positive expected count"),
    Clause("fit_fixed_params", _fit_strategy, check_fit_fixed_params, quick=200, thorough=2500,
           shards_quick=2,
           rule="exactly one of u, w supplied (the other one is trained) and n_iter >= 2"),
    Clause("fit_validity", _validity_strategy, check_fit_validity, quick=400, thorough=2500,
           shards_quick=2,
           rule="at least one parameter trained, n_iter >= 2, K >= 2"),
    Clause("fit_max_size", _fit_strategy, check_fit_max_size, quick=300, thorough=1000,
           rule="max_hye_size=None and data with a hyperedge of size >= 3"),
    Clause("em_ascent", _ascent_strategy, check_em_ascent, quick=150, thorough=1200,
           shards_quick=3,
           rule="K >= 2, data with a hyperedge of size >= 3, objective strictly increases at "
                "least once over n_iter = 1..8"),
]
