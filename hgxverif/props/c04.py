"""C04 -- MultiplexHypergraph keeps (hyperedge, layer) records; aggregation sums layers.

History machine with key = (frozenset nodes, layer) plus derived-object checks
after every step: aggregated_hypergraph() and edge_overlap(), which must leave
the multiplex object itself unchanged.
"""

from collections import Counter

from .. import history as H
from ..common import cedge, dc, dedupe, permuted
from ..common import nodes_with_metadata, clone_label
from ..engine import Clause, Violation, require

ASSUMPTIONS = [
    "oracle = RefMultiplex (dict (node set, layer) -> [weight, metadata])",
    "get_existing_layers must contain every layer in use and only layers that were ever "
    "inserted (sound under both readings of 'layers in use')",
    "the class has no clear/copy/remove_edges/remove_nodes/set_*_metadata: not generated",
    "a keep_edges=True shrink that leaves nothing drops the record (the class does so explicitly)",
    "metadata of aggregated hyperedges is not compared (unspecified which layer's wins)",
]

SIZES = list(range(0, 7))
LAYERS = H.LAYERS


def crec(r):
    nodes, layer = r
    return (cedge(nodes), layer)


class LayerRange:
    """Equals any set S with lo <= S <= hi."""

    def __init__(self, lo, hi):
        self.lo, self.hi = set(lo), set(hi)

    def __eq__(self, other):
        try:
            s = set(other)
        except TypeError:
            return False
        return self.lo <= s <= self.hi

    def __ne__(self, other):
        return not self.__eq__(other)

    def __repr__(self):
        return "any set between %r and %r" % (sorted(self.lo), sorted(self.hi))


class RefMultiplex(H.RefBase):
    def __init__(self, weighted):
        super().__init__(weighted)
        self.layers_seen = set()

    def nodes_of(self, key):
        return key[0]

    def shrink(self, key, n):
        new = key[0] - {n}
        return (new, key[1]) if new else None

    def add_edge(self, key, w=None, meta=None):
        ok = super().add_edge(key, w, meta)
        if ok:
            self.layers_seen.add(key[1])
        return ok

    # queries
    def is_weighted(self):
        return self.weighted

    def get_nodes(self, metadata=False):
        return dict(self.nodes) if metadata else list(self.nodes)

    @staticmethod
    def _t(k):
        return (tuple(sorted(k[0])), k[1])

    def get_edges(self, metadata=False):
        if metadata:
            return {self._t(k): v[1] for k, v in self.edges.items()}
        return [self._t(k) for k in self.edges]

    def get_weight(self, e, layer):
        return self.edges[(frozenset(e), layer)][0]

    def get_edge_metadata(self, e, layer):
        return self.edges[(frozenset(e), layer)][1]

    def get_incident_edges(self, n, order=None, size=None):
        if size is not None:
            order = size - 1
        return [self._t(k) for k in self.edges
                if n in k[0] and (order is None or len(k[0]) - 1 == order)]

    def degree(self, n, order=None, size=None):
        return len(self.get_incident_edges(n, order, size))

    def degree_sequence(self, order=None, size=None):
        return {n: self.degree(n, order, size) for n in self.nodes}

    def get_existing_layers(self):
        return LayerRange({k[1] for k in self.edges}, self.layers_seen)

    def overlap(self, e):
        fs = frozenset(e)
        return sum(v[0] for k, v in self.edges.items() if k[0] == fs)


def observe(h, U, probes, real):
    if real:
        from hypergraphx.measures.degree import degree as m_degree
        from hypergraphx.measures.degree import degree_sequence as m_dseq
    else:
        m_degree = lambda g, n, **kw: g.degree(n, **kw)  # noqa
        m_dseq = lambda g, **kw: g.degree_sequence(**kw)  # noqa
    o = {}
    nodes = list(h.get_nodes())
    o["get_nodes"] = Counter(nodes)
    o["is_weighted"] = h.is_weighted()
    edges = [crec(e) for e in h.get_edges()]
    o["get_edges"] = Counter(edges)
    o["edges_meta"] = {crec(k): dc(v) for k, v in h.get_edges(metadata=True).items()}
    layers = h.get_existing_layers()
    o["existing_layers"] = layers if isinstance(layers, LayerRange) else set(layers)
    o["get_weight"], o["edge_meta"] = {}, {}
    eset = set(edges)
    for p in list(probes) + [e for e in edges if e not in probes]:
        if p in eset:
            rn = tuple(reversed(p[0]))
            o["get_weight"][p] = h.get_weight(rn, p[1])
            o["edge_meta"][p] = dc(h.get_edge_metadata(rn, p[1]))
    inc, deg, mdeg, nmeta = {}, {}, {}, {}
    for n0 in nodes:
        n = clone_label(n0)   # equal label, other object: found by equality
        inc[n] = Counter(crec(e) for e in h.get_incident_edges(n))
        deg[n] = {None: h.degree(n)}
        mdeg[n] = {None: m_degree(h, n)}
        for k in SIZES:
            deg[n][("size", k)] = h.degree(n, size=k)
            deg[n][("order", k - 1)] = h.degree(n, order=k - 1)
            mdeg[n][("size", k)] = m_degree(h, n, size=k)
        nmeta[n] = dc(nodes_with_metadata(h)[n])
    o["get_incident_edges"], o["degree"], o["measures.degree"] = inc, deg, mdeg
    o["node_meta"] = nmeta
    o["nodes_meta"] = {k: dc(v) for k, v in nodes_with_metadata(h).items()}
    o["degree_sequence"] = {None: dict(h.degree_sequence())}
    o["measures.degree_sequence"] = dict(m_dseq(h))
    for k in SIZES:
        o["degree_sequence"][("size", k)] = dict(h.degree_sequence(size=k))
        o["degree_sequence"][("order", k - 1)] = dict(h.degree_sequence(order=k - 1))
    return o


class MultiplexAdapter(H.Adapter):
    name = "MultiplexHypergraph"
    has_clear = has_copy = has_remove_edges = has_remove_nodes = False
    has_set_edge_metadata = has_set_node_metadata = False
    empty_shrink_excluded = False

    def fresh_record(self, spec, U):
        return {"e": dedupe([U[i % len(U)] for i in spec["ns"]]),
                "layer": LAYERS[spec["layer"] % len(LAYERS)]}

    def record_of_key(self, key, perm):
        return {"e": permuted(sorted(key[0]), perm), "layer": key[1]}

    def variant_of_key(self, key, spec, U):
        # the same node set in another layer
        return {"e": permuted(sorted(key[0]), spec["perm"]),
                "layer": LAYERS[spec["layer"] % len(LAYERS)]}

    def batch_dup_token(self, rec):
        return (tuple(rec["e"]), rec["layer"])

    def key_of(self, rec):
        return (frozenset(rec["e"]), rec["layer"])

    def probe_of_key(self, key):
        return (tuple(sorted(key[0])), key[1])

    def sort_key(self, key):
        return (key[1], len(key[0]), sorted(key[0]))

    def new_model(self, weighted):
        return RefMultiplex(weighted)

    def construct(self, weighted, recs, ws, metas, node_meta, hg_meta):
        from hypergraphx import MultiplexHypergraph
        kw = {"weighted": True} if weighted else {}   # the documented default is unweighted
        if hg_meta is not None:
            kw["hypergraph_metadata"] = hg_meta
        if node_meta is not None:
            kw["node_metadata"] = node_meta
        if recs:
            if len(recs) % 2:
                # the documented alternative: (edge, layer) pairs and no edge_layer
                kw["edge_list"] = [(tuple(r["e"]), r["layer"]) for r in recs]
            else:
                kw["edge_list"] = [tuple(r["e"]) for r in recs]
                kw["edge_layer"] = [r["layer"] for r in recs]
            if ws is not None:
                kw["weights"] = ws
            if metas is not None:
                kw["edge_metadata"] = metas
        return MultiplexHypergraph(**kw)

    def r_add_nodes(self, h, ns, metas, skip_first=False):
        if metas is None:
            h.add_nodes(list(ns))
        else:
            h.add_nodes(list(ns), node_metadata={n: metas[i] for i, n in enumerate(ns)
                                                 if not (skip_first and i == 0)})

    def r_add_edge(self, h, r, w, meta):
        kw = {}
        if w is not None:
            kw["weight"] = w
        if meta is not None:
            kw["metadata"] = meta
        h.add_edge(tuple(r["e"]), r["layer"], **kw)

    def r_add_edges(self, h, rs, ws, metas):
        kw = {}
        if ws is not None:
            kw["weights"] = ws
        if metas is not None:
            kw["metadata"] = metas
        h.add_edges([tuple(r["e"]) for r in rs], [r["layer"] for r in rs], **kw)

    def r_remove_edge(self, h, r):
        h.remove_edge((tuple(r["e"]), r["layer"]))

    def r_set_weight(self, h, r, w):
        h.set_weight(tuple(r["e"]), r["layer"], w)

    def r_set_attr_edge(self, h, r, f, v):
        h.set_attr_to_edge_metadata(tuple(r["e"]), r["layer"], f, v)

    def r_remove_attr_edge(self, h, r, f):
        h.remove_attr_from_edge_metadata(tuple(r["e"]), r["layer"], f)

    def observe(self, h, U, probes, real):
        return observe(h, U, probes, real)

    def hg_meta_of(self, h):
        return dc(h.get_hypergraph_metadata())

    # ---- derived: aggregation and overlap after every step
    def extra_checks(self, h, model, U, step, ctx, final):
        from hypergraphx.measures.multiplex import edge_overlap
        agg = h.aggregated_hypergraph()
        want = {}
        multi = False
        for (fs, layer), (w, _) in model.edges.items():
            e = tuple(sorted(fs))
            if e in want:
                multi = True
                want[e] = want[e] + w if model.weighted else 1
            else:
                want[e] = w if model.weighted else 1
        got = Counter(cedge(e) for e in agg.get_edges())
        require(got == Counter(want.keys()),
                lambda: "aggregated_hypergraph(): hyperedges %r, expected the distinct node sets %r"
                % (dict(got), sorted(want)), key="aggregate-edges")
        for e, w in want.items():
            require(agg.get_weight(e) == w,
                    lambda: "aggregated_hypergraph(): weight of %r is %r, expected %r"
                    % (e, agg.get_weight(e), w), key="aggregate-weight")
        require(Counter(agg.get_nodes()) == Counter(model.nodes.keys()),
                lambda: "aggregated_hypergraph(): nodes %r, expected %r"
                % (sorted(agg.get_nodes(), key=repr), sorted(model.nodes, key=repr)),
                key="aggregate-nodes")
        # (node metadata of the aggregated hypergraph: not claimed -- 'has the same nodes')
        require(agg.is_weighted() == model.weighted,
                lambda: "aggregated_hypergraph().is_weighted() = %r for a multiplex hypergraph "
                        "with weighted=%r" % (agg.is_weighted(), model.weighted),
                key="aggregate-weighted")
        # overlap: present node sets, and an absent one
        for e in list(want)[:6]:
            ov = edge_overlap(h, tuple(reversed(e)))
            exp = model.overlap(e)
            require(ov == exp, lambda: "edge_overlap(%r) = %r, expected %r" % (e, ov, exp),
                    key="overlap")
        absent = tuple(sorted(U[:2]))
        if frozenset(absent) not in {k[0] for k in model.edges}:
            require(edge_overlap(h, absent) == 0, "edge_overlap of an absent node set is not 0",
                    key="overlap-absent")
        if multi:
            ctx.label("node_set_in_two_layers")
            ctx.nontrivial()
        return True


ADAPTER = MultiplexAdapter()


def check_history(case, ctx):
    H.check_history(ADAPTER, case, ctx)
    for op in case["ops"]:
        if op["op"] == "add_edges" and op["ws"] is not None:
            ctx.label("weighted_batch")


KINDS = [k for k in H.KINDS if k not in ("remove_edges", "remove_nodes", "copy",
                                         "set_node_metadata", "set_edge_metadata",
                                         "rmw_node", "rmw_edge")]
KINDS += ["set_layer_meta", "set_dataset_meta"]


def _strategy(tier):
    return H.histories(30 if tier == "quick" else 50, kinds=KINDS, clear=False)


CLAUSES = [
    Clause(
        "history", _strategy, check_history, quick=150, thorough=3000, shards_quick=4,
        rule="history with a removal and a re-insertion/shrink, or a state in which one node set "
             "lives in two layers when the aggregation is checked; distinct by canonical JSON",
    ),
]
