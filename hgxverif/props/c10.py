"""C10 -- graph projections encode exactly the incidence structure.

Every clause builds the hypergraph through the public API from the abstract
content of the case (labels + index sets), calls one projection and compares
the returned networkx graph / id table / Hypergraph with the definition
evaluated by brute force on the abstract content (plain sets, exact Fractions).
"""

from collections import Counter
from fractions import Fraction
from itertools import combinations

from hypothesis import strategies as st

from ..common import cedge
from ..engine import Clause, Violation, require
from ..oracles import projcent as P

ASSUMPTIONS = [
    "oracle = the definitions in the property text evaluated on plain Python sets and exact "
    "Fractions (hgxverif/oracles/projcent.py, hgxverif/props/c10.py); networkx is trusted only as "
    "a container (nodes(), has_edge, edge data)",
    "Jaccard thresholds are rationals p/q with q <= 6 handed over as the correctly rounded double "
    "p/q: for similarities with denominators <= 10 the float comparison `>=` and the exact "
    "rational one coincide (monotone correctly rounded division, distinct values >= 1/60 apart)",
    "weighted line graphs: the `weight` attribute must equal the intersection size exactly, the "
    "Jaccard value within 1e-12 absolute (one division; allows an algebraically equal formula); "
    "the attribute of an unweighted line graph is unspecified and not inspected",
    "clique projection with keep_isolated=False: vertices without a neighbour may or may not be "
    "listed (the statement only says isolated nodes are kept when asked); every listed vertex must "
    "be a node and every node with a neighbour must be listed",
    "simplicial complex: only its non-empty hyperedges are constrained (the statement says so); "
    "an empty hyperedge () in the result is counted under label 'empty-hyperedge-present', its "
    "node set is not constrained",
    "directed hyperedges have disjoint non-empty source and target sets; similarity functions "
    "are called on sets whose union is non-empty (Jaccard of two empty sets is undefined)",
    "re-inserting an existing hyperedge (drawn in ~40% of the cases) does not change the "
    "abstract hypergraph (property C01), so the projections must not change either",
]

# --------------------------------------------------------------------------
# helpers


def _graph_kind(g, directed, what):
    import networkx as nx
    require(isinstance(g, nx.Graph), lambda: "%s: returned %r, not a networkx graph" % (what, type(g)),
            key="type")
    require(g.is_directed() == directed and not g.is_multigraph(),
            lambda: "%s: expected a simple %s graph, got directed=%r multigraph=%r"
            % (what, "directed" if directed else "undirected", g.is_directed(), g.is_multigraph()),
            key="type")


def _labels(ctx, hc, nodes, covered, n_edges):
    ctx.label("labels-" + hc["kind"])
    if hc["weighted"]:
        ctx.label("weighted-hypergraph")
    if hc["readd"]:
        ctx.label("re-inserted-hyperedge")
    if nodes - covered:
        ctx.label("has-isolated-node")
    if not n_edges:
        ctx.label("no-hyperedges")


def _covered(edges):
    out = set()
    for e in edges:
        out |= e
    return out


def _ckey(x):
    """Sort key that works for int and str labels of one universe."""
    return repr(x)


# --------------------------------------------------------------------------
# C10.bipartite


def s_bipartite(tier):
    return P.hypergraph_cases(max_nodes=8, max_edges=8 if tier == "quick" else 10)


def check_bipartite(case, ctx):
    from hypergraphx.representations.projections import bipartite_projection
    nodes, edges = P.content(case)
    h = P.build_hypergraph(case)
    g, table = bipartite_projection(h)
    _graph_kind(g, False, "bipartite_projection")
    _labels(ctx, case, nodes, _covered(edges), len(edges))
    verts = list(g.nodes())
    require(len(set(verts)) == len(verts) and set(verts) == set(table.keys()),
            lambda: "bipartite_projection: vertex set %r differs from the keys of the id table %r"
            % (sorted(verts, key=repr), sorted(table.keys(), key=repr)), key="bip-table-keys")
    exp_objs = Counter([("n", x) for x in nodes] + [("e", tuple(sorted(e))) for e in edges])
    obj = {}
    for v, o in table.items():
        obj[v] = ("e", cedge(o)) if isinstance(o, (tuple, list)) else ("n", o)
    got_objs = Counter(obj.values())
    require(got_objs == exp_objs,
            lambda: "bipartite_projection: id table must be a bijection onto nodes + hyperedges; "
                    "expected objects %r, table maps to %r (nodes=%r, hyperedges=%r)"
            % (sorted(exp_objs.items(), key=repr), sorted(got_objs.items(), key=repr),
               sorted(nodes, key=repr), sorted(map(sorted, edges), key=repr)),
            key="bip-table-bijection")
    exp_links = set()
    for e in edges:
        for x in e:
            exp_links.add((("n", x), ("e", tuple(sorted(e)))))
    got_links = set()
    for u, v in g.edges():
        a, b = obj[u], obj[v]
        if a[0] == "e" and b[0] == "n":
            a, b = b, a
        require(a[0] == "n" and b[0] == "e",
                lambda: "bipartite_projection: vertices %r (%r) and %r (%r) are joined but are "
                        "not a node and a hyperedge" % (u, obj[u], v, obj[v]), key="bip-same-side")
        got_links.add((a, b))
    require(got_links == exp_links,
            lambda: "bipartite_projection: links must be exactly the memberships; missing %r, "
                    "unexpected %r" % (sorted(exp_links - got_links, key=repr),
                                       sorted(got_links - exp_links, key=repr)), key="bip-links")
    require(g.number_of_edges() == len(exp_links),
            lambda: "bipartite_projection: %d links, expected %d memberships"
            % (g.number_of_edges(), len(exp_links)), key="bip-links")
    ctx.nontrivial(len(edges) >= 2 and any(len(e & f) for e, f in combinations(edges, 2)))


# --------------------------------------------------------------------------
# C10.clique


@st.composite
def s_clique_cases(draw, tier):
    hc = draw(P.hypergraph_cases(max_nodes=8, max_edges=8 if tier == "quick" else 10))
    return {"h": hc, "keep_isolated": draw(st.sampled_from([None, False, True]))}


def check_clique(case, ctx):
    from hypergraphx.representations.projections import clique_projection
    hc = case["h"]
    nodes, edges = P.content(hc)
    h = P.build_hypergraph(hc)
    keep = case["keep_isolated"]
    g = clique_projection(h) if keep is None else clique_projection(h, keep_isolated=keep)
    _graph_kind(g, False, "clique_projection")
    _labels(ctx, hc, nodes, _covered(edges), len(edges))
    ctx.label("keep_isolated=%r" % (keep,))
    exp_pairs = set()
    for e in edges:
        for u, v in combinations(sorted(e, key=_ckey), 2):
            exp_pairs.add(frozenset((u, v)))
    got_pairs = set()
    for u, v in g.edges():
        require(u != v, lambda: "clique_projection: self-loop on %r" % (u,), key="clique-loop")
        got_pairs.add(frozenset((u, v)))
    require(got_pairs == exp_pairs,
            lambda: "clique_projection(keep_isolated=%r): pairs must be exactly those inside a "
                    "common hyperedge; missing %r, unexpected %r (hyperedges %r)"
            % (keep, sorted(map(sorted, exp_pairs - got_pairs)),
               sorted(map(sorted, got_pairs - exp_pairs)), sorted(map(sorted, edges), key=repr)),
            key="clique-pairs")
    verts = list(g.nodes())
    require(len(set(verts)) == len(verts), "clique_projection: a vertex is listed twice")
    paired = set()
    for p in exp_pairs:
        paired |= p
    if keep:
        require(set(verts) == nodes,
                lambda: "clique_projection(keep_isolated=True): vertex set %r, expected all nodes %r"
                % (sorted(verts, key=repr), sorted(nodes, key=repr)), key="clique-isolated")
    else:
        require(paired <= set(verts) <= nodes,
                lambda: "clique_projection(keep_isolated=%r): vertex set %r must contain the "
                        "paired nodes %r and only nodes of the hypergraph %r"
                % (keep, sorted(verts, key=repr), sorted(paired, key=repr),
                   sorted(nodes, key=repr)), key="clique-vertices")
    ctx.nontrivial(bool(exp_pairs) and bool(nodes - paired))


# --------------------------------------------------------------------------
# C10.line_graph


@st.composite
def s_line_cases(draw, tier):
    hc = draw(P.hypergraph_cases(max_nodes=8, min_edges=0,
                                 max_edges=7 if tier == "quick" else 10))
    distance = draw(st.sampled_from(["intersection", "jaccard"]))
    _, edges = P.content(hc)
    present = [P.exact_sim(distance, a, b) for a, b in combinations(edges, 2)]
    pq = draw(P.thresholds(distance, [v for v in present if v > 0]))
    return {"h": hc, "distance": distance, "s": pq,
            "weighted": draw(st.booleans()),
            "via": draw(st.sampled_from(["function", "function-kw", "method"]))}


def _table_keys(what, g, table):
    """Vertex set of the graph == key set of the id table (each vertex once)."""
    verts = list(g.nodes())
    require(len(set(verts)) == len(verts) and set(verts) == set(table.keys()),
            lambda: "%s: vertex set %r differs from the keys of the id table %r"
            % (what, sorted(verts, key=repr), sorted(table.keys(), key=repr)), key="lg-table-keys")
    return verts


def check_line_graph(case, ctx):
    from hypergraphx.representations.projections import line_graph
    hc = case["h"]
    nodes, edges = P.content(hc)
    h = P.build_hypergraph(hc)
    distance, weighted = case["distance"], case["weighted"]
    s_exact = P.threshold_exact(distance, case["s"])
    s_base = Fraction(case["s"][0], case["s"][1])
    nudged = len(case["s"]) > 2 and case["s"][2]
    if nudged:
        ctx.label("threshold-one-ulp-%s-a-rational" % ("above" if nudged > 0 else "below"))
    s_arg = P.threshold_arg(distance, case["s"])
    if case["via"] == "function":
        g, table = line_graph(h, distance, s_arg, weighted)
    elif case["via"] == "function-kw":
        g, table = line_graph(h, weighted=weighted, s=s_arg, distance=distance)
    else:
        g, table = h.to_line_graph(distance=distance, s=s_arg, weighted=weighted)
    what = "line_graph(distance=%r, s=%r, weighted=%r)" % (distance, s_arg, weighted)
    _graph_kind(g, False, what)
    _labels(ctx, hc, nodes, _covered(edges), len(edges))
    ctx.label(distance, "weighted" if weighted else "unweighted", "via-" + case["via"])
    verts = _table_keys(what, g, table)
    of = {v: cedge(e) for v, e in table.items()}
    exp_edges = Counter(tuple(sorted(e)) for e in edges)
    require(Counter(of.values()) == exp_edges,
            lambda: "%s: id table must be a bijection onto the hyperedges %r, it maps to %r"
            % (what, sorted(exp_edges), sorted(of.values())), key="lg-table-bijection")
    exact_hit = below_hit = False
    for u in verts:
        require(not g.has_edge(u, u),
                lambda: "%s: self-loop on vertex %r (hyperedge %r)" % (what, u, of[u]),
                key="lg-self-loop")
    n_exp = 0
    for u, v in combinations(verts, 2):
        a, b = set(of[u]), set(of[v])
        sim = P.exact_sim(distance, a, b)
        exp = sim >= s_exact
        n_exp += exp
        if sim == s_exact or (nudged and sim == s_base):
            exact_hit = True
        if 0 < sim < s_exact:
            below_hit = True
        got = g.has_edge(u, v)
        require(got == exp,
                lambda: "%s: hyperedges %r and %r have %s %s, threshold %s, so they must %sbe "
                        "joined; has_edge=%r" % (what, of[u], of[v], distance, sim, s_exact,
                                                 "" if exp else "not ", got), key="lg-adjacency")
        if exp and weighted:
            w = g[u][v].get("weight")
            ok = (w == sim.numerator if distance == "intersection"
                  else (isinstance(w, (int, float)) and abs(w - sim.numerator / sim.denominator) <= 1e-12))
            require(ok, lambda: "%s: weight of the link between %r and %r is %r, expected the "
                                "%s %s" % (what, of[u], of[v], w, distance, sim), key="lg-weight")
    require(g.number_of_edges() == n_exp,
            lambda: "%s: %d links, expected %d" % (what, g.number_of_edges(), n_exp),
            key="lg-adjacency")
    if exact_hit:
        ctx.label("pair-exactly-on-threshold")
    if below_hit:
        ctx.label("pair-just-below-threshold")
    ctx.nontrivial(exact_hit and below_hit)


# --------------------------------------------------------------------------
# C10.directed_line_graph


@st.composite
def s_dline_cases(draw, tier):
    dc = draw(P.directed_cases(max_nodes=6 if tier == "quick" else 7,
                               max_edges=6 if tier == "quick" else 9))
    distance = draw(st.sampled_from(["intersection", "jaccard"]))
    _, edges = P.directed_content(dc)
    present = [P.exact_sim(distance, e[1], f[0]) for e in edges for f in edges if e != f]
    pq = draw(P.thresholds(distance, [v for v in present if v > 0]))
    return {"h": dc, "distance": distance, "s": pq, "weighted": draw(st.booleans()),
            "via": draw(st.sampled_from(["function", "function-kw", "method"]))}


def _cdedge(e):
    s, t = e
    return (cedge(s), cedge(t))


def check_directed_line_graph(case, ctx):
    from hypergraphx.representations.projections import directed_line_graph
    dc = case["h"]
    nodes, edges = P.directed_content(dc)
    h = P.build_directed(dc)
    distance, weighted = case["distance"], case["weighted"]
    s_exact = P.threshold_exact(distance, case["s"])
    s_base = Fraction(case["s"][0], case["s"][1])
    nudged = len(case["s"]) > 2 and case["s"][2]
    if nudged:
        ctx.label("threshold-one-ulp-%s-a-rational" % ("above" if nudged > 0 else "below"))
    s_arg = P.threshold_arg(distance, case["s"])
    if case["via"] == "function":
        g, table = directed_line_graph(h, distance, s_arg, weighted)
    elif case["via"] == "function-kw":
        g, table = directed_line_graph(h, weighted=weighted, s=s_arg, distance=distance)
    else:
        g, table = h.to_line_graph(distance=distance, s=s_arg, weighted=weighted)
    what = "directed_line_graph(distance=%r, s=%r, weighted=%r)" % (distance, s_arg, weighted)
    _graph_kind(g, True, what)
    _labels(ctx, dc, nodes, _covered([a | b for a, b in edges]), len(edges))
    ctx.label(distance, "weighted" if weighted else "unweighted", "via-" + case["via"])
    verts = _table_keys(what, g, table)
    of = {v: _cdedge(e) for v, e in table.items()}
    exp_edges = Counter((tuple(sorted(a)), tuple(sorted(b))) for a, b in edges)
    require(Counter(of.values()) == exp_edges,
            lambda: "%s: id table must be a bijection onto the hyperedges %r, it maps to %r"
            % (what, sorted(exp_edges), sorted(of.values())), key="dlg-table-bijection")
    exact_hit = below_hit = asym = False
    n_exp = 0
    for u in verts:
        require(not g.has_edge(u, u),
                lambda: "%s: self-loop on vertex %r (hyperedge %r)" % (what, u, of[u]),
                key="dlg-self-loop")
        for v in verts:
            if u == v:
                continue
            sim = P.exact_sim(distance, of[u][1], of[v][0])   # target(u) vs source(v)
            back = P.exact_sim(distance, of[v][1], of[u][0])
            exp = sim >= s_exact
            n_exp += exp
            if sim == s_exact or (nudged and sim == s_base):
                exact_hit = True
            if 0 < sim < s_exact:
                below_hit = True
            if exp != (back >= s_exact):
                asym = True
            got = g.has_edge(u, v)
            require(got == exp,
                    lambda: "%s: target set of %r and source set of %r have %s %s, threshold %s, "
                            "so the arc must %sexist; has_edge=%r"
                    % (what, of[u], of[v], distance, sim, s_exact, "" if exp else "not ", got),
                    key="dlg-adjacency")
            if exp and weighted:
                w = g[u][v].get("weight")
                ok = (w == sim.numerator if distance == "intersection"
                      else (isinstance(w, (int, float))
                            and abs(w - sim.numerator / sim.denominator) <= 1e-12))
                require(ok, lambda: "%s: weight of the arc %r -> %r is %r, expected the %s %s"
                        % (what, of[u], of[v], w, distance, sim), key="dlg-weight")
    require(g.number_of_edges() == n_exp,
            lambda: "%s: %d arcs, expected %d" % (what, g.number_of_edges(), n_exp),
            key="dlg-adjacency")
    if exact_hit:
        ctx.label("pair-exactly-on-threshold")
    if below_hit:
        ctx.label("pair-just-below-threshold")
    if asym:
        ctx.label("one-way-arc")
    ctx.nontrivial(exact_hit and (below_hit or asym))


# --------------------------------------------------------------------------
# C10.simplicial_complex


def s_simplicial(tier):
    return P.hypergraph_cases(max_nodes=8, max_edges=6 if tier == "quick" else 8)


def check_simplicial(case, ctx):
    from hypergraphx.representations.simplicial_complex import simplicial_complex
    nodes, edges = P.content(case)
    h = P.build_hypergraph(case)
    S = simplicial_complex(h)
    _labels(ctx, case, nodes, _covered(edges), len(edges))
    got = [cedge(e) for e in S.get_edges()]
    if () in got:
        ctx.label("empty-hyperedge-present")
    got_ne = Counter(e for e in got if len(e) > 0)
    closure = set()
    for e in edges:
        se = sorted(e, key=_ckey)
        for k in range(1, len(se) + 1):
            for sub in combinations(se, k):
                closure.add(tuple(sorted(sub)))
    exp = Counter(closure)
    missing = sorted(set(exp) - set(got_ne), key=repr)
    extra = sorted(set(got_ne) - set(exp), key=repr)
    require(not missing,
            lambda: "simplicial_complex of %r: non-empty subsets %r of a hyperedge are missing"
            % (sorted(map(sorted, edges), key=repr), missing[:6]), key="sc-missing")
    require(not extra,
            lambda: "simplicial_complex of %r: hyperedges %r are not a subset of any input "
                    "hyperedge" % (sorted(map(sorted, edges), key=repr), extra[:6]), key="sc-extra")
    require(got_ne == exp,
            lambda: "simplicial_complex: a hyperedge is listed more than once: %r"
            % ([e for e, c in got_ne.items() if c > 1],), key="sc-dup")
    nested = any(a < b for a in edges for b in edges)
    if nested:
        ctx.label("nested-input")
    ctx.nontrivial(len(edges) >= 2 and any(len(e) >= 3 for e in edges)
                   and any(a & b for a, b in combinations(edges, 2)))


# --------------------------------------------------------------------------
# C10.similarity


@st.composite
def s_similarity_cases(draw, tier):
    from .. import strategies as S
    U = draw(S.universes(2, 8, ("ints", "strs")))
    n = len(U["labels"])
    a = draw(st.lists(st.integers(0, n - 1), max_size=6, unique=True))
    b = draw(st.lists(st.integers(0, n - 1), min_size=0 if a else 1, max_size=6, unique=True))
    return {"kind": U["kind"], "labels": U["labels"], "a": a, "b": b}


def check_similarity(case, ctx):
    from hypergraphx.measures.edge_similarity import (intersection, jaccard_distance,
                                                      jaccard_similarity)
    L = case["labels"]
    a = {L[i] for i in case["a"]}
    b = {L[i] for i in case["b"]}
    i, u = len(a & b), len(a | b)
    ctx.label("labels-" + case["kind"])
    if not a or not b:
        ctx.label("one-empty-set")
    if a == b:
        ctx.label("equal-sets")
    if i == 0:
        ctx.label("disjoint")
    for x, y, tag in ((a, b, "(a, b)"), (b, a, "(b, a)")):
        got = intersection(set(x), set(y))
        require(got == i and not isinstance(got, bool),
                lambda: "intersection%s with a=%r b=%r: got %r, expected %d" % (tag, a, b, got, i),
                key="sim-intersection")
        js = jaccard_similarity(set(x), set(y))
        require(isinstance(js, (int, float)) and abs(js - i / u) <= 1e-12,
                lambda: "jaccard_similarity%s with a=%r b=%r: got %r, expected %d/%d"
                % (tag, a, b, js, i, u), key="sim-jaccard")
        jd = jaccard_distance(set(x), set(y))
        require(isinstance(jd, (int, float)) and abs(jd - (1 - i / u)) <= 1e-12,
                lambda: "jaccard_distance%s with a=%r b=%r: got %r, expected 1 - %d/%d"
                % (tag, a, b, jd, i, u), key="sim-jaccard-distance")
    require(a == {L[k] for k in case["a"]} and b == {L[k] for k in case["b"]},
            "similarity functions modified their arguments")
    ctx.nontrivial(0 < i < u)


CLAUSES = [
    Clause("bipartite", s_bipartite, check_bipartite, quick=600, thorough=2500,
           rule="at least two hyperedges, two of them sharing a node"),
    Clause("clique", lambda tier: s_clique_cases(tier), check_clique, quick=600, thorough=2500,
           rule="at least one joined pair and at least one node without any neighbour "
                "(isolated or only in a singleton hyperedge)"),
    Clause("line_graph", lambda tier: s_line_cases(tier), check_line_graph, quick=600,
           thorough=4000, shards_quick=3,
           rule="some pair of hyperedges has similarity exactly s and another pair has a "
                "positive similarity strictly below s"),
    Clause("directed_line_graph", lambda tier: s_dline_cases(tier), check_directed_line_graph,
           quick=600, thorough=4000, shards_quick=3,
           rule="some ordered pair (target of e, source of f) has similarity exactly s and some "
                "ordered pair is positive but below s or an arc exists in one direction only"),
    Clause("simplicial_complex", s_simplicial, check_simplicial, quick=500, thorough=2000,
           rule="at least two overlapping hyperedges, one of size >= 3"),
    Clause("similarity", lambda tier: s_similarity_cases(tier), check_similarity, quick=500,
           thorough=2000, rule="sets that overlap without being equal (0 < |a&b| < |a|b|)"),
]
