"""CLI:  python -m hgxverif.run C01 [--tier quick|thorough] [--replay FILE] [--clause NAME]

exit 0  property held on everything explored (KNOWN-FINDING lines may be printed)
exit 1  VIOLATION property=<ID> replay=<path>
exit 2  harness error (never a verdict about the code under test)
"""
import argparse
import os
import sys


def main(argv=None):
    ap = argparse.ArgumentParser()
    ap.add_argument("prop")
    ap.add_argument("--tier", default=os.environ.get("VERIF_TIER", "quick"),
                    choices=["quick", "thorough"])
    ap.add_argument("--replay")
    ap.add_argument("--clause")
    ap.add_argument("--scale", type=float, default=float(os.environ.get("HGXVERIF_SCALE", "1")))
    ap.add_argument("--procs", type=int, default=None)
    a = ap.parse_args(argv)
    try:
        seed = int(os.environ.get("VERIF_SEED", "1") or "1")
    except ValueError:
        seed = 1
    from hgxverif import engine
    prop = a.prop.upper()
    try:
        if a.replay:
            msg = engine.replay_file(prop, a.replay)
            if msg is None:
                print("%s replay %s: property holds on this case" % (prop, a.replay))
                return 0
            print("  %s" % msg[:1000])
            print("VIOLATION property=%s replay=%s" % (prop, a.replay))
            return 1
        return engine.run_property(prop, a.tier, seed, only_clause=a.clause,
                                   scale=a.scale, procs=a.procs)
    except engine.HarnessError as e:
        print("HARNESS-ERROR: %s" % e, file=sys.stderr)
        return 2
    except Exception:  # noqa
        import traceback
        traceback.print_exc()
        return 2


if __name__ == "__main__":
    sys.exit(main())
