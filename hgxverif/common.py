"""Helpers shared by the property modules."""

import copy
import random
from collections import Counter

from .engine import Violation


class Alt:
    """A *set of allowed values* for an unspecified corner (DESIGN 'don't care').

    Compared against an observed value it matches when the value equals one of
    the alternatives; the model then collapses to the observed one."""

    def __init__(self, values):
        vals = []
        for v in values:
            if isinstance(v, Alt):
                for x in v.values:
                    if x not in vals:
                        vals.append(x)
            elif v not in vals:
                vals.append(v)
        self.values = vals

    def matches(self, v):
        return any(v == x for x in self.values)

    def __repr__(self):
        return "Alt(%r)" % (self.values,)

    def __deepcopy__(self, memo):
        return Alt(copy.deepcopy(self.values, memo))


def definite(v):
    if isinstance(v, Alt):
        return v if len(v.values) > 1 else v.values[0]
    return v


def alt_equal(expected, observed):
    """expected may contain Alt at the top level or as dict values (one level)."""
    if isinstance(expected, Alt):
        return expected.matches(observed)
    if isinstance(expected, dict) and isinstance(observed, dict):
        if set(expected.keys()) != set(observed.keys()):
            return False
        return all(alt_equal(expected[k], observed[k]) for k in expected)
    return expected == observed


def cedge(e):
    """Canonical form of an undirected hyperedge returned by the library."""
    e = tuple(e)
    if len(set(e)) != len(e):
        raise Violation("hyperedge %r lists a node twice" % (e,))
    return tuple(sorted(e))


def permuted(nodes, perm_seed):
    nodes = list(nodes)
    return random.Random(perm_seed).sample(nodes, len(nodes))


def dedupe(xs):
    out = []
    for x in xs:
        if x not in out:
            out.append(x)
    return out


def multiset(xs):
    return Counter(xs)


def diff_obs(expected, observed, alt_keys=()):
    """First difference between two observation dicts, as text (None if equal)."""
    for k in expected:
        if k not in observed:
            return "query %r missing from the observation" % (k,)
        e, o = expected[k], observed[k]
        is_alt = k in alt_keys or (isinstance(k, tuple) and k and k[0] in alt_keys)
        ok = alt_equal(e, o) if is_alt else (e == o)
        if not ok:
            path = [k]
            # descend into nested dicts to name the first differing sub-query
            while (isinstance(e, dict) and isinstance(o, dict)
                   and not isinstance(e, Counter) and set(e.keys()) == set(o.keys())):
                for kk in e:
                    if not alt_equal(e[kk], o[kk]):
                        path.append(kk)
                        e, o = e[kk], o[kk]
                        break
                else:
                    break
            return "query %s: expected %s, got %s" % (
                "".join("[%r]" % (x,) for x in path), _short(e), _short(o))
    for k in observed:
        if k not in expected:
            return "query %r not produced by the reference model" % (k,)
    return None


def _short(v, n=400):
    if isinstance(v, Counter):
        v = dict(v)
    s = repr(v)
    return s if len(s) <= n else s[:n] + "..."


def dc(x):
    return copy.deepcopy(x)


# --------------------------------------------------------------------------
# content-preserving history detours for the "functional" properties (C08-C20):
# the object under test should not only ever be a freshly constructed one.

def clone_label(n):
    """An EQUAL label that is (where the interpreter allows) a different object: a query must
    find a node by equality, not by identity.  Small ints and one-character strings are shared
    objects in CPython; the pools contain 1000, two-character strings and floats for this."""
    if isinstance(n, bool):
        return n
    if isinstance(n, int):
        return int(str(n))
    if isinstance(n, float):
        return float(repr(n))
    if isinstance(n, str):
        return "".join(list(n))
    return n


def nodes_with_metadata(h):
    """{node: metadata} from get_nodes(metadata=True), whose code returns a dict and whose
    docstring promises a list of (node, metadata) tuples: both shapes are read."""
    got = h.get_nodes(metadata=True)
    if isinstance(got, dict):
        return got
    return {n: m for n, m in got}


def fresh_label(nodes):
    """A label of the same kind as the existing ones that is not a node."""
    nodes = list(nodes)
    if not nodes:
        return None
    if all(isinstance(n, str) for n in nodes):
        z = "zz"
        while z in nodes:
            z += "z"
        return z
    try:
        if all(int(n) == n for n in nodes):
            return int(max(nodes)) + 1
    except (TypeError, ValueError):
        pass
    return None


def scramble(h, codes, trace=None, warmup=None):
    """Apply content-preserving detours (drawn small ints) to a container and return the
    object to use from now on (a copy when a copy detour was drawn).

      0  insert an extra hyperedge on existing nodes and remove it again (internal ids get gaps)
      1  insert a new node Z with a hyperedge containing it, then remove_node(Z)
      2  continue on h.copy()
      3  (unweighted Hypergraph only) insert e + {Z} next to an existing e, then
         remove_node(Z, keep_edges=True): the shrunk hyperedge merges into e
      4  remove an existing hyperedge and insert it again with its weight and metadata
         (its internal id moves to the end, leaving a gap in the middle)
      5  (needs a warm-up callable) replace one hyperedge by another on existing nodes (same
         counts), ask the module's queries once (results discarded), then restore the
         hyperedge: a result cached by the library during the warm-up is stale afterwards
      6  add a new isolated node Z, ask the module's queries once when a warm-up callable is
         given (results discarded), then remove_node(Z): the node set changed twice without
         any hyperedge changing
      7  (Hypergraph / DirectedHypergraph) a REJECTED bulk removal: remove_edges([missing, e])
         with an existing hyperedge e listed after one that is not there; the error is caught
         (e is inserted again should the call have removed it)
      8  remove a hyperedge, ask the queries, insert it again (the last mutation is an insertion)
      9  insert an extra hyperedge, ask the queries, remove it (the last mutation is a removal)
     15  (unweighted) an existing hyperedge inserted again after another insertion
     14  the hypergraph-level metadata replaced wholesale ({'name': 'toy'})
     12  copy(), edit and query the COPY, drop it; go on with the original
     13  read everything through the public API, ask the queries, clear(), rebuild
     11  an insertion the container may refuse (weight 3 on an unweighted container; metadata
         that is not a dict): refused -> nothing may linger, accepted -> removed again
     10  (Temporal/Multiplex) singleton record(s) of a new node Z emptied by
         remove_node(Z, keep_edges=True);
         (Hypergraph) replace the first listed hyperedge e by e + {Z} and shrink it back with
         remove_node(Z, keep_edges=True) (no merge: e is absent at that moment)
    Nodes, hyperedges, weights and metadata are the same before and after.
    """
    kind = type(h).__name__
    for code in codes or []:
        nodes = list(h.get_nodes())
        if not nodes:
            return h
        z = fresh_label(nodes)
        edges = list(h.get_edges())
        a = sorted(nodes, key=repr)[0]
        code = code % 16
        if code == 15 and h.is_weighted():
            code = 4
        if code == 10 and (kind == "DirectedHypergraph" or z is None or not edges):
            code = 4
        if code == 7 and kind not in ("Hypergraph", "DirectedHypergraph"):
            code = 6
        if code == 6 and z is None:
            code = 4
        if code in (5, 8, 9) and warmup is None:
            code = 4
        step = None
        if code == 2 and hasattr(h, "copy"):
            h = h.copy()
            step = "copy()"
        elif code in (5, 8, 9, 11, 15) and edges and len(nodes) >= 2:
            import itertools
            variant = code
            e = edges[0]
            ns = sorted(nodes, key=repr)
            combos = (c for r in (2, 3, 1) for c in itertools.combinations(ns, r))
            if kind == "Hypergraph":
                get = lambda x: (h.get_weight(x), h.get_edge_metadata(x))
                rem = lambda x: h.remove_edge(x)
                add = lambda x, **kw: h.add_edge(x, **kw)
                cands = (c for c in combos if not h.check_edge(c))
            elif kind == "DirectedHypergraph":
                get = lambda x: (h.get_weight(x), h.get_edge_metadata(x))
                rem = lambda x: h.remove_edge(x)
                add = lambda x, **kw: h.add_edge(x, **kw)
                cands = (((x,), (y,)) for x in ns for y in ns
                         if x != y and not h.check_edge(((x,), (y,))))
            elif kind == "TemporalHypergraph":
                get = lambda x: (h.get_weight(x[1], x[0]), h.get_edge_metadata(x[1], x[0]))
                rem = lambda x: h.remove_edge(x[1], x[0])
                add = lambda x, **kw: h.add_edge(x[1], x[0], **kw)
                cands = ((e[0], c) for c in combos if not h.check_edge(c, e[0]))
            else:
                present = {(tuple(sorted(x, key=repr)), l) for x, l in edges}
                get = lambda x: (h.get_weight(x[0], x[1]), h.get_edge_metadata(x[0], x[1]))
                rem = lambda x: h.remove_edge((x[0], x[1]))
                add = lambda x, **kw: h.add_edge(x[0], x[1], **kw)
                cands = ((c, e[1]) for c in combos
                         if (tuple(sorted(c, key=repr)), e[1]) not in present)
            other = next(cands, None)

            def ask():
                try:
                    warmup(h)
                except Violation:
                    raise
                except Exception:  # noqa: the warm-up only populates caches
                    pass
            if other is not None and variant == 15:
                # an existing hyperedge inserted again, but not as the very next insertion
                # (unweighted: idempotent); per-node tables must not list it twice
                m0 = dc(get(e)[1])
                add(other)
                add(e, metadata=m0)      # (its metadata handed over again: unchanged content)
                rem(other)
                step = "insert %r, insert the existing %r again, remove %r" % (other, e, other)
            elif other is not None and variant == 11:
                # an insertion that the container may refuse: a weight other than 1 on an
                # unweighted container (documented ValueError), or -- every other time, and always
                # on weighted containers -- metadata that is not a dict (accepted today; a
                # container that validates it must refuse BEFORE it registers anything).
                # Refused: the new hyperedge must not linger anywhere.  Accepted: it is removed.
                bad_weight = (not h.is_weighted()) and len(edges) % 2 == 0
                try:
                    if bad_weight:
                        add(other, weight=3)
                    else:
                        add(other, metadata=["not", "a", "dict"])
                except (ValueError, TypeError):
                    step = "refused insertion of %r (%s)" % (
                        other, "weight 3, unweighted" if bad_weight else "metadata not a dict")
                else:
                    rem(other)
                    step = "insertion of %r (%s) accepted, removed again" % (
                        other, "weight 3, unweighted" if bad_weight else "metadata not a dict")
            elif other is not None:
                w, m = get(e)
                back = dict(weight=w) if h.is_weighted() else {}
                if variant == 5:
                    rem(e)
                    add(other)
                    ask()
                    rem(other)
                    add(e, metadata=m, **back)
                    step = "replace %r by %r, query, restore" % (e, other)
                elif variant == 8:
                    # the last mutation before the module's own queries is an insertion
                    rem(e)
                    ask()
                    add(e, metadata=m, **back)
                    step = "remove %r, query, insert it again" % (e,)
                else:
                    # ... or a removal
                    add(other)
                    ask()
                    rem(other)
                    step = "insert %r, query, remove it" % (other,)
        elif code == 14 and hasattr(h, "set_hypergraph_metadata"):
            # the hypergraph-level metadata replaced wholesale by a user's own fields: the
            # implementation's 'weighted'/'type' entries are gone, the object is what it was
            # (none of the modules using these detours looks at the hypergraph metadata)
            h.set_hypergraph_metadata({"name": "toy"})
            step = "set_hypergraph_metadata({'name': 'toy'})"
        elif code == 12 and hasattr(h, "copy") and edges:
            # a copy is taken, EDITED and dropped; the module goes on with the original, which
            # must not have been touched through tables the copy shares with it
            c = h.copy()
            e = edges[0]
            try:
                if kind in ("Hypergraph", "DirectedHypergraph"):
                    c.remove_edge(e)
                    c.add_edge(e)
                elif kind == "TemporalHypergraph":
                    c.remove_edge(e[1], e[0])
                    c.add_edge(e[1], e[0])
                else:
                    c.remove_edge((e[0], e[1]))
                    c.add_edge(e[0], e[1])
                if z is not None:
                    c.add_node(z)
            except Violation:
                raise
            if warmup is not None:
                try:
                    warmup(c)
                except Violation:
                    raise
                except Exception:  # noqa
                    pass
            del c
            step = "copy(), edit and query the copy, drop it"
        elif code == 13 and edges and hasattr(h, "clear"):
            # everything is read through the public API, the queries are asked, the object is
            # clear()ed and rebuilt from what was read: nothing of the first life may survive
            # (memoised listings, counters)
            if kind == "TemporalHypergraph":
                recs = [(e, h.get_weight(e[1], e[0]), dc(h.get_edge_metadata(e[1], e[0])))
                        for e in edges]
            elif kind == "MultiplexHypergraph":
                recs = [(e, h.get_weight(e[0], e[1]), dc(h.get_edge_metadata(e[0], e[1])))
                        for e in edges]
            else:
                recs = [(e, h.get_weight(e), dc(h.get_edge_metadata(e))) for e in edges]
            table = nodes_with_metadata(h)
            nmeta = [(n, dc(table.get(n, {}))) for n in nodes]
            hg_meta = dc(h.get_hypergraph_metadata())
            if warmup is not None:
                try:
                    warmup(h)
                except Violation:
                    raise
                except Exception:  # noqa
                    pass
            h.clear()
            for n, m in nmeta:
                try:
                    h.add_node(n, metadata=m)
                except TypeError:   # a container whose add_node takes no metadata
                    h.add_node(n)
                    if m:
                        h.set_node_metadata(n, m)
            for e, w, m in recs:
                kw = dict(weight=w) if h.is_weighted() else {}
                if kind == "TemporalHypergraph":
                    h.add_edge(e[1], e[0], metadata=m, **kw)
                elif kind == "MultiplexHypergraph":
                    h.add_edge(e[0], e[1], metadata=m, **kw)
                else:
                    h.add_edge(e, metadata=m, **kw)
            try:
                h.set_hypergraph_metadata(hg_meta)
            except Exception:  # noqa: not every container has the setter
                pass
            step = "read everything, query, clear(), rebuild"
        elif code == 10 and kind in ("TemporalHypergraph", "MultiplexHypergraph"):
            # a record whose only node is a new node Z, emptied by remove_node(Z,
            # keep_edges=True): nothing is left to keep, the record disappears with the node
            # (C03/C04 model; the plain Hypergraph's empty hyperedge is unspecified and not used)
            if kind == "TemporalHypergraph":
                t0 = edges[0][0]
                h.add_edge((z,), t0)
                if len(edges[0][1]) >= 1:
                    h.add_edge((z,), t0 + 1)
            else:
                h.add_edge((z,), edges[0][1])
            h.remove_node(z, keep_edges=True)
            step = "singleton record(s) of a new node %r, remove_node(%r, keep_edges=True)" % (z, z)
        elif code == 10:
            # a hyperedge that is not the last listed one is replaced by itself plus a new node
            # Z and comes back through remove_node(Z, keep_edges=True) -- the shrink path that
            # does NOT merge into an existing hyperedge (weighted objects included)
            e = tuple(edges[0])
            w, m = h.get_weight(e), h.get_edge_metadata(e)
            h.remove_edge(e)
            h.add_edge(e + (z,), metadata=m, **(dict(weight=w) if h.is_weighted() else {}))
            if len(edges) >= 2:
                # ... and another hyperedge is re-inserted AFTER it, so that the hyperedge to be
                # shrunk is not the most recent one in any internal table
                e1 = tuple(edges[1])
                w1, m1 = h.get_weight(e1), h.get_edge_metadata(e1)
                h.remove_edge(e1)
                h.add_edge(e1, metadata=m1, **(dict(weight=w1) if h.is_weighted() else {}))
            h.remove_node(z, keep_edges=True)
            if h.check_edge(e):
                # what a shrunk hyperedge keeps of its weight / metadata is C01's business:
                # the content the module was promised is re-established here
                if h.is_weighted() and h.get_weight(e) != w:
                    h.set_weight(e, w)
                if h.get_edge_metadata(e) != m:
                    h.set_edge_metadata(e, m)
            else:
                h.add_edge(e, metadata=m, **(dict(weight=w) if h.is_weighted() else {}))
            step = "replace %r by %r, remove_node(%r, keep_edges=True)" % (e, e + (z,), z)
        elif code == 6:
            h.add_node(z)
            if warmup is not None:
                try:
                    warmup(h)
                except Violation:
                    raise
                except Exception:  # noqa: the warm-up only populates caches
                    pass
            h.remove_node(z)
            step = "add_node(%r), query, remove_node(%r)" % (z, z)
        elif code == 7 and edges and len(nodes) >= 2:
            import itertools
            e = edges[-1]
            w, m = h.get_weight(e), h.get_edge_metadata(e)
            ns = sorted(nodes, key=repr)
            if kind == "Hypergraph":
                cands = (c for r in (2, 3, 1) for c in itertools.combinations(ns, r))
            else:
                cands = (((x,), (y,)) for x in ns for y in ns if x != y)
            other = next((c for c in cands if not h.check_edge(c)), None)
            if other is not None:
                try:
                    h.remove_edges([other, e])
                except (KeyError, ValueError):
                    pass
                if not h.check_edge(e):
                    h.add_edge(e, **(dict(weight=w) if h.is_weighted() else {}), metadata=m)
                step = "rejected remove_edges([%r (missing), %r])" % (other, e)
        elif code == 4 and edges:
            e = edges[0]
            try:
                if kind == "Hypergraph":
                    w, m = h.get_weight(e), h.get_edge_metadata(e)
                    h.remove_edge(e)
                    h.add_edge(e, **(dict(weight=w) if h.is_weighted() else {}), metadata=m)
                elif kind == "DirectedHypergraph":
                    w, m = h.get_weight(e), h.get_edge_metadata(e)
                    h.remove_edge(e)
                    h.add_edge(e, **(dict(weight=w) if h.is_weighted() else {}), metadata=m)
                elif kind == "TemporalHypergraph":
                    t, ns = e
                    w, m = h.get_weight(ns, t), h.get_edge_metadata(ns, t)
                    h.remove_edge(ns, t)
                    h.add_edge(ns, t, **(dict(weight=w) if h.is_weighted() else {}), metadata=m)
                elif kind == "MultiplexHypergraph":
                    ns, layer = e
                    w, m = h.get_weight(ns, layer), h.get_edge_metadata(ns, layer)
                    h.remove_edge((ns, layer))
                    h.add_edge(ns, layer, **(dict(weight=w) if h.is_weighted() else {}),
                               metadata=m)
                step = "remove_edge(%r) and insert it again" % (e,)
            except Violation:
                raise
        elif kind == "Hypergraph":
            if code == 0 and len(nodes) >= 2:
                cand = tuple(sorted(nodes, key=repr)[:2]) if len(nodes) == 2 else None
                import itertools
                for r in (2, 3, 1):
                    for c in itertools.combinations(sorted(nodes, key=repr), r):
                        if not h.check_edge(c):
                            cand = c
                            break
                    else:
                        continue
                    break
                if cand is not None and not h.check_edge(cand):
                    h.add_edge(cand)
                    h.remove_edge(tuple(reversed(cand)))
                    step = "add_edge+remove_edge(%r)" % (cand,)
            elif code == 1 and z is not None:
                h.add_edge((a, z))
                for b in sorted(nodes, key=repr)[1:3]:
                    h.add_edge((b, z))          # Z belongs to several hyperedges
                h.remove_node(z)
                step = "add_edge((%r, %r)) [+ others with %r]; remove_node(%r)" % (a, z, z, z)
            elif (code == 3 and z is not None and edges and not h.is_weighted()
                  and h.get_edge_metadata(tuple(edges[0])) == {}):
                e = tuple(edges[0])
                h.add_edge(e + (z,))
                h.remove_node(z, keep_edges=True)
                step = "add_edge(%r); remove_node(%r, keep_edges=True)" % (e + (z,), z)
        elif kind == "DirectedHypergraph":
            if code in (0, 3) and len(nodes) >= 2:
                b = sorted(nodes, key=repr)[1]
                for cand in (((a,), (b,)), ((b,), (a,))):
                    if not h.check_edge(cand):
                        h.add_edge(cand)
                        h.remove_edge(cand)
                        step = "add_edge+remove_edge(%r)" % (cand,)
                        break
            elif code == 1 and z is not None:
                h.add_edge(((z,), (a,)))
                for b in sorted(nodes, key=repr)[1:3]:
                    h.add_edge(((z,), (b,)))    # Z is a source of several hyperedges ...
                    h.add_edge(((b,), (z,)))    # ... and a target of several
                h.remove_node(z)
                step = "add_edge(((%r,), (%r,))) [+ others with %r]; remove_node(%r)" % (z, a, z, z)
        elif kind == "TemporalHypergraph":
            t = 0
            if code in (0, 3) and len(nodes) >= 1:
                cand = tuple(sorted(nodes, key=repr)[:2])
                if not h.check_edge(cand, t):
                    h.add_edge(cand, t)
                    h.remove_edge(cand, t)
                    step = "add_edge+remove_edge(%r, %r)" % (cand, t)
            elif code == 1 and z is not None:
                h.add_edge((a, z), t)
                h.add_edge((a, z), t + 1)       # Z in several records
                h.remove_node(z)
                step = "add_edge((%r, %r), %r) [+ at %r]; remove_node(%r)" % (a, z, t, t + 1, z)
        elif kind == "MultiplexHypergraph":
            layers = sorted(h.get_existing_layers(), key=repr)
            if layers and code in (0, 3):
                cand = tuple(sorted(nodes, key=repr)[:2])
                present = {(tuple(sorted(e)), l) for e, l in h.get_edges()}
                if (tuple(sorted(cand)), layers[0]) not in present:
                    h.add_edge(cand, layers[0])
                    h.remove_edge((cand, layers[0]))
                    step = "add_edge+remove_edge((%r, %r))" % (cand, layers[0])
            elif layers and code == 1 and z is not None:
                h.add_edge((a, z), layers[0])
                h.remove_node(z)
                step = "add_edge((%r, %r), %r); remove_node(%r)" % (a, z, layers[0], z)
        if step is not None and trace is not None:
            trace.append("detour: " + step)
    return h


CONTAINERS = ("Hypergraph", "DirectedHypergraph", "TemporalHypergraph", "MultiplexHypergraph")


def history_codes(*parts):
    """Detour codes derived from the case itself (pure function of the case, so replayable):
    half of the cases keep the freshly built object, the others get 1-3 detours."""
    import hashlib
    import json
    d = hashlib.sha1(json.dumps(parts, sort_keys=True, default=repr).encode()).hexdigest()
    if int(d[0], 16) < 8:
        return []
    n = 1 + int(d[1], 16) % 3
    return [int(d[2 + 2 * i:4 + 2 * i], 16) % 16 for i in range(n)]


def default_warmup(h):
    """Read-only queries that a caller may well have issued before handing the object on
    (results discarded): a result memoised by the library during them is stale afterwards."""
    kind = type(h).__name__
    if kind == "Hypergraph":
        calls = [lambda: h.binary_incidence_matrix(return_mapping=True),
                 lambda: h.incidence_matrix(return_mapping=True),
                 lambda: h.adjacency_matrix(return_mapping=True),
                 lambda: h.get_mapping(), lambda: h.degree_sequence(),
                 lambda: h.is_connected(), lambda: h.connected_components(),
                 lambda: h.get_sizes(), lambda: h.max_size(), lambda: h.is_uniform(),
                 lambda: h.distribution_sizes(), lambda: h.get_weights(),
                 lambda: h.get_edges(metadata=True), lambda: h.get_nodes(metadata=True),
                 lambda: h.isolated_nodes()]
    elif kind == "DirectedHypergraph":
        calls = [lambda: h.get_sources(), lambda: h.get_targets(), lambda: h.get_sizes(),
                 lambda: h.get_weights(), lambda: h.get_edges(metadata=True),
                 lambda: h.get_mapping(), lambda: h.max_size()]
    elif kind == "TemporalHypergraph":
        calls = [lambda: [h.get_times_for_edge(r[1]) for r in list(h.get_edges())[:2]],
                 lambda: h.subhypergraph(), lambda: h.aggregate(1),
                 lambda: h.get_edges(metadata=True), lambda: h.get_weights(),
                 lambda: h.min_time(), lambda: h.max_time()]
    else:
        calls = [lambda: h.get_edges(metadata=True), lambda: h.get_weights(),
                 lambda: h.aggregated_hypergraph(), lambda: h.get_existing_layers()]
    for c in calls:
        try:
            c()
        except Violation:
            raise
        except Exception:  # noqa: a query that does not exist / does not apply is skipped
            pass


def with_history(build_fn=None, warmup=None):
    """Decorator for a module's builder: the (first) container it returns is taken through
    content-preserving detours chosen by history_codes(arguments).  With ``warmup=f`` the
    detour "replace a hyperedge, call f(h), restore" is available too."""
    import functools
    if build_fn is None:
        return lambda fn: with_history(fn, warmup=warmup)
    if warmup is None:
        warmup = default_warmup
    else:
        specific = warmup

        def warmup(h):
            default_warmup(h)
            specific(h)

    @functools.wraps(build_fn)
    def wrapper(*args, **kw):
        out = build_fn(*args, **kw)
        codes = history_codes([a for a in args if isinstance(a, (dict, list, tuple, str, int))],
                              sorted(kw.items(), key=repr))
        if not codes:
            return out
        if type(out).__name__ in CONTAINERS:
            return scramble(out, codes, warmup=warmup)
        if isinstance(out, tuple):
            lst = list(out)
            for i, x in enumerate(lst):
                if type(x).__name__ in CONTAINERS:
                    lst[i] = scramble(x, codes, warmup=warmup)
                    break
            return tuple(lst)
        return out
    return wrapper


# --------------------------------------------------------------------------
# the same computation in another interpreter (another PYTHONHASHSEED): results that are claimed
# to be reproducible must not depend on the iteration order of str-keyed sets / dicts

_CHILD_CODE = ("import sys; sys.path.insert(0, %r); from hgxverif import engine; "
               "engine.setup_paths(); from hgxverif import common; common._child_loop()")
_CHILDREN = {}      # hash seed -> child interpreter (started on first use, kept for the shard)


def _child_loop():
    """child interpreter: one JSON request {module, func, case} per line, one answer per line"""
    import importlib
    import json
    import sys
    for line in sys.stdin:
        try:
            req = json.loads(line)
            fn = getattr(importlib.import_module(req["module"]), req["func"])
            ans = {"result": fn(req["case"])}
        except Exception as exc:       # reported to the parent, which raises HarnessError
            ans = {"error": "%s: %s" % (type(exc).__name__, exc)}
        sys.stdout.write("ANSWER " + json.dumps(ans) + "\n")
        sys.stdout.flush()


def _stop_child(p):
    try:
        p.stdin.close()
        p.wait(timeout=5)
    except Exception:  # noqa
        p.kill()


def in_child(module, func, case, hashseed):
    """module.func(case) evaluated in a child interpreter started with PYTHONHASHSEED=hashseed
    (func returns something JSON-serialisable)."""
    import atexit
    import json
    import os
    import subprocess
    import sys
    from .engine import VERIF_DIR, HarnessError
    p = _CHILDREN.get(hashseed)
    if p is None or p.poll() is not None:
        env = dict(os.environ, PYTHONHASHSEED=str(hashseed))
        p = subprocess.Popen([sys.executable, "-c", _CHILD_CODE % (VERIF_DIR,)],
                             stdin=subprocess.PIPE, stdout=subprocess.PIPE,
                             stderr=subprocess.DEVNULL, text=True, env=env, cwd=VERIF_DIR)
        _CHILDREN[hashseed] = p
        atexit.register(_stop_child, p)
    try:
        p.stdin.write(json.dumps({"module": module, "func": func, "case": case}) + "\n")
        p.stdin.flush()
        line = p.stdout.readline()
        while line and not line.startswith("ANSWER "):
            line = p.stdout.readline()
    except OSError as exc:
        raise HarnessError("child interpreter unreachable: %s" % (exc,))
    if not line:
        raise HarnessError("child interpreter ended (exit %r)" % (p.poll(),))
    ans = json.loads(line[len("ANSWER "):])
    if "error" in ans:
        raise HarnessError("child interpreter failed: %s" % (ans["error"],))
    return ans["result"]
