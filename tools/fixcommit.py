"""usage: fixcommit.py <file> <message>  (old/new blocks on stdin separated by a line '=====')"""
import subprocess, sys
path, msg = sys.argv[1], sys.argv[2]
old, new = sys.stdin.read().split("\n=====\n")
new = new.rstrip("\n") + "\n" if new.strip() else ""
old = old.rstrip("\n") + "\n"
s = open("/repo/" + path).read()
assert s.count(old) == 1, "old block occurs %d times" % s.count(old)
open("/repo/" + path, "w").write(s.replace(old, new))
subprocess.check_call(["git", "-C", "/repo", "commit", "-qam", msg])
print(subprocess.check_output(["git", "-C", "/repo", "log", "--oneline", "-1"]).decode())
