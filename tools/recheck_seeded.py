"""Re-run the CURRENT quick check of a property against one archived seeded change.

usage: recheck_seeded.py <PROP> <k> [<OTHER>]   (prints one JSON line; updates seeded/<PROP>/<k>/meta.json["recheck"];
       with <OTHER> the check of that other property is run instead and stored under meta["recheck_by"][<OTHER>])
The patch is applied to a scratch worktree of /repo's HEAD under /var/tmp (removed afterwards).  A patch that
no longer applies (the library moved on: later fix: commits) is reported as "stale".
"""
import json, os, subprocess, sys, time
V = os.path.dirname(os.path.dirname(os.path.abspath(__file__)))


def sh(cmd, cwd=None, env=None):
    r = subprocess.run(cmd, cwd=cwd, env=env, capture_output=True, text=True)
    return r.returncode, r.stdout + r.stderr


def main():
    pid, k = sys.argv[1].upper(), sys.argv[2]
    runner = sys.argv[3].upper() if len(sys.argv) > 3 else pid
    d = os.path.join(V, "seeded", pid, k)
    wt = "/var/tmp/recheck_%s_%s_%s" % (pid, k, runner)
    sh(["git", "-C", "/repo", "worktree", "remove", "--force", wt])
    rc, out = sh(["git", "-C", "/repo", "worktree", "add", "-q", "--detach", wt, "HEAD"])
    res = {"property": pid, "k": k}
    try:
        head = subprocess.check_output(["git", "-C", wt, "rev-parse", "--short", "HEAD"]).decode().strip()
        res["repo_head"] = head
        rc, out = sh(["git", "-C", wt, "apply", os.path.join(d, "patch.diff")])
        if rc != 0:
            rc, out = sh(["git", "-C", wt, "apply", "-3", os.path.join(d, "patch.diff")])
            if rc != 0 or "conflicts" in out:
                res["verdict"] = "stale"
                sh(["git", "-C", wt, "checkout", "--", "."])
        if "verdict" not in res:
            # replays directory is shared: use a private copy of /verif's code? no - found-* files are
            # named by content hash; they are removed below
            env = dict(os.environ, HGXVERIF_REPO=wt, PYTHONHASHSEED="0", VERIF_SEED="1",
                       HGXVERIF_EVIDENCE_DIR="/var/tmp/recheck_evidence")
            t0 = time.time()
            rc, out = sh(["/venv/bin/python", "-m", "hgxverif.run", runner, "--tier", "quick"], cwd=V, env=env)
            lines = [l.strip()[:240] for l in out.splitlines() if l.strip().startswith("clause")]
            res["verdict"] = {0: "MISSED", 1: "caught", 2: "harness-error"}.get(rc, "?")
            res["wall_s"] = round(time.time() - t0, 1)
            res["first"] = lines[:1]
    finally:
        sh(["git", "-C", "/repo", "worktree", "remove", "--force", wt])
        rd = os.path.join(V, "replays", runner)
        for f in os.listdir(rd) if os.path.isdir(rd) else []:
            if f.startswith("found-"):
                os.remove(os.path.join(rd, f))
    mf = os.path.join(d, "meta.json")
    m = json.load(open(mf))
    if runner == pid:
        m["recheck"] = res
    else:
        res["checked_by"] = runner
        m.setdefault("recheck_by", {})[runner] = res
    json.dump(m, open(mf, "w"), indent=1)
    print(json.dumps(res))


if __name__ == "__main__":
    main()
