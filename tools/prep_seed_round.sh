#!/bin/bash
# usage: prep_seed_round.sh NN...  -> worktrees /tmp/seed_cNN with PROPERTY.txt, ALREADY_TRIED.txt, PROMPT.txt
/verif/tools/mk_seed_wt.sh "$@" | tail -1
for i in "$@"; do python3 - $i <<'PY'
import json,sys,glob
i=sys.argv[1]
lines=[]
for f in sorted(glob.glob('/verif/seeded/C%s/*/meta.json'%i)):
    m=json.load(open(f)); lines.append("- "+m["needs_to_manifest"])
open('/tmp/seed_c%s/ALREADY_TRIED.txt'%i,'w').write("Breaking changes that other people already produced for this property (do NOT repeat these mechanisms):\n"+"\n".join(lines)+"\n")
PY
sed "s/cNN/c$i/g" /tmp/seed2_prompt.txt | sed 's/- Read the relevant source/- Never use `git stash` (the stash is shared between all worktrees of this repository and other people are working in sibling worktrees); to go back to the clean tree save your diff to a file, `git checkout -- .`, and re-apply it with `git apply`.\n- Read the relevant source/' > /tmp/seed_c$i/PROMPT.txt
done
