"""C10 -- graph projections encode exactly the incidence structure.

Every clause builds the hypergraph through the public API from the abstract
content of the case (labels + index sets), calls one projection and compares
the returned networkx graph / id table / Hypergraph with the definition
evaluated by brute force on the abstract content (plain sets, exact Fractions).
Afterwards the input must still hold the abstract content, and the same call,
repeated after the caller has emptied the first result and filled it with junk,
must give the same answer.  The line-graph clauses also call with omitted
arguments (documented defaults intersection / s=1 / unweighted).
"""

import numbers
from collections import Counter
from fractions import Fraction
from itertools import combinations

from hypothesis import strategies as st

from ..common import permuted, cedge
from ..engine import Clause, Violation, require
from ..oracles import projcent as P

ASSUMPTIONS = [
    "oracle = the definitions in the property text evaluated on plain Python sets and exact "
    "Fractions (hgxverif/oracles/projcent.py, hgxverif/props/c10.py); networkx is trusted only as "
    "a container (nodes(), has_edge, edge data)",
    "Jaccard thresholds are rationals p/q with q <= 10 handed over as the correctly rounded double "
    "p/q (or its neighbouring double): for similarities with denominators <= 10 (hyperedges of "
    "size <= 5) the float comparison `>=` and the exact rational one coincide (monotone correctly "
    "rounded division, distinct values >= 1/100 apart)",
    "weighted (undirected) line graphs: the `weight` attribute must equal the intersection size "
    "exactly, the Jaccard value within 1e-12 absolute (one division; allows an algebraically "
    "equal formula), any numbers.Real type; the attribute of an unweighted line graph is "
    "unspecified and not inspected",
    "directed line graph: the statement and the docstring of directed_line_graph promise the arcs "
    "only, not the value of the `weight` attribute (the statement attaches 'carrying that value as "
    "weight' to the undirected line graph): the weights are classified by label "
    "(arc-weight-equals-similarity / arc-weight-other), not demanded",
    "directed input is in scope only for directed_line_graph / DirectedHypergraph.to_line_graph; "
    "bipartite_projection, clique_projection and simplicial_complex are annotated and documented "
    "for Hypergraph and are exercised on Hypergraph only (bipartite_projection of a "
    "DirectedHypergraph raises KeyError today; not judged)",
    "omitted arguments mean the documented signature defaults distance='intersection', s=1, "
    "weighted=False (signature of line_graph / directed_line_graph / to_line_graph)",
    "projections are read-only: afterwards get_nodes() / get_edges() of the input still equal the "
    "abstract content and get_weights(asdict=True) equals what it was before the call; the "
    "returned graph / id table / Hypergraph is the caller's: clearing it and putting junk into it "
    "must not change the answer of the next identical call (compared through the id table, vertex "
    "names are not assumed to repeat)",
    "clique projection with keep_isolated=False: vertices without a neighbour may or may not be "
    "listed (the statement only says isolated nodes are kept when asked); every listed vertex must "
    "be a node and every node with a neighbour must be listed",
    "simplicial complex: only its non-empty hyperedges are constrained (the statement says so); "
    "an empty hyperedge () in the result is counted under label 'empty-hyperedge-present', its "
    "node set is not constrained",
    "directed hyperedges have disjoint non-empty source and target sets; similarity functions "
    "are called on sets whose union is non-empty (Jaccard of two empty sets is undefined)",
    "re-inserting an existing hyperedge (drawn in ~40% of the cases) does not change the "
    "abstract hypergraph (property C01), so the projections must not change either",
]

# --------------------------------------------------------------------------
# helpers


def _graph_kind(g, directed, what):
    import networkx as nx
    require(isinstance(g, nx.Graph), lambda: "%s: returned %r, not a networkx graph" % (what, type(g)),
            key="type")
    require(g.is_directed() == directed and not g.is_multigraph(),
            lambda: "%s: expected a simple %s graph, got directed=%r multigraph=%r"
            % (what, "directed" if directed else "undirected", g.is_directed(), g.is_multigraph()),
            key="type")


def _labels(ctx, hc, nodes, covered, n_edges):
    ctx.label("labels-" + hc["kind"])
    if hc["weighted"]:
        ctx.label("weighted-hypergraph")
    if hc["readd"]:
        ctx.label("re-inserted-hyperedge")
    if nodes - covered:
        ctx.label("has-isolated-node")
    if not n_edges:
        ctx.label("no-hyperedges")


def _covered(edges):
    out = set()
    for e in edges:
        out |= e
    return out


def _ckey(x):
    """Sort key that works for int and str labels of one universe."""
    return repr(x)


def _cdedge(e):
    s, t = e
    return (cedge(s), cedge(t))


def _weights_of(h, canon):
    return sorted(((canon(e), w) for e, w in h.get_weights(asdict=True).items()), key=repr)


def _untouched(what, h, nodes, edges, w_before, canon=cedge):
    """The projection must leave its input alone: nodes / hyperedges (edges: Counter of
    canonical forms) still the abstract content, weights what they were before the call."""
    got_nodes = list(h.get_nodes())
    require(Counter(got_nodes) == Counter(nodes),
            lambda: "%s changed its input: get_nodes() is now %r, the hypergraph has the nodes %r"
            % (what, sorted(got_nodes, key=repr), sorted(nodes, key=repr)), key="input-modified")
    got_edges = Counter(canon(e) for e in h.get_edges())
    require(got_edges == edges,
            lambda: "%s changed its input: get_edges() is now %r, the hypergraph has the "
                    "hyperedges %r" % (what, sorted(got_edges.elements(), key=repr),
                                       sorted(edges, key=repr)), key="input-modified")
    w_after = _weights_of(h, canon)
    require(w_after == w_before,
            lambda: "%s changed its input: get_weights(asdict=True) was %r before the call and is "
                    "%r afterwards" % (what, w_before, w_after), key="input-modified")


JUNK = ("junk", 0)
JUNK2 = ("junk", 1)


def _scribble(g, table=None):
    """The caller does what it likes with the returned objects."""
    g.clear()
    g.add_edge(JUNK, JUNK2, weight=99)
    if table is not None:
        table.clear()
        table[JUNK] = JUNK2


def _safe(f, x):
    """f(x), or a printable stand-in when x is caller's junk that f cannot read."""
    try:
        return f(x)
    except Violation:
        raise
    except Exception:  # noqa
        return ("?", repr(x))


def _graph_content(g, table, canon, directed, with_weight):
    """Vertices and links of a returned graph named through the id table."""
    names = {v: _safe(canon, o) for v, o in table.items()} if table is not None else None
    obj = (lambda v: v) if names is None else (lambda v: names.get(v, ("?", repr(v))))
    verts = Counter(obj(v) for v in g.nodes())
    links = Counter()
    for u, v, d in g.edges(data=True):
        a, b = obj(u), obj(v)
        if not directed and repr(b) < repr(a):
            a, b = b, a
        links[(a, b, repr(d.get("weight")) if with_weight else None)] += 1
    return verts, links


def _same_again(what, first, second):
    require(first == second,
            lambda: "%s: asked a second time on the unchanged hypergraph after the first result "
                    "had been cleared and filled with junk by the caller, the answer differs: "
                    "vertices/links %r, first answer %r" % (what, _brief(second), _brief(first)),
            key="result-aliased")


def _brief(c):
    return tuple(sorted(x.items(), key=repr) for x in c)


# --------------------------------------------------------------------------
# C10.bipartite


def _bip_obj(o):
    return ("e", cedge(o)) if isinstance(o, (tuple, list)) else ("n", o)


def s_bipartite(tier):
    return P.hypergraph_cases(max_nodes=8, max_edges=8 if tier == "quick" else 10)


def check_bipartite(case, ctx):
    from hypergraphx.representations.projections import bipartite_projection
    nodes, edges = P.content(case)
    h = P.build_hypergraph(case)
    w0 = _weights_of(h, cedge)
    g, table = bipartite_projection(h)
    _graph_kind(g, False, "bipartite_projection")
    _labels(ctx, case, nodes, _covered(edges), len(edges))
    verts = list(g.nodes())
    require(len(set(verts)) == len(verts) and set(verts) == set(table.keys()),
            lambda: "bipartite_projection: vertex set %r differs from the keys of the id table %r"
            % (sorted(verts, key=repr), sorted(table.keys(), key=repr)), key="bip-table-keys")
    exp_objs = Counter([("n", x) for x in nodes] + [("e", tuple(sorted(e))) for e in edges])
    obj = {v: _bip_obj(o) for v, o in table.items()}
    got_objs = Counter(obj.values())
    require(got_objs == exp_objs,
            lambda: "bipartite_projection: id table must be a bijection onto nodes + hyperedges; "
                    "expected objects %r, table maps to %r (nodes=%r, hyperedges=%r)"
            % (sorted(exp_objs.items(), key=repr), sorted(got_objs.items(), key=repr),
               sorted(nodes, key=repr), sorted(map(sorted, edges), key=repr)),
            key="bip-table-bijection")
    exp_links = set()
    for e in edges:
        for x in e:
            exp_links.add((("n", x), ("e", tuple(sorted(e)))))
    got_links = set()
    for u, v in g.edges():
        a, b = obj[u], obj[v]
        if a[0] == "e" and b[0] == "n":
            a, b = b, a
        require(a[0] == "n" and b[0] == "e",
                lambda: "bipartite_projection: vertices %r (%r) and %r (%r) are joined but are "
                        "not a node and a hyperedge" % (u, obj[u], v, obj[v]), key="bip-same-side")
        got_links.add((a, b))
    require(got_links == exp_links,
            lambda: "bipartite_projection: links must be exactly the memberships; missing %r, "
                    "unexpected %r" % (sorted(exp_links - got_links, key=repr),
                                       sorted(got_links - exp_links, key=repr)), key="bip-links")
    require(g.number_of_edges() == len(exp_links),
            lambda: "bipartite_projection: %d links, expected %d memberships"
            % (g.number_of_edges(), len(exp_links)), key="bip-links")
    ctx.nontrivial(len(edges) >= 2 and any(len(e & f) for e, f in combinations(edges, 2)))
    _untouched("bipartite_projection", h, nodes, Counter(tuple(sorted(e)) for e in edges), w0)
    first = _graph_content(g, table, _bip_obj, False, False)
    _scribble(g, table)
    g2, table2 = bipartite_projection(h)
    _same_again("bipartite_projection", first, _graph_content(g2, table2, _bip_obj, False, False))


# --------------------------------------------------------------------------
# C10.clique


@st.composite
def s_clique_cases(draw, tier):
    hc = draw(P.hypergraph_cases(max_nodes=8, max_edges=8 if tier == "quick" else 10))
    return {"h": hc, "keep_isolated": draw(st.sampled_from([None, False, True]))}


def check_clique(case, ctx):
    from hypergraphx.representations.projections import clique_projection
    hc = case["h"]
    nodes, edges = P.content(hc)
    h = P.build_hypergraph(hc)
    keep = case["keep_isolated"]
    w0 = _weights_of(h, cedge)
    g = clique_projection(h) if keep is None else clique_projection(h, keep_isolated=keep)
    _graph_kind(g, False, "clique_projection")
    _labels(ctx, hc, nodes, _covered(edges), len(edges))
    ctx.label("keep_isolated=%r" % (keep,))
    exp_pairs = set()
    for e in edges:
        for u, v in combinations(sorted(e, key=_ckey), 2):
            exp_pairs.add(frozenset((u, v)))
    got_pairs = set()
    for u, v in g.edges():
        require(u != v, lambda: "clique_projection: self-loop on %r" % (u,), key="clique-loop")
        got_pairs.add(frozenset((u, v)))
    require(got_pairs == exp_pairs,
            lambda: "clique_projection(keep_isolated=%r): pairs must be exactly those inside a "
                    "common hyperedge; missing %r, unexpected %r (hyperedges %r)"
            % (keep, sorted(map(sorted, exp_pairs - got_pairs)),
               sorted(map(sorted, got_pairs - exp_pairs)), sorted(map(sorted, edges), key=repr)),
            key="clique-pairs")
    verts = list(g.nodes())
    require(len(set(verts)) == len(verts), "clique_projection: a vertex is listed twice")
    paired = set()
    for p in exp_pairs:
        paired |= p
    if keep:
        require(set(verts) == nodes,
                lambda: "clique_projection(keep_isolated=True): vertex set %r, expected all nodes %r"
                % (sorted(verts, key=repr), sorted(nodes, key=repr)), key="clique-isolated")
    else:
        require(paired <= set(verts) <= nodes,
                lambda: "clique_projection(keep_isolated=%r): vertex set %r must contain the "
                        "paired nodes %r and only nodes of the hypergraph %r"
                % (keep, sorted(verts, key=repr), sorted(paired, key=repr),
                   sorted(nodes, key=repr)), key="clique-vertices")
    ctx.nontrivial(bool(exp_pairs) and bool(nodes - paired))
    what = "clique_projection(keep_isolated=%r)" % (keep,)
    _untouched(what, h, nodes, Counter(tuple(sorted(e)) for e in edges), w0)
    first = _graph_content(g, None, None, False, False)
    _scribble(g)
    g2 = clique_projection(h) if keep is None else clique_projection(h, keep_isolated=keep)
    second = _graph_content(g2, None, None, False, False)
    if not keep:
        # which unpaired nodes are listed is unspecified: compare the paired vertices only and
        # demand that every other vertex is a node
        require(set(second[0]) <= nodes,
                lambda: "%s asked a second time: vertices %r are not nodes of the hypergraph"
                % (what, sorted(set(second[0]) - nodes, key=repr)), key="result-aliased")
        first = (Counter({v: c for v, c in first[0].items() if v in paired}), first[1])
        second = (Counter({v: c for v, c in second[0].items() if v in paired}), second[1])
    _same_again(what, first, second)


# --------------------------------------------------------------------------
# C10.line_graph


VIAS = ["function", "function-kw", "method", "defaults", "defaults-method"]


def _config(draw, present_of):
    """distance / threshold / weighted / calling convention.  One case in six asks for the
    documented defaults (intersection, s=1, unweighted) without passing any argument; via
    'defaults*' passes by keyword and leaves out the arguments marked in `omit` that sit at
    their default."""
    if draw(st.integers(0, 5)) == 3:     # not an end point: Hypothesis favours those
        return {"distance": "intersection", "s": [1, 1], "weighted": False,
                "via": draw(st.sampled_from(VIAS[3:])), "omit": [True, True, True]}
    distance = draw(st.sampled_from(["intersection", "jaccard"]))
    pq = draw(P.thresholds(distance, [v for v in present_of(distance) if v > 0], max_den=10))
    via = draw(st.sampled_from(VIAS))
    omit = [False, False, False]
    if via.startswith("defaults"):
        omit = draw(st.lists(st.booleans(), min_size=3, max_size=3))
        if not any(omit):
            omit = [True, True, True]
    return {"distance": distance, "s": pq, "weighted": draw(st.booleans()), "via": via,
            "omit": omit}


def _call_line(case, ctx, fn, h, s_arg):
    """Call fn(h, ...) / h.to_line_graph(...) the way the case says; returns a closure that
    repeats the identical call."""
    distance, weighted, via = case["distance"], case["weighted"], case["via"]
    if via == "function":
        return lambda: fn(h, distance, s_arg, weighted)
    if via == "function-kw":
        return lambda: fn(h, weighted=weighted, s=s_arg, distance=distance)
    if via == "method":
        return lambda: h.to_line_graph(distance=distance, s=s_arg, weighted=weighted)
    omit = case.get("omit") or [True, True, True]
    kw, left_out = {}, []
    if omit[0] and distance == "intersection":
        left_out.append("distance")
    else:
        kw["distance"] = distance
    if omit[1] and list(case["s"]) == [1, 1]:
        left_out.append("s")
    else:
        kw["s"] = s_arg
    if omit[2] and weighted is False:
        left_out.append("weighted")
    else:
        kw["weighted"] = weighted
    for a in left_out:
        ctx.label("omitted-" + a)
    if len(left_out) == 3:
        ctx.label("all-arguments-omitted")
    if via == "defaults":
        return lambda: fn(h, **kw)
    return lambda: h.to_line_graph(**kw)


@st.composite
def s_line_cases(draw, tier):
    hc = draw(P.hypergraph_cases(max_nodes=10, min_edges=0,
                                 max_edges=8 if tier == "quick" else 10))
    _, edges = P.content(hc)
    cfg = _config(draw, lambda distance: [P.exact_sim(distance, a, b)
                                          for a, b in combinations(edges, 2)])
    cfg["h"] = hc
    return cfg


def _table_keys(what, g, table):
    """Vertex set of the graph == key set of the id table (each vertex once)."""
    verts = list(g.nodes())
    require(len(set(verts)) == len(verts) and set(verts) == set(table.keys()),
            lambda: "%s: vertex set %r differs from the keys of the id table %r"
            % (what, sorted(verts, key=repr), sorted(table.keys(), key=repr)), key="lg-table-keys")
    return verts


def check_line_graph(case, ctx):
    from hypergraphx.representations.projections import line_graph
    hc = case["h"]
    nodes, edges = P.content(hc)
    h = P.build_hypergraph(hc)
    distance, weighted = case["distance"], case["weighted"]
    s_exact = P.threshold_exact(distance, case["s"])
    s_base = Fraction(case["s"][0], case["s"][1])
    nudged = len(case["s"]) > 2 and case["s"][2]
    if nudged:
        ctx.label("threshold-one-ulp-%s-a-rational" % ("above" if nudged > 0 else "below"))
    s_arg = P.threshold_arg(distance, case["s"])
    call = _call_line(case, ctx, line_graph, h, s_arg)
    w0 = _weights_of(h, cedge)
    g, table = call()
    what = "line_graph(distance=%r, s=%r, weighted=%r) [%s]" % (distance, s_arg, weighted,
                                                                case["via"])
    _graph_kind(g, False, what)
    _labels(ctx, hc, nodes, _covered(edges), len(edges))
    ctx.label(distance, "weighted" if weighted else "unweighted", "via-" + case["via"])
    verts = _table_keys(what, g, table)
    of = {v: cedge(e) for v, e in table.items()}
    exp_edges = Counter(tuple(sorted(e)) for e in edges)
    require(Counter(of.values()) == exp_edges,
            lambda: "%s: id table must be a bijection onto the hyperedges %r, it maps to %r"
            % (what, sorted(exp_edges), sorted(of.values())), key="lg-table-bijection")
    exact_hit = below_hit = False
    for u in verts:
        require(not g.has_edge(u, u),
                lambda: "%s: self-loop on vertex %r (hyperedge %r)" % (what, u, of[u]),
                key="lg-self-loop")
    n_exp = 0
    sims = []
    for u, v in combinations(verts, 2):
        a, b = set(of[u]), set(of[v])
        sim = P.exact_sim(distance, a, b)
        sims.append(sim)
        exp = sim >= s_exact
        n_exp += exp
        if sim == s_exact or (nudged and sim == s_base):
            exact_hit = True
        if 0 < sim < s_exact:
            below_hit = True
        got = g.has_edge(u, v)
        require(got == exp,
                lambda: "%s: hyperedges %r and %r have %s %s, threshold %s, so they must %sbe "
                        "joined; has_edge=%r" % (what, of[u], of[v], distance, sim, s_exact,
                                                 "" if exp else "not ", got), key="lg-adjacency")
        if exp and weighted:
            w = g[u][v].get("weight")
            ok = (isinstance(w, numbers.Real) and not isinstance(w, bool)
                  and (w == sim.numerator if distance == "intersection"
                       else abs(w - sim.numerator / sim.denominator) <= 1e-12))
            require(ok, lambda: "%s: weight of the link between %r and %r is %r, expected the "
                                "%s %s" % (what, of[u], of[v], w, distance, sim), key="lg-weight")
    require(g.number_of_edges() == n_exp,
            lambda: "%s: %d links, expected %d" % (what, g.number_of_edges(), n_exp),
            key="lg-adjacency")
    if exact_hit:
        ctx.label("pair-exactly-on-threshold")
    if below_hit:
        ctx.label("pair-just-below-threshold")
    ctx.nontrivial(exact_hit and below_hit)
    if any(sim.denominator > 6 for sim in sims):
        ctx.label("similarity-with-denominator-7-to-10")
    if s_base.denominator > 6:
        ctx.label("threshold-with-denominator-7-to-10")
    _untouched(what, h, nodes, exp_edges, w0)
    first = _graph_content(g, table, cedge, False, weighted)
    _scribble(g, table)
    g2, table2 = call()
    _same_again(what, first, _graph_content(g2, table2, cedge, False, weighted))


# --------------------------------------------------------------------------
# C10.directed_line_graph


@st.composite
def s_dline_cases(draw, tier):
    dc = draw(P.directed_cases(max_nodes=8 if tier == "quick" else 10,
                               max_edges=6 if tier == "quick" else 9))
    _, edges = P.directed_content(dc)
    cfg = _config(draw, lambda distance: [P.exact_sim(distance, e[1], f[0])
                                          for e in edges for f in edges if e != f])
    cfg["h"] = dc
    return cfg


def check_directed_line_graph(case, ctx):
    from hypergraphx.representations.projections import directed_line_graph
    dc = case["h"]
    nodes, edges = P.directed_content(dc)
    h = P.build_directed(dc)
    distance, weighted = case["distance"], case["weighted"]
    s_exact = P.threshold_exact(distance, case["s"])
    s_base = Fraction(case["s"][0], case["s"][1])
    nudged = len(case["s"]) > 2 and case["s"][2]
    if nudged:
        ctx.label("threshold-one-ulp-%s-a-rational" % ("above" if nudged > 0 else "below"))
    s_arg = P.threshold_arg(distance, case["s"])
    call = _call_line(case, ctx, directed_line_graph, h, s_arg)
    w0 = _weights_of(h, _cdedge)
    g, table = call()
    what = "directed_line_graph(distance=%r, s=%r, weighted=%r) [%s]" % (distance, s_arg, weighted,
                                                                         case["via"])
    _graph_kind(g, True, what)
    _labels(ctx, dc, nodes, _covered([a | b for a, b in edges]), len(edges))
    ctx.label(distance, "weighted" if weighted else "unweighted", "via-" + case["via"])
    verts = _table_keys(what, g, table)
    of = {v: _cdedge(e) for v, e in table.items()}
    exp_edges = Counter((tuple(sorted(a)), tuple(sorted(b))) for a, b in edges)
    require(Counter(of.values()) == exp_edges,
            lambda: "%s: id table must be a bijection onto the hyperedges %r, it maps to %r"
            % (what, sorted(exp_edges), sorted(of.values())), key="dlg-table-bijection")
    exact_hit = below_hit = asym = False
    n_exp = 0
    sims, weight_kinds = [], set()
    for u in verts:
        require(not g.has_edge(u, u),
                lambda: "%s: self-loop on vertex %r (hyperedge %r)" % (what, u, of[u]),
                key="dlg-self-loop")
        for v in verts:
            if u == v:
                continue
            sim = P.exact_sim(distance, of[u][1], of[v][0])   # target(u) vs source(v)
            back = P.exact_sim(distance, of[v][1], of[u][0])
            exp = sim >= s_exact
            n_exp += exp
            if sim == s_exact or (nudged and sim == s_base):
                exact_hit = True
            if 0 < sim < s_exact:
                below_hit = True
            if exp != (back >= s_exact):
                asym = True
            got = g.has_edge(u, v)
            require(got == exp,
                    lambda: "%s: target set of %r and source set of %r have %s %s, threshold %s, "
                            "so the arc must %sexist; has_edge=%r"
                    % (what, of[u], of[v], distance, sim, s_exact, "" if exp else "not ", got),
                    key="dlg-adjacency")
            sims.append(sim)
            if exp and weighted:
                # not demanded (see ASSUMPTIONS): classified only
                w = g[u][v].get("weight")
                ok = (isinstance(w, numbers.Real) and not isinstance(w, bool)
                      and (w == sim.numerator if distance == "intersection"
                           else abs(w - sim.numerator / sim.denominator) <= 1e-12))
                weight_kinds.add("arc-weight-equals-similarity" if ok else "arc-weight-other")
    require(g.number_of_edges() == n_exp,
            lambda: "%s: %d arcs, expected %d" % (what, g.number_of_edges(), n_exp),
            key="dlg-adjacency")
    if exact_hit:
        ctx.label("pair-exactly-on-threshold")
    if below_hit:
        ctx.label("pair-just-below-threshold")
    if asym:
        ctx.label("one-way-arc")
    ctx.nontrivial(exact_hit and (below_hit or asym))
    for k in sorted(weight_kinds):
        ctx.label(k)
    if "arc-weight-other" in weight_kinds:
        ctx.exclude("weight attribute of a weighted directed line graph is not the similarity "
                    "(value not promised)")
    if any(sim.denominator > 6 for sim in sims):
        ctx.label("similarity-with-denominator-7-to-10")
    if s_base.denominator > 6:
        ctx.label("threshold-with-denominator-7-to-10")
    _untouched(what, h, nodes, exp_edges, w0, canon=_cdedge)
    first = _graph_content(g, table, _cdedge, True, False)
    _scribble(g, table)
    g2, table2 = call()
    _same_again(what, first, _graph_content(g2, table2, _cdedge, True, False))


# --------------------------------------------------------------------------
# C10.simplicial_complex


def s_simplicial(tier):
    return P.hypergraph_cases(max_nodes=8, max_edges=6 if tier == "quick" else 8)


def check_simplicial(case, ctx):
    from hypergraphx.representations.simplicial_complex import simplicial_complex
    nodes, edges = P.content(case)
    h = P.build_hypergraph(case)
    w0 = _weights_of(h, cedge)
    S = simplicial_complex(h)
    require(S is not h, "simplicial_complex(h) returned its argument h itself instead of a new "
                        "Hypergraph", key="sc-same-object")
    _labels(ctx, case, nodes, _covered(edges), len(edges))
    got = [cedge(e) for e in S.get_edges()]
    if () in got:
        ctx.label("empty-hyperedge-present")
    got_ne = Counter(e for e in got if len(e) > 0)
    closure = set()
    for e in edges:
        se = sorted(e, key=_ckey)
        for k in range(1, len(se) + 1):
            for sub in combinations(se, k):
                closure.add(tuple(sorted(sub)))
    exp = Counter(closure)
    missing = sorted(set(exp) - set(got_ne), key=repr)
    extra = sorted(set(got_ne) - set(exp), key=repr)
    require(not missing,
            lambda: "simplicial_complex of %r: non-empty subsets %r of a hyperedge are missing"
            % (sorted(map(sorted, edges), key=repr), missing[:6]), key="sc-missing")
    require(not extra,
            lambda: "simplicial_complex of %r: hyperedges %r are not a subset of any input "
                    "hyperedge" % (sorted(map(sorted, edges), key=repr), extra[:6]), key="sc-extra")
    require(got_ne == exp,
            lambda: "simplicial_complex: a hyperedge is listed more than once: %r"
            % ([e for e, c in got_ne.items() if c > 1],), key="sc-dup")
    nested = any(a < b for a in edges for b in edges)
    if nested:
        ctx.label("nested-input")
    ctx.nontrivial(len(edges) >= 2 and any(len(e) >= 3 for e in edges)
                   and any(a & b for a, b in combinations(edges, 2)))
    in_edges = Counter(tuple(sorted(e)) for e in edges)
    _untouched("simplicial_complex", h, nodes, in_edges, w0)
    # the result belongs to the caller: empty it, put junk into it; the input and the next
    # answer must not notice
    for e in list(S.get_edges()):
        S.remove_edge(e)
    S.add_edge(("junk-a", "junk-b"))
    _untouched("simplicial_complex (after the caller modified the returned complex)", h, nodes,
               in_edges, w0)
    again = Counter(cedge(e) for e in simplicial_complex(h).get_edges())
    require(again == Counter(got),
            lambda: "simplicial_complex: asked a second time after the caller emptied the first "
                    "result, the hyperedges are %r, first answer %r"
            % (sorted(again.elements(), key=repr), sorted(got, key=repr)), key="result-aliased")


# --------------------------------------------------------------------------
# C10.similarity


@st.composite
def s_similarity_cases(draw, tier):
    from .. import strategies as S
    U = draw(S.universes(2, 8, ("ints", "strs")))
    n = len(U["labels"])
    a = draw(st.lists(st.integers(0, n - 1), max_size=6, unique=True))
    b = draw(st.lists(st.integers(0, n - 1), min_size=0 if a else 1, max_size=6, unique=True))
    return {"kind": U["kind"], "labels": U["labels"], "a": a, "b": b}


def check_similarity(case, ctx):
    from hypergraphx.measures.edge_similarity import (intersection, jaccard_distance,
                                                      jaccard_similarity)
    L = case["labels"]
    a = {L[i] for i in case["a"]}
    b = {L[i] for i in case["b"]}
    i, u = len(a & b), len(a | b)
    ctx.label("labels-" + case["kind"])
    if not a or not b:
        ctx.label("one-empty-set")
    if a == b:
        ctx.label("equal-sets")
    if i == 0:
        ctx.label("disjoint")
    for x, y, tag in ((a, b, "(a, b)"), (b, a, "(b, a)")):
        got = intersection(set(x), set(y))
        require(got == i and not isinstance(got, bool),
                lambda: "intersection%s with a=%r b=%r: got %r, expected %d" % (tag, a, b, got, i),
                key="sim-intersection")
        js = jaccard_similarity(set(x), set(y))
        require(isinstance(js, (int, float)) and abs(js - i / u) <= 1e-12,
                lambda: "jaccard_similarity%s with a=%r b=%r: got %r, expected %d/%d"
                % (tag, a, b, js, i, u), key="sim-jaccard")
        jd = jaccard_distance(set(x), set(y))
        require(isinstance(jd, (int, float)) and abs(jd - (1 - i / u)) <= 1e-12,
                lambda: "jaccard_distance%s with a=%r b=%r: got %r, expected 1 - %d/%d"
                % (tag, a, b, jd, i, u), key="sim-jaccard-distance")
    require(a == {L[k] for k in case["a"]} and b == {L[k] for k in case["b"]},
            "similarity functions modified their arguments")
    ctx.nontrivial(0 < i < u)



# --------------------------------------------------------------------------
# C10.clique_many: two nodes that co-occur in hundreds of hyperedges
#
# "joins two nodes exactly when some hyperedge contains both": the NUMBER of such hyperedges
# must not matter -- a projection computed from co-occurrence counts in a narrow integer type
# loses a pair whose count is a multiple of 256 (or 65536).


@st.composite
def s_clique_many(draw, tier):
    count = draw(st.sampled_from([255, 256, 257, 512, 256, 300]))
    return {"count": count, "keep_isolated": draw(st.sampled_from([None, False, True])),
            "extra": draw(st.lists(st.lists(st.integers(2, 13), min_size=2, max_size=3, unique=True),
                                   max_size=3)),
            "order_seed": draw(st.integers(0, 999))}


def check_clique_many(case, ctx):
    from hypergraphx import Hypergraph
    from hypergraphx.representations.projections import clique_projection
    others = list(range(2, 14))
    subsets = [c for r in range(0, 5) for c in combinations(others, r)]   # 794 subsets
    chosen = permuted(subsets, case["order_seed"])[:case["count"]]
    extra = {frozenset(e): tuple(e) for e in case["extra"]}               # distinct node sets
    edges = [(0, 1) + c for c in chosen] + list(extra.values())
    h = Hypergraph(edges)
    h.add_node(99)
    kw = {} if case["keep_isolated"] is None else {"keep_isolated": case["keep_isolated"]}
    g = clique_projection(h, **kw)
    exp = set()
    for e in set(map(frozenset, edges)):
        for u, v in combinations(sorted(e), 2):
            exp.add(frozenset((u, v)))
    got = {frozenset((u, v)) for u, v in g.edges()}
    require(got == exp,
            lambda: "clique_projection of %d hyperedges, %d of them containing both 0 and 1: "
                    "missing pairs %r, unexpected %r"
            % (len(edges), case["count"], sorted(map(sorted, exp - got))[:5],
               sorted(map(sorted, got - exp))[:5]), key="clique-pairs")
    ctx.label("pair_in_%d_hyperedges" % case["count"])
    ctx.nontrivial(case["count"] % 256 == 0)


CLAUSES = [
    Clause("bipartite", s_bipartite, check_bipartite, quick=600, thorough=2500,
           rule="at least two hyperedges, two of them sharing a node"),
    Clause("clique", lambda tier: s_clique_cases(tier), check_clique, quick=600, thorough=2500,
           rule="at least one joined pair and at least one node without any neighbour "
                "(isolated or only in a singleton hyperedge)"),
    Clause("clique_many", s_clique_many, check_clique_many, quick=8, thorough=12,
           rule="two nodes co-occurring in a multiple of 256 hyperedges"),
    Clause("line_graph", lambda tier: s_line_cases(tier), check_line_graph, quick=600,
           thorough=4000, shards_quick=3,
           rule="some pair of hyperedges has similarity exactly s and another pair has a "
                "positive similarity strictly below s"),
    Clause("directed_line_graph", lambda tier: s_dline_cases(tier), check_directed_line_graph,
           quick=600, thorough=4000, shards_quick=3,
           rule="some ordered pair (target of e, source of f) has similarity exactly s and some "
                "ordered pair is positive but below s or an arc exists in one direction only"),
    Clause("simplicial_complex", s_simplicial, check_simplicial, quick=500, thorough=2000,
           rule="at least two overlapping hyperedges, one of size >= 3"),
    Clause("similarity", lambda tier: s_similarity_cases(tier), check_similarity, quick=500,
           thorough=2000, rule="sets that overlap without being equal (0 < |a&b| < |a|b|)"),
]
