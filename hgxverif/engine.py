"""Driver shared by all property checks.

A *property* (C01..C20) is a list of named *clauses*.  A clause has

  * ``strategy(tier)``  -> a Hypothesis strategy producing a JSON-serialisable
    *case* (every random choice, including the seeds handed to the library's
    own RNGs and the "selector" integers of an operation history, lives in the
    case, so a case replays without Hypothesis);
  * ``check(case, ctx)`` -> runs the real code and the oracle; raises
    ``Violation`` when the property is broken, calls ``ctx.label`` /
    ``ctx.nontrivial`` to classify the case.

The engine seeds Hypothesis from VERIF_SEED, runs every clause (all of them,
also when one fails), shards them over a process pool, shrinks failures, writes
replay files, handles known findings and writes the evidence file.
"""

from __future__ import annotations

import hashlib
import importlib
import io
import json
import multiprocessing
import os
import sys
import time
import traceback
import warnings
from collections import Counter
from contextlib import redirect_stdout

VERIF_DIR = os.path.dirname(os.path.dirname(os.path.abspath(__file__)))
REPO = os.environ.get("HGXVERIF_REPO", "/repo")
GUARD = "HGX_VERIF"


def setup_paths():
    """Import the code under test from the working tree (never from a cache)."""
    sys.dont_write_bytecode = True
    os.environ.setdefault(GUARD, "1")
    if sys.path[0] != REPO:
        sys.path.insert(0, REPO)
    warnings.filterwarnings("ignore")


class Violation(AssertionError):
    """The code under test breaks the property on this case."""

    def __init__(self, msg, key=None):
        super().__init__(msg)
        self.msg = msg
        self.key = key  # optional tag used to match known findings


class HarnessError(Exception):
    """Something is wrong with the check itself (never reported as VIOLATION)."""


def require(cond, msg, key=None):
    if not cond:
        raise Violation(msg() if callable(msg) else msg, key=key)


class Ctx:
    """Per-case classification handed to ``check``."""

    def __init__(self):
        self.labels = []
        self.is_nontrivial = False
        self.trace = None  # optional human-readable concrete trace
        self.excluded = []  # reasons a sub-case was excluded by construction

    def label(self, *names):
        self.labels.extend(names)

    def nontrivial(self, flag=True):
        if flag:
            self.is_nontrivial = True

    def exclude(self, reason):
        self.excluded.append(reason)


class Clause:
    def __init__(self, name, strategy, check, quick, thorough, rule,
                 known=None, shards_quick=1, doc=""):
        self.name = name
        self.strategy = strategy      # callable(tier) -> hypothesis strategy
        self.check = check            # callable(case, ctx)
        self.n = {"quick": quick, "thorough": thorough}  # examples per shard
        self.rule = rule              # non-triviality rule (text)
        self.known = known or {}      # key -> predicate(case, violation) for known findings
        self.shards_quick = shards_quick
        self.doc = doc


def canon(case):
    return json.dumps(case, sort_keys=True, default=_json_default)


def _json_default(o):
    import numpy as np
    if isinstance(o, (set, frozenset)):
        return sorted(o, key=repr)
    if isinstance(o, tuple):
        return list(o)
    if isinstance(o, np.integer):
        return int(o)
    if isinstance(o, np.floating):
        return float(o)
    if isinstance(o, np.ndarray):
        return o.tolist()
    return repr(o)


def sha(case):
    return hashlib.sha1(canon(case).encode()).hexdigest()


def _lib_frame(tb):
    """True when the traceback passes through the code under test."""
    root = os.path.join(os.path.realpath(REPO), "hypergraphx") + os.sep
    for fs in traceback.extract_tb(tb):
        if os.path.realpath(fs.filename).startswith(root):
            return True
    return False


class CaseTimeout(BaseException):
    """One case ran into the watchdog (BaseException: no `except Exception` swallows it)."""


class Inconclusive(BaseException):
    """The watchdog's verdict; a BaseException so that Hypothesis stops at once instead of
    shrinking a case every run of which waits for the watchdog again."""


CASE_TIMEOUT_S = int(os.environ.get("HGXVERIF_CASE_TIMEOUT", "240"))


def _on_alarm(signum, frame):
    raise CaseTimeout()


def run_case(clause, case, ctx):
    """Run one case; normalise what comes out.

    Violation                      -> re-raised
    exception through library code -> Violation("unexpected exception ...")
    exception in the harness only  -> HarnessError
    no answer within CASE_TIMEOUT_S (cases take milliseconds to seconds) -> HarnessError
        "inconclusive": the check ends with exit 2 instead of waiting for ever on a call
        that does not return (a time budget is never reported as a violation)
    """
    import signal
    buf = io.StringIO()
    use_alarm = hasattr(signal, "SIGALRM")
    if use_alarm:
        try:
            old_handler = signal.signal(signal.SIGALRM, _on_alarm)
            signal.alarm(CASE_TIMEOUT_S)
        except ValueError:      # not in the main thread
            use_alarm = False
    try:
        with redirect_stdout(buf):
            clause.check(case, ctx)
    except Violation:
        raise
    except HarnessError:
        raise
    except (KeyboardInterrupt, SystemExit):
        raise
    except CaseTimeout as e:
        frames = traceback.extract_tb(e.__traceback__)
        lib = [f for f in frames if "hypergraphx" in f.filename and "hgxverif" not in f.filename]
        at = lib[-1] if lib else frames[-1]
        raise Inconclusive(
            "INCONCLUSIVE: a case of clause %s did not finish within %d s (it was at %s:%d in %s "
            "when the watchdog fired); case: %s"
            % (clause.name, CASE_TIMEOUT_S, os.path.basename(at.filename), at.lineno, at.name,
               canon(case)[:1500])) from None
    except BaseException as e:  # noqa
        # Hypothesis control-flow exceptions must pass through untouched
        mod = type(e).__module__ or ""
        if mod.startswith("hypothesis"):
            raise
        tb = e.__traceback__
        last = traceback.extract_tb(tb)[-1]
        where = "%s:%d" % (os.path.basename(last.filename), last.lineno)
        if _lib_frame(tb):
            libframes = [f for f in traceback.extract_tb(tb)
                         if "hypergraphx" in f.filename and "hgxverif" not in f.filename]
            lf = libframes[-1] if libframes else last
            raise Violation(
                "unexpected %s from the code under test: %s (at %s:%d in %s)"
                % (type(e).__name__, str(e)[:200],
                   os.path.relpath(lf.filename, REPO), lf.lineno, lf.name),
                key="exc:%s:%s" % (type(e).__name__, lf.name),
            ) from e
        raise HarnessError(
            "harness exception %s: %s at %s\n%s"
            % (type(e).__name__, e, where, "".join(traceback.format_tb(tb)[-6:]))
        ) from e
    finally:
        if use_alarm:
            signal.alarm(0)
            signal.signal(signal.SIGALRM, old_handler)


def load_known(prop_id):
    """Known findings listed in /verif/known_findings.txt for this property.

    Line format:  finding: property=C05 key=<key> <what fails>
                  fixed: property=C05 <commit> <what failed>     (suppresses nothing)
    """
    path = os.path.join(VERIF_DIR, "known_findings.txt")
    out = {}
    if not os.path.exists(path):
        return out
    for line in open(path):
        line = line.strip()
        if not line.startswith("finding:"):
            continue
        parts = line[len("finding:"):].split()
        kv = dict(p.split("=", 1) for p in parts[:2] if "=" in p)
        if kv.get("property") == prop_id and "key" in kv:
            out[kv["key"]] = " ".join(parts[2:])
    return out


def derive_seed(base, *parts):
    h = hashlib.sha256(("%d|" % base + "|".join(map(str, parts))).encode()).digest()
    return int.from_bytes(h[:8], "big")


def _run_shard(args):
    """One (property, clause, shard) Hypothesis run.  Executed in a worker."""
    prop_id, clause_name, tier, shard, base_seed, n_examples = args
    setup_paths()
    import hypothesis
    from hypothesis import HealthCheck, Phase, given, settings

    mod = importlib.import_module("hgxverif.props.%s" % prop_id.lower())
    clause = {c.name: c for c in mod.CLAUSES}[clause_name]
    known_listed = load_known(prop_id)

    st = {
        "clause": clause_name, "shard": shard, "evaluations": 0,
        "nontrivial": set(), "labels": Counter(), "samples": [],
        "excluded": Counter(), "known": Counter(), "failure": None,
        "harness_error": None, "wall_s": 0.0,
    }
    last_fail = {}

    def body(case):
        ctx = Ctx()
        st["evaluations"] += 1
        try:
            run_case(clause, case, ctx)
        except Violation as v:
            for key, pred in clause.known.items():
                if key in known_listed and pred(case, v):
                    st["known"][key] += 1
                    return
            last_fail["case"] = case
            last_fail["msg"] = v.msg
            last_fail["trace"] = ctx.trace
            raise
        finally:
            for lab in ctx.labels:
                st["labels"][lab] += 1
            for r in ctx.excluded:
                st["excluded"][r] += 1
        if ctx.is_nontrivial:
            h = sha(case)
            if h not in st["nontrivial"]:
                st["nontrivial"].add(h)
                if len(st["samples"]) < 3:
                    st["samples"].append(
                        {"case": json.loads(canon(case)), "trace": ctx.trace})

    t0 = time.time()
    seed = derive_seed(base_seed, prop_id, clause_name, shard)
    test = given(clause.strategy(tier))(body)
    test = hypothesis.seed(seed)(test)
    test = settings(
        max_examples=n_examples, database=None, deadline=None, derandomize=False,
        report_multiple_bugs=False, print_blob=False,
        phases=[Phase.generate, Phase.shrink],
        suppress_health_check=[HealthCheck.too_slow, HealthCheck.data_too_large,
                               HealthCheck.large_base_example],
    )(test)
    try:
        test()
    except Violation:
        case = last_fail["case"]
        st["failure"] = {"case": json.loads(canon(case)), "message": last_fail["msg"],
                         "trace": last_fail.get("trace")}
    except HarnessError as e:
        st["harness_error"] = str(e)
    except Inconclusive as e:
        st["harness_error"] = str(e)
    except BaseException as e:  # health check failures, hypothesis errors
        if type(e).__name__ in ("FlakyFailure", "Flaky") and last_fail.get("case") is not None:
            # Hypothesis executed the failing case again and it passed: the assertion DID fail
            # on the real code once, with every random state set from the case -- the code under
            # test does not behave the same on identical calls.  That is reported as what it
            # is, a violation that was observed (its replay may pass).
            case = last_fail["case"]
            st["failure"] = {"case": json.loads(canon(case)),
                             "message": last_fail["msg"] + "  [observed once: the same case "
                             "passed when it was executed again, i.e. identical calls of the "
                             "code under test gave different results]",
                             "trace": last_fail.get("trace")}
        else:
            st["harness_error"] = "%s: %s\n%s" % (type(e).__name__, e,
                                                   traceback.format_exc()[-1500:])
    st["wall_s"] = time.time() - t0
    st["nontrivial"] = sorted(st["nontrivial"])
    st["labels"] = dict(st["labels"])
    st["excluded"] = dict(st["excluded"])
    st["known"] = dict(st["known"])
    return st


def replay_file(prop_id, path, quiet=False):
    """Re-execute a saved case through the same oracle, without Hypothesis.

    Returns None when the property holds on it, else the violation message.
    """
    setup_paths()
    mod = importlib.import_module("hgxverif.props.%s" % prop_id.lower())
    doc = json.load(open(path))
    clause = {c.name: c for c in mod.CLAUSES}[doc["clause"]]
    ctx = Ctx()
    try:
        run_case(clause, doc["case"], ctx)
    except Inconclusive as e:
        raise HarnessError(str(e)) from None
    except Violation as v:
        known_listed = load_known(prop_id)
        for key, pred in clause.known.items():
            if key in known_listed and pred(doc["case"], v):
                if not quiet:
                    print("KNOWN-FINDING: property=%s %s" % (prop_id, known_listed[key]))
                return None
        return v.msg
    return None


def write_replay(prop_id, clause_name, failure, seed, tier):
    d = os.path.join(VERIF_DIR, "replays", prop_id)
    os.makedirs(d, exist_ok=True)
    h = sha(failure["case"])[:8]
    path = os.path.join(d, "found-%s-%s.json" % (clause_name, h))
    with open(path, "w") as f:
        json.dump({"property": prop_id, "clause": clause_name, "seed": seed,
                   "tier": tier, "message": failure["message"],
                   "trace": failure.get("trace"), "case": failure["case"]},
                  f, indent=1, sort_keys=True, default=_json_default)
    return path


def run_property(prop_id, tier, seed, only_clause=None, scale=1.0, procs=None):
    setup_paths()
    t0 = time.time()
    mod = importlib.import_module("hgxverif.props.%s" % prop_id.lower())
    clauses = [c for c in mod.CLAUSES if only_clause in (None, c.name)]
    known_listed = load_known(prop_id)
    violations = []   # (clause, replay path, message)
    harness_errors = []

    # 1. regression replays (seconds, no Hypothesis)
    regdir = os.path.join(VERIF_DIR, "replays", prop_id)
    n_replayed = 0
    if os.path.isdir(regdir) and only_clause is None:
        for fn in sorted(os.listdir(regdir)):
            if fn.startswith("reg-") and fn.endswith(".json"):
                n_replayed += 1
                p = os.path.join(regdir, fn)
                try:
                    msg = replay_file(prop_id, p, quiet=True)
                except HarnessError as e:
                    harness_errors.append("replay %s: %s" % (fn, e))
                    continue
                if msg is not None:
                    violations.append(("replay:" + fn, p, msg))

    # 2. generated search
    n_shards = 16 if tier == "thorough" else None
    tasks = []
    for c in clauses:
        ns = n_shards if n_shards else c.shards_quick
        n = max(1, int(c.n[tier] * scale))
        for s in range(ns):
            tasks.append((prop_id, c.name, tier, s, seed, n))
    procs = procs or min(16, len(tasks)) or 1
    if procs == 1 or len(tasks) == 1:
        results = [_run_shard(t) for t in tasks]
    else:
        # Workers come from a fork SERVER (a clean helper process started before anything of
        # the library ran): forking the main process after the regression replays have started
        # BLAS/OpenMP threads can leave a worker blocked on a lock for ever.  A worker that
        # dies (crash of the interpreter inside the code under test) breaks the pool instead of
        # hanging it; that is reported as a harness error (exit 2), never as a pass.
        from concurrent.futures import ProcessPoolExecutor
        from concurrent.futures.process import BrokenProcessPool
        ctx = multiprocessing.get_context("forkserver")
        results = []
        # (no max_tasks_per_child: with it the executor of CPython 3.12.1 stops replacing
        # retired workers once every worker has served its quota and waits for ever with tasks
        # still queued -- seen on the thorough tier of a property with > 4 x 16 shards)
        with ProcessPoolExecutor(max_workers=procs, mp_context=ctx) as ex:
            futures = [ex.submit(_run_shard, t) for t in tasks]
            for t, f in zip(tasks, futures):
                try:
                    results.append(f.result())
                except BrokenProcessPool:
                    harness_errors.append("worker process died while running clause %s shard %d "
                                          "(crash outside Python's exception handling?)"
                                          % (t[1], t[3]))

    per_clause = {}
    all_nontrivial = set()
    total_eval = 0
    samples = []
    labels = Counter()
    excluded = Counter()
    known_hits = Counter()
    for r in results:
        pc = per_clause.setdefault(r["clause"], {
            "evaluations": 0, "distinct_nontrivial": set(), "shards": 0,
            "wall_s": 0.0})
        pc["evaluations"] += r["evaluations"]
        pc["shards"] += 1
        pc["wall_s"] = round(pc["wall_s"] + r["wall_s"], 2)
        pc["distinct_nontrivial"].update(r["nontrivial"])
        total_eval += r["evaluations"]
        for h in r["nontrivial"]:
            all_nontrivial.add(r["clause"] + ":" + h)
        if len([s for s in samples if s["clause"] == r["clause"]]) < 2:
            for s in r["samples"][:2]:
                samples.append({"clause": r["clause"], **s})
        for k, v in r["labels"].items():
            labels[r["clause"] + "/" + k] += v
        for k, v in r["excluded"].items():
            excluded[r["clause"] + "/" + k] += v
        for k, v in r["known"].items():
            known_hits[k] += v
        if r["harness_error"]:
            harness_errors.append("%s[%d]: %s" % (r["clause"], r["shard"], r["harness_error"]))
        if r["failure"]:
            path = write_replay(prop_id, r["clause"], r["failure"], seed, tier)
            if not any(v[1] == path for v in violations):
                violations.append((r["clause"], path, r["failure"]["message"]))
    for pc in per_clause.values():
        pc["distinct_nontrivial"] = len(pc["distinct_nontrivial"])

    # 3. optional supplementary campaigns of the thorough tier (coverage-guided fuzzing)
    extra = {}
    if tier == "thorough" and only_clause is None:
        import re
        import subprocess
        import tempfile
        for name, argv in getattr(mod, "POST_THOROUGH", []):
            with tempfile.TemporaryDirectory(prefix="hgxverif_corpus_") as corpus:
                cmd = [sys.executable] + [a.replace("{verif}", VERIF_DIR) for a in argv] + [
                    "-seed=%d" % (seed % (2 ** 31 - 1) + 1), corpus]
                r = subprocess.run(cmd, cwd=VERIF_DIR, capture_output=True, text=True,
                                   env=dict(os.environ, PYTHONHASHSEED="0"))
            out = r.stdout + r.stderr
            m = re.search(r"Done (\d+) runs", out)
            extra[name] = {"cmd": " ".join(cmd[:-1]), "exit": r.returncode,
                           "runs": int(m.group(1)) if m else 0}
            vm = re.search(r"VIOLATION property=\S+ replay=(\S+)", out)
            if vm:
                msg = next((l.strip() for l in out.splitlines() if l.strip().startswith("clause")), "")
                violations.append((name, vm.group(1), msg))
            elif "No module named 'atheris'" in out:
                extra[name]["skipped"] = "atheris not installed (run MANIFEST.setup_cmd)"
            elif r.returncode != 0:
                harness_errors.append("%s: exit %d: %s" % (name, r.returncode, out[-400:]))

    wall = time.time() - t0
    rules = "; ".join("%s: %s" % (c.name, c.rule) for c in clauses)
    # keep the evidence file readable: cap sample size
    def _cap(s):
        txt = canon(s)
        return s if len(txt) < 6000 else {"clause": s["clause"], "truncated": txt[:6000]}
    evidence = {
        "property_id": prop_id,
        "tier": tier,
        "seed": int(seed),
        "level": "exploration",
        "coverage": {
            "evaluations": total_eval,
            "distinct_nontrivial": len(all_nontrivial),
            "rule": ("cases are drawn by Hypothesis strategies (seeded from VERIF_SEED; "
                     "one run per clause and shard); a case is counted when the clause's "
                     "non-triviality rule holds and its canonical JSON is new. Rules -- " + rules),
            "samples": [_cap(s) for s in samples[:8]],
            "per_clause": per_clause,
            "label_histogram": dict(sorted(labels.items())),
            "excluded_by_construction": dict(sorted(excluded.items())),
            "known_findings_hit": dict(known_hits),
            "regression_replays": n_replayed,
            "shards": len(tasks),
            "harness_errors": harness_errors,
            "supplementary_campaigns": extra,
            "exhaustive": False,
        },
        "assumptions": getattr(mod, "ASSUMPTIONS", []),
        "wall_s": round(wall, 2),
        "violations": len(violations),
    }
    if only_clause is None:
        # (the sensitivity tools, which point the checks at scratch trees, divert their evidence)
        edir = os.environ.get("HGXVERIF_EVIDENCE_DIR") or os.path.join(VERIF_DIR, "evidence")
        os.makedirs(edir, exist_ok=True)
        with open(os.path.join(edir, "%s.json" % prop_id), "w") as f:
            json.dump(evidence, f, indent=1, default=_json_default)

    if only_clause is None:
        for key, text in known_listed.items():
            print("KNOWN-FINDING: property=%s %s [key=%s; met %d times in this run, each "
                  "excluded from the search]" % (prop_id, text, key, known_hits.get(key, 0)))
    for clause_name, path, msg in violations:
        print("  clause %s: %s" % (clause_name, msg[:600]))
        print("VIOLATION property=%s replay=%s" % (prop_id, path))
    print("%s %s seed=%d: %d cases, %d distinct non-trivial, %d clauses, %.1fs%s"
          % (prop_id, tier, seed, total_eval, len(all_nontrivial), len(clauses), wall,
             "" if not harness_errors else "  HARNESS ERRORS: %d" % len(harness_errors)))
    for c, pc in per_clause.items():
        print("   %-28s eval=%-7d nontrivial=%-7d wall=%.1fs"
              % (c, pc["evaluations"], pc["distinct_nontrivial"], pc["wall_s"]))
    if violations:
        return 1
    if harness_errors:
        for e in harness_errors[:5]:
            print("HARNESS-ERROR:", e, file=sys.stderr)
        return 2
    return 0
