"""Print the clause table of DESIGN 7.1 from the modules themselves (name quick/thorough per shard)."""
import importlib, os, sys
sys.path.insert(0, os.path.dirname(os.path.dirname(os.path.abspath(__file__))))
print("| property | clauses (cases per shard: quick / thorough; quick shards) |")
print("|---|---|")
for i in range(1, 21):
    pid = "C%02d" % i
    m = importlib.import_module("hgxverif.props.c%02d" % i)
    cells = ["`%s` %d/%d×%d" % (c.name, c.n["quick"], c.n["thorough"], c.shards_quick) for c in m.CLAUSES]
    print("| %s | %s |" % (pid, ", ".join(cells)))
