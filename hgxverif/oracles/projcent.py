"""Generators, builders and brute-force definitions shared by C10 (projections)
and C20 (centralities).

Everything an oracle needs is computed from the *abstract content* of the case
(the label list and the index sets), never from the object under test.
"""

from fractions import Fraction

from hypothesis import strategies as st

from .. import strategies as S
from ..common import permuted
from ..common import with_history  # noqa: E402

# --------------------------------------------------------------------------
# undirected hypergraph cases


@st.composite
def hypergraph_cases(draw, kinds=("ints", "strs"), min_nodes=3, max_nodes=8, min_edges=0,
                     max_edges=8, min_size=1, max_size=5, allow_weighted=True,
                     allow_readd=True):
    """A Hypergraph described by JSON: labels, index sets (in a drawn listing
    order), whether all labels are also added as nodes (=> isolated nodes),
    how it is built through the public API and which hyperedges are inserted a
    second time (must be an observational no-op for the structure)."""
    U = draw(S.universes(min_nodes, max_nodes, kinds))
    n = len(U["labels"])
    # the lower bound of the listing is drawn too, otherwise Hypothesis' size
    # distribution makes a quarter of the cases empty
    room = _n_subsets(n, min_size, max_size)
    lo = draw(st.integers(min_edges, max(min_edges, min(4, max_edges, room))))
    edges = draw(S.edge_sets(n, min(lo, room), min(max_edges, room), min_size, max_size))
    weighted = draw(st.booleans()) if allow_weighted else False
    weights = [draw(S.weights_int) for _ in edges] if weighted else None
    readd = []
    if allow_readd and edges:
        readd = draw(st.lists(st.integers(0, len(edges) - 1), max_size=2))
    return {
        "kind": U["kind"], "labels": U["labels"], "edges": edges,
        "weighted": weighted, "weights": weights,
        "all_nodes": draw(st.booleans()),
        "build": draw(st.sampled_from(["ctor", "add_edges", "add_edge"])),
        "readd": readd,
    }


def _n_subsets(n, min_size, max_size):
    from math import comb
    return sum(comb(n, k) for k in range(min_size, min(max_size, n) + 1))


def content(hc):
    """(set of nodes, list of distinct frozensets) described by the case."""
    L = hc["labels"]
    edges = []
    for e in hc["edges"]:
        fs = frozenset(L[i] for i in e)
        if fs not in edges:
            edges.append(fs)
    nodes = set()
    for e in edges:
        nodes |= e
    if hc["all_nodes"]:
        nodes |= set(L)
    return nodes, edges


def _warmup(h):
    """Ask the projections, the adjacency matrix and the centralities once; results are
    discarded."""
    from hypergraphx.representations import projections as PR
    from hypergraphx.measures import s_centralities as SC
    from hypergraphx.measures.sub_hypergraph_centrality import subhypergraph_centrality
    try:
        h.adjacency_matrix()
        h.adjacency_matrix(return_mapping=True)
        if not h.is_weighted():     # C20 hands only unweighted hypergraphs to this function
            subhypergraph_centrality(h)
    except Exception:  # noqa: only populates caches; must not cut the rest of the warm-up short
        pass
    PR.bipartite_projection(h)
    PR.clique_projection(h)
    for s in (1, 2):
        PR.line_graph(h, s=s)
        SC.s_betweenness(h, s=s)
        SC.s_closeness(h, s=s)
    PR.line_graph(h, distance="jaccard", s=0.5)
    # thresholds above every hyperedge size: an answer that prunes "too small" hyperedges must
    # not prune them in the object itself
    PR.line_graph(h, distance="intersection", s=4)
    PR.line_graph(h, distance="intersection", s=6, weighted=True)
    SC.s_betweenness_nodes(h)
    SC.s_closeness_nodes(h)


def _warmup_directed(h):
    from hypergraphx.representations import projections as PR
    PR.directed_line_graph(h)
    PR.directed_line_graph(h, s=2)


@with_history(warmup=_warmup)
def build_hypergraph(hc, relabel=None, order_seed=None):
    """Build the real Hypergraph through the public API.

    relabel: optional dict old label -> new label; order_seed: optional seed of
    a permutation of the insertion order (pure function of the case)."""
    from hypergraphx import Hypergraph
    f = (lambda x: x) if relabel is None else (lambda x: relabel[x])
    L = [f(x) for x in hc["labels"]]
    recs = [tuple(L[i] for i in e) for e in hc["edges"]]
    ws = list(hc["weights"]) if hc["weighted"] else None
    idx = list(range(len(recs)))
    if order_seed is not None:
        idx = permuted(idx, order_seed)
        recs = [recs[i] for i in idx]
        if ws is not None:
            ws = [ws[i] for i in idx]
    if hc["build"] == "ctor":
        kw = {"weighted": hc["weighted"]}
        if recs:
            kw["edge_list"] = recs
            if ws is not None:
                kw["weights"] = ws
        h = Hypergraph(**kw)
    elif hc["build"] == "add_edges":
        h = Hypergraph(weighted=hc["weighted"])
        if recs:
            if ws is not None:
                h.add_edges(recs, weights=ws)
            else:
                h.add_edges(recs)
    else:
        h = Hypergraph(weighted=hc["weighted"])
        for k, r in enumerate(recs):
            if ws is not None:
                h.add_edge(r, weight=ws[k])
            else:
                h.add_edge(r)
    if hc["all_nodes"]:
        h.add_nodes(list(L))
    pos = {orig: k for k, orig in enumerate(idx)}
    for i in hc["readd"]:
        r = tuple(reversed(recs[pos[i]]))
        if ws is not None:
            h.add_edge(r, weight=1)
        else:
            h.add_edge(r)
    return h


# --------------------------------------------------------------------------
# directed hypergraph cases


@st.composite
def directed_cases(draw, kinds=("ints", "strs"), min_nodes=3, max_nodes=7, max_edges=7):
    """DirectedHypergraph: hyperedges (source, target) with disjoint non-empty
    sides, 2..5 nodes in total, pairwise distinct."""
    U = draw(S.universes(min_nodes, max_nodes, kinds))
    n = len(U["labels"])

    @st.composite
    def one(draw):
        ns = draw(S.subsets(n, 2, 5))
        cut = draw(st.integers(1, len(ns) - 1))
        return [ns[:cut], ns[cut:]]

    lo = draw(st.integers(0, min(4, max_edges)))   # n >= 3: at least 6 distinct directed hyperedges
    edges = draw(st.lists(one(), min_size=lo, max_size=max_edges,
                          unique_by=lambda e: (tuple(sorted(e[0])), tuple(sorted(e[1])))))
    weighted = draw(st.booleans())
    readd = draw(st.lists(st.integers(0, len(edges) - 1), max_size=2)) if edges else []
    return {
        "kind": U["kind"], "labels": U["labels"], "edges": edges,
        "weighted": weighted,
        "weights": [draw(S.weights_int) for _ in edges] if weighted else None,
        "all_nodes": draw(st.booleans()),
        "build": draw(st.sampled_from(["ctor", "add_edges", "add_edge"])),
        "readd": readd,
    }


def directed_content(dc):
    L = dc["labels"]
    edges = []
    for s, t in dc["edges"]:
        e = (frozenset(L[i] for i in s), frozenset(L[i] for i in t))
        if e not in edges:
            edges.append(e)
    nodes = set()
    for s, t in edges:
        nodes |= s | t
    if dc["all_nodes"]:
        nodes |= set(L)
    return nodes, edges


@with_history(warmup=_warmup_directed)
def build_directed(dc):
    from hypergraphx import DirectedHypergraph
    L = dc["labels"]
    recs = [(tuple(L[i] for i in s), tuple(L[i] for i in t)) for s, t in dc["edges"]]
    ws = list(dc["weights"]) if dc["weighted"] else None
    if dc["build"] == "ctor":
        kw = {"weighted": dc["weighted"], "edge_list": recs}
        if ws is not None:
            kw["weights"] = ws
        h = DirectedHypergraph(**kw)
    elif dc["build"] == "add_edges":
        h = DirectedHypergraph(weighted=dc["weighted"])
        if recs:
            if ws is not None:
                h.add_edges(recs, weights=ws)
            else:
                h.add_edges(recs)
    else:
        h = DirectedHypergraph(weighted=dc["weighted"])
        for k, r in enumerate(recs):
            if ws is not None:
                h.add_edge(r, weight=ws[k])
            else:
                h.add_edge(r)
    if dc["all_nodes"]:
        h.add_nodes(list(L))
    for i in dc["readd"]:
        s, t = recs[i]
        r = (tuple(reversed(s)), tuple(reversed(t)))
        if ws is not None:
            h.add_edge(r, weight=1)
        else:
            h.add_edge(r)
    return h


# --------------------------------------------------------------------------
# exact similarities


def exact_sim(distance, a, b):
    """Exact similarity of two finite sets as a Fraction (union non-empty)."""
    i = len(set(a) & set(b))
    if distance == "intersection":
        return Fraction(i)
    return Fraction(i, len(set(a) | set(b)))


def threshold_arg(distance, pq):
    """The value handed to the library for the exact threshold p/q.

    intersection: the integer p (q == 1).  jaccard: the correctly rounded
    double of p/q -- the library computes |a&b| / |a|b| with one correctly
    rounded division, division is monotone, equal rationals give the same
    double and two distinct rationals with denominators <= 30 differ by
    >= 1/900, far more than an ulp; so `float >= float` and the exact
    `Fraction >= Fraction` agree."""
    p, q = pq[0], pq[1]
    nudge = pq[2] if len(pq) > 2 else 0
    if distance == "intersection":
        assert q == 1
        base = p
    else:
        base = p / q
    if nudge:
        # the neighbouring double just above / just below: a threshold that no attained
        # similarity equals but that lies within any tolerance of one
        import math
        return math.nextafter(float(base), math.inf if nudge > 0 else -math.inf)
    return base


def threshold_exact(distance, pq):
    """The exact rational value of the threshold handed to the library.  For a nudged
    threshold that is the exact value of the neighbouring double: every attained similarity
    r != p/q is >= 1/900 away, and p/q itself rounds to the double the nudge started from, so
    `fl(sim) >= s` and `sim >= Fraction(s)` still agree."""
    arg = threshold_arg(distance, pq)
    if len(pq) > 2 and pq[2]:
        return Fraction(arg)
    return Fraction(pq[0], pq[1])


@st.composite
def thresholds(draw, distance, present, max_den=6):
    """A threshold [p, q].  `present` = positive exact similarities occurring in
    the case; three times out of four one of those (so that some pair sits
    exactly on the threshold; half of the time not the smallest one, so that
    another pair lies just below), otherwise an arbitrary admissible value.
    Jaccard thresholds have denominators <= max_den (threshold_arg argues that the float
    comparison is exact for denominators <= 30)."""
    assert max_den <= 30
    if distance == "intersection":
        cands = sorted({v for v in present if v >= 1})
        generic = st.integers(1, 5).map(lambda k: Fraction(k))
    else:
        cands = sorted({v for v in present if v > 0 and v.denominator <= max_den})
        generic = st.integers(1, max_den).flatmap(
            lambda q: st.integers(1, q).map(lambda p: Fraction(p, q)))
    mode = draw(st.integers(0, 3))
    if len(cands) >= 2 and mode >= 2:
        v = draw(st.sampled_from(cands[1:]))   # something positive lies below the threshold
    elif cands and mode >= 1:
        v = draw(st.sampled_from(cands))
    else:
        v = draw(generic)
    if draw(st.integers(0, 5)) == 0:
        return [v.numerator, v.denominator, draw(st.sampled_from([-1, 1]))]
    return [v.numerator, v.denominator]
