"""Confirm an independently authored breaking change and try the property's check on it.

usage: seeded.py <property> <k> <dir with patch.diff demo.py notes.md> ["what it needs to manifest"]

Steps (all in a scratch worktree of /repo's HEAD under /var/tmp, removed afterwards):
  1. demo on the clean tree must pass (exit 0)
  2. patch applies; demo must fail (exit != 0); the repository's test-suite must pass
  3. run the property's quick check with HGXVERIF_REPO pointing at the patched tree
Writes /verif/seeded/<property>/<k>/{patch.diff,demo.py,notes.md,meta.json}.
"""
import json, os, shutil, subprocess, sys, time

V = os.path.dirname(os.path.dirname(os.path.abspath(__file__)))


def sh(cmd, cwd=None, env=None):
    r = subprocess.run(cmd, cwd=cwd, env=env, capture_output=True, text=True)
    return r.returncode, (r.stdout + r.stderr)


def main():
    pid, k, src = sys.argv[1].upper(), sys.argv[2], sys.argv[3]
    needs = sys.argv[4] if len(sys.argv) > 4 else ""
    wt = "/var/tmp/seedwt_%s_%s" % (pid, k)
    sh(["git", "-C", "/repo", "worktree", "remove", "--force", wt])
    rc, out = sh(["git", "-C", "/repo", "worktree", "add", "-q", "--detach", wt, "HEAD"])
    assert rc == 0, out
    meta = {"property": pid, "k": k, "needs_to_manifest": needs, "ran": []}
    try:
        head = subprocess.check_output(["git", "-C", wt, "rev-parse", "--short", "HEAD"]).decode().strip()
        meta["repo_head"] = head
        demo = os.path.join(src, "demo.py")
        rc, out = sh(["/venv/bin/python", demo, wt])
        meta["ran"].append({"cmd": "python demo.py <clean worktree>", "exit": rc})
        meta["demo_clean_passes"] = rc == 0
        rc, out = sh(["git", "-C", wt, "apply", os.path.join(src, "patch.diff")])
        meta["patch_applies"] = rc == 0
        if rc != 0:
            meta["apply_error"] = out[-400:]
        else:
            rc, out = sh(["/venv/bin/python", demo, wt])
            meta["ran"].append({"cmd": "python demo.py <patched worktree>", "exit": rc,
                                "tail": out.strip().splitlines()[-3:]})
            meta["demo_patched_fails"] = rc != 0
            rc, out = sh(["/venv/bin/python", "-m", "pytest", "-q", "-p", "no:cacheprovider"], cwd=wt)
            meta["ran"].append({"cmd": "pytest -q (patched worktree)", "exit": rc,
                                "tail": out.strip().splitlines()[-1:]})
            meta["suite_passes_with_patch"] = rc == 0
            env = dict(os.environ, HGXVERIF_REPO=wt, PYTHONHASHSEED="0", VERIF_SEED="1",
                       HGXVERIF_EVIDENCE_DIR="/var/tmp/hgxverif_scratch_evidence")
            t0 = time.time()
            rc, out = sh(["/venv/bin/python", "-m", "hgxverif.run", pid, "--tier", "quick"], cwd=V, env=env)
            lines = [l.strip() for l in out.splitlines() if l.strip().startswith("clause")]
            meta["ran"].append({"cmd": "HGXVERIF_REPO=<patched> python -m hgxverif.run %s --tier quick" % pid,
                                "exit": rc, "wall_s": round(time.time() - t0, 1),
                                "first_reports": [l[:300] for l in lines[:3]]})
            meta["check_verdict"] = {0: "MISSED", 1: "caught", 2: "harness-error"}.get(rc, "?")
        meta["confirmed"] = bool(meta.get("demo_clean_passes") and meta.get("demo_patched_fails")
                                 and meta.get("suite_passes_with_patch"))
    finally:
        sh(["git", "-C", "/repo", "worktree", "remove", "--force", wt])
        d = os.path.join(V, "replays", pid)
        for f in os.listdir(d) if os.path.isdir(d) else []:
            if f.startswith("found-"):
                os.remove(os.path.join(d, f))
    dst = os.path.join(V, "seeded", pid, str(k))
    if meta.get("confirmed"):
        os.makedirs(dst, exist_ok=True)
        for f in ("patch.diff", "demo.py", "notes.md"):
            if os.path.exists(os.path.join(src, f)):
                shutil.copy(os.path.join(src, f), dst)
        json.dump(meta, open(os.path.join(dst, "meta.json"), "w"), indent=1)
    print(json.dumps(meta, indent=1))


if __name__ == "__main__":
    main()
