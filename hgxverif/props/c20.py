"""C20 -- centralities are the advertised functionals of the projections.

s-centralities are compared with networkx (library defaults, which is what the
functions advertise) on graphs the oracle builds itself from the abstract
content of the case; sub-hypergraph centrality with an exact rational Taylor
series of exp(A) (cross-checked with scipy.linalg.expm); CEC/HEC through their
eigen-equations; everything also under relabelling of the nodes.  The s-, temporal
and sub-hypergraph clauses ask a second time after the caller has emptied /
overwritten the first result, and a third time after the object was mutated
(one hyperedge replaced resp. one (hyperedge, time) record removed or added),
against the recomputed oracle; s_large repeats the s-checks on 40-60 hyperedges.
"""

import math
from collections import Counter
from fractions import Fraction
from itertools import combinations

from hypothesis import strategies as st

from .. import strategies as S
from ..common import cedge, permuted
from ..engine import Clause, HarnessError, Violation, require
from ..oracles import projcent as P
from ..common import with_history  # noqa: E402

# |observed - expected| <= TOL_NX for values networkx computes on two graphs that are
# isomorphic but enumerate their vertices in different orders: betweenness accumulates
# sigma ratios in float and closeness is (n-1)/sum of integers times a ratio, so the two
# differ by a few ulps of values <= 1 (betweenness, normalised) resp. <= 1 (closeness).
TOL_NX = 1e-9
# sub-hypergraph centrality: eigh + logsumexp against the exact series; both are a few
# hundred flops on an 8x8 matrix, log-values are 0..60 => relative 1e-8 (DESIGN C20)
RTOL_SUB = 1e-8
# eigen-equations after tol=1e-12 / max_iter=20000 (DESIGN C20): HEC ratio spread and values
# carried along under relabelling
TOL_EIG = 1e-6
# CEC residual ||W c - lambda_max c||_inf: the power iteration stops when two successive
# normalised iterates differ by <= tol = 1e-12 in L2; then the residual is about lambda_max *
# 1e-12 (lambda_max <= 40 in the cec clause, up to about 90 in cec_slow: measured residual <= 2e-11).  MEASURED on the unchanged library with the arguments below:
# see ASSUMPTIONS.  With the library's default tol=1e-7 the residual is 1e-8..1e-6.
TOL_CEC = 1e-9
TOL_NORM = 1e-9   # normalisation is one division by the norm: a few ulps
ITER_KW = {"tol": 1e-12, "max_iter": 20000}

ASSUMPTIONS = [
    "s-centralities: oracle = networkx betweenness_centrality / closeness_centrality with library "
    "defaults on a graph built by the oracle from the abstract content (vertices = hyperedges as "
    "sorted tuples, joined when |e & f| >= s; resp. nodes + hyperedges joined by membership); "
    "compared key by key with absolute tolerance 1e-9 (vertex order changes float summation order)",
    "temporal averaged versions: snapshot at time t = the hyperedges recorded at t (nodes = their "
    "members); value = sum over snapshots containing the key / number of snapshots; a node of the "
    "temporal hypergraph that occurs in no snapshot may be missing or have value 0",
    "sub-hypergraph centrality: oracle = log of sum_k (A^k)_ii / k! in exact rational arithmetic "
    "(truncated when the tail bound ||A||_inf^k/k! * 2 < 1e-18; diagonal entries are >= 1), "
    "cross-checked against scipy.linalg.expm at 1e-9 relative (a mismatch is a harness error); "
    "A_uv = number of hyperedges containing both u != v (weights ignored, as adjacency_matrix "
    "documents), A_uu = 0; array positions are read through the public mapping returned by "
    "Hypergraph.adjacency_matrix(return_mapping=True), which must be a bijection onto the nodes "
    "(ASSUMED convention: subhypergraph_centrality returns a bare array and its docstring does not "
    "say which position belongs to which node; the function computes from adjacency_matrix(), so "
    "the mapping that method hands out is the only usable reading); "
    "tolerance 1e-8 * max(1, |expected|)",
    "CEC/HEC: connected k-uniform hypergraphs, k in {3,4}, labels 0..N-1, N <= 8, every node in a "
    "hyperedge; called with tol=1e-12, max_iter=20000 and numpy's global RNG seeded from the case; "
    "all entries > 0, |norm - 1| <= 1e-9 (L2 for CEC, L1 for HEC), ||W c - lambda_max c||_inf <= "
    "1e-9 with W and lambda_max (numpy.linalg.eigvalsh) computed by the oracle (the iteration "
    "stops at a step <= tol = 1e-12, residual ~ lambda_max * step; measured on the unchanged "
    "library with exactly these arguments: max 5.6e-12 over 5 x 1500 quick-tier and 20000 "
    "thorough-tier cases, i.e. a margin of 180x), HEC ratio "
    "sum_{e ni i} prod_{j in e, j != i} x_j / x_i^(k-1) with (max - min)/min <= 1e-6",
    "relabelling: an injective map of the labels onto another drawn label list (same or other "
    "kind, order-preserving or not) and a drawn permutation of the insertion order; values carried "
    "along within 1e-9 (networkx based and sub-hypergraph centrality, 1e-8 relative for the latter) "
    "resp. 1e-6 (CEC/HEC, two independent seeds)",
    "random initialisations of the power iterations are sampled over drawn seeds, not exhausted",
    "what a centrality function returns belongs to the caller: the check empties the returned "
    "dict (and leaves a junk key) resp. overwrites the returned array and asks again; the second "
    "answer must be the functional again.  After that one hyperedge is replaced by another on the "
    "same nodes (s-/sub-hypergraph centralities; insertion and removal in either order) resp. one "
    "(hyperedge, time) record is removed with remove_edge(e, t) or added at an existing or a new "
    "time (temporal averages) and the functions are asked again against the recomputed oracle; a "
    "time whose last record was removed is no snapshot any more",
    "s_large: 40-60 hyperedges of size 2..5 on 22-28 nodes (int or str labels), same networkx "
    "oracle and the same absolute tolerance 1e-9 (betweenness is normalised, values <= 1; a few "
    "thousand additions of terms <= 1 keep the order-of-summation error below 1e-12)",
    "labels of the s- and sub-hypergraph centrality clauses: ints, strs, mixed int/float numbers "
    "and 0..N-1 (strategies.universes kinds ints/strs/floats/range)",
    "temporal hypergraphs are built record by record when a weighted batch would list one node "
    "tuple at two times (TemporalHypergraph.add_edges rejects that with a documented ValueError; "
    "container behaviour is C03's subject); sub-hypergraph centrality is only given unweighted "
    "hypergraphs",
]

# --------------------------------------------------------------------------
# oracle graphs and helpers


def _line_oracle(edges, s):
    import networkx as nx
    g = nx.Graph()
    keys = [tuple(sorted(e)) for e in edges]
    g.add_nodes_from(keys)
    for (ka, a), (kb, b) in combinations(list(zip(keys, edges)), 2):
        if len(a & b) >= s:
            g.add_edge(ka, kb)
    return g


def _bip_oracle(nodes, edges):
    import networkx as nx
    g = nx.Graph()
    for x in sorted(nodes, key=repr):
        g.add_node(("n", x))
    for e in edges:
        ke = ("e", tuple(sorted(e)))
        g.add_node(ke)
        for x in e:
            g.add_edge(ke, ("n", x))
    return g


def _compare(what, got, exp, tol, canon=lambda k: k, optional_zero=()):
    """got: dict returned by the library; exp: dict key -> expected float.

    Every expected key exactly once, no other key (keys in optional_zero may be
    absent or carry 0)."""
    require(isinstance(got, dict), lambda: "%s returned %r, not a dict" % (what, type(got)))
    seen = {}
    for k, v in got.items():
        ck = canon(k)
        require(ck not in seen,
                lambda: "%s: two values for %r (keys %r and %r)" % (what, ck, seen[ck], k),
                key="dup-key")
        seen[ck] = k
        if ck in optional_zero and ck not in exp:
            require(abs(v) <= tol, lambda: "%s[%r] = %r, expected 0 (occurs in no snapshot)"
                    % (what, k, v), key="value")
            continue
        require(ck in exp, lambda: "%s: unexpected key %r (expected keys %r)"
                % (what, k, sorted(exp, key=repr)), key="extra-key")
    missing = [k for k in exp if k not in seen]
    require(not missing, lambda: "%s: no value for %r; returned keys %r"
            % (what, sorted(missing, key=repr), sorted(got, key=repr)), key="missing-key")
    for ck, e in exp.items():
        v = got[seen[ck]]
        require(isinstance(v, (int, float)) and not isinstance(v, bool) and math.isfinite(v)
                and abs(v - e) <= tol,
                lambda: "%s[%r] = %r, expected %r (|diff| > %g)" % (what, seen[ck], v, e, tol),
                key="value")


def _nonconstant(d):
    vals = list(d.values())
    return bool(vals) and max(vals) - min(vals) > 1e-6


def _hc_labels(ctx, hc):
    ctx.label("labels-" + hc["kind"])
    if any(isinstance(x, str) and ("E" in x or "N" in x) for x in hc["labels"]):
        ctx.label("labels-contain-E-or-N")
    if hc["readd"]:
        ctx.label("re-inserted-hyperedge")


# --------------------------------------------------------------------------
# C20.s_edges


@st.composite
def s_edges_cases(draw, tier):
    hc = draw(P.hypergraph_cases(kinds=KINDS, max_nodes=8,
                                 max_edges=8 if tier == "quick" else 10))
    return {"h": hc, "s": draw(st.sampled_from([1, 2, 3])),
            "call": draw(st.sampled_from(["positional", "keyword", "default"]))}


KINDS = ("ints", "strs", "floats", "range")


def _call_s(fn, h, s, how):
    if how == "positional":
        return fn(h, s)
    return fn(h, s=s)


def _scribble(got):
    """The caller owns what a centrality function returned: empty it and leave junk in it."""
    if isinstance(got, dict):
        got.clear()
        got[("junk",)] = -1.0
        return True
    try:
        got.fill(-1.0)
        return True
    except (AttributeError, ValueError, TypeError):   # not an array / not writable
        return False


def check_s_edges(case, ctx):
    import networkx as nx
    from hypergraphx.measures.s_centralities import s_betweenness, s_closeness
    hc = case["h"]
    s, how = case["s"], case["call"]
    if how == "default":
        s = 1
    nodes, edges = P.content(hc)
    h = P.build_hypergraph(hc)
    _hc_labels(ctx, hc)
    ctx.label("s=%d" % s)
    og = _line_oracle(edges, s)
    exp_b = nx.betweenness_centrality(og)
    exp_c = nx.closeness_centrality(og)
    got_b = s_betweenness(h) if how == "default" else _call_s(s_betweenness, h, s, how)
    _compare("s_betweenness(H, s=%d)" % s, got_b, exp_b, TOL_NX, canon=cedge)
    got_c = s_closeness(h) if how == "default" else _call_s(s_closeness, h, s, how)
    _compare("s_closeness(H, s=%d)" % s, got_c, exp_c, TOL_NX, canon=cedge)
    # the returned dicts are the caller's: emptied and filled with junk, then the same questions
    _scribble(got_b)
    _scribble(got_c)
    got_b = s_betweenness(h) if how == "default" else _call_s(s_betweenness, h, s, how)
    _compare("s_betweenness(H, s=%d) [asked again after the caller emptied the first result]" % s,
             got_b, exp_b, TOL_NX, canon=cedge)
    got_c = s_closeness(h) if how == "default" else _call_s(s_closeness, h, s, how)
    _compare("s_closeness(H, s=%d) [asked again after the caller emptied the first result]" % s,
             got_c, exp_c, TOL_NX, canon=cedge)
    if og.number_of_edges():
        ctx.label("line-graph-has-links")
    if _nonconstant(exp_b):
        ctx.label("betweenness-non-constant")
    ctx.nontrivial(len(edges) >= 3 and (_nonconstant(exp_b) or _nonconstant(exp_c)))
    # the same object after a rewiring that keeps the numbers of nodes and hyperedges (one
    # hyperedge replaced by another on existing nodes): the centralities must follow the content
    rew = _rewire(h, nodes, edges, ctx)
    if rew is not None:
        og2 = _line_oracle(rew, s)
        got_b = s_betweenness(h) if how == "default" else _call_s(s_betweenness, h, s, how)
        _compare("s_betweenness(H, s=%d) [asked again after one hyperedge was replaced]" % s,
                 got_b, nx.betweenness_centrality(og2), TOL_NX, canon=cedge)
        got_c = s_closeness(h) if how == "default" else _call_s(s_closeness, h, s, how)
        _compare("s_closeness(H, s=%d) [asked again after one hyperedge was replaced]" % s,
                 got_c, nx.closeness_centrality(og2), TOL_NX, canon=cedge)
        ctx.label("requery_after_rewiring")


def _rewire(h, nodes, edges, ctx=None):
    """Replace one hyperedge by a new one on existing nodes (same counts); returns the new
    list of hyperedges or None when no replacement exists.  Depending on the parity of the
    content the new hyperedge is inserted before or after the old one is removed, so that the
    last mutation before the re-query is a removal in one half and an insertion in the other."""
    if not edges or len(nodes) < 2:
        return None
    ns = sorted(nodes, key=repr)
    old = sorted(edges, key=lambda e: (len(e), sorted(e, key=repr)))[0]
    cand = None
    for r in (2, 3, 1):
        for c in combinations(ns, r):
            if frozenset(c) not in edges:
                cand = frozenset(c)
                break
        if cand is not None:
            break
    if cand is None:
        return None
    if (len(edges) + sum(len(e) for e in edges)) % 2:
        h.add_edge(tuple(sorted(cand, key=repr)))
        h.remove_edge(tuple(sorted(old, key=repr)))
        if ctx is not None:
            ctx.label("rewired-insert-then-remove")
    else:
        h.remove_edge(tuple(sorted(old, key=repr)))
        h.add_edge(tuple(sorted(cand, key=repr)))
        if ctx is not None:
            ctx.label("rewired-remove-then-insert")
    return [e for e in edges if e != old] + [cand]


# --------------------------------------------------------------------------
# C20.s_nodes


def s_nodes_cases(tier):
    return P.hypergraph_cases(kinds=KINDS, max_nodes=8, max_edges=7 if tier == "quick" else 10)


def check_s_nodes(case, ctx):
    import networkx as nx
    from hypergraphx.measures.s_centralities import s_betweenness_nodes, s_closeness_nodes
    nodes, edges = P.content(case)
    h = P.build_hypergraph(case)
    _hc_labels(ctx, case)
    og = _bip_oracle(nodes, edges)
    b = nx.betweenness_centrality(og)
    c = nx.closeness_centrality(og)
    exp_b = {k[1]: v for k, v in b.items() if k[0] == "n"}
    exp_c = {k[1]: v for k, v in c.items() if k[0] == "n"}
    got_b, got_c = s_betweenness_nodes(h), s_closeness_nodes(h)
    _compare("s_betweenness_nodes(H)", got_b, exp_b, TOL_NX)
    _compare("s_closeness_nodes(H)", got_c, exp_c, TOL_NX)
    _scribble(got_b)
    _scribble(got_c)
    _compare("s_betweenness_nodes(H) [asked again after the caller emptied the first result]",
             s_betweenness_nodes(h), exp_b, TOL_NX)
    _compare("s_closeness_nodes(H) [asked again after the caller emptied the first result]",
             s_closeness_nodes(h), exp_c, TOL_NX)
    covered = set().union(*edges) if edges else set()
    if nodes - covered:
        ctx.label("has-isolated-node")
    ctx.nontrivial(len(edges) >= 3 and (_nonconstant(exp_b) or _nonconstant(exp_c)))
    rew = _rewire(h, nodes, edges, ctx)   # the node set stays the same (nodes are never removed)
    if rew is not None:
        og2 = _bip_oracle(nodes, rew)
        b2, c2 = nx.betweenness_centrality(og2), nx.closeness_centrality(og2)
        _compare("s_betweenness_nodes(H) [asked again after one hyperedge was replaced]",
                 s_betweenness_nodes(h), {k[1]: v for k, v in b2.items() if k[0] == "n"}, TOL_NX)
        _compare("s_closeness_nodes(H) [asked again after one hyperedge was replaced]",
                 s_closeness_nodes(h), {k[1]: v for k, v in c2.items() if k[0] == "n"}, TOL_NX)
        ctx.label("requery_after_rewiring")


# --------------------------------------------------------------------------
# C20.s_large: the same two checks on hypergraphs well beyond the sizes above (40-60 hyperedges
# on 22-28 nodes), so that a shortcut gated on the size of the projection (sampled pivots,
# approximate paths) is exercised too.  Same oracle, same absolute tolerance.


@st.composite
def s_large_cases(draw, tier):
    n = draw(st.integers(22, 28))
    strs = draw(st.booleans())
    labels = ["n%02d" % (7 * i % 31) for i in range(n)] if strs else [3 * i - 7 for i in range(n)]
    edges = draw(st.lists(S.subsets(n, 2, 5), min_size=40, max_size=60,
                          unique_by=lambda e: tuple(sorted(e))))
    hc = {"kind": "strs" if strs else "ints", "labels": labels, "edges": edges,
          "weighted": False, "weights": None, "all_nodes": draw(st.booleans()),
          "build": draw(st.sampled_from(["ctor", "add_edges", "add_edge"])), "readd": []}
    return {"h": hc, "s": draw(st.sampled_from([1, 1, 2])),
            "call": draw(st.sampled_from(["positional", "keyword"]))}


def check_s_large(case, ctx):
    _, edges = P.content(case["h"])
    check_s_edges(case, ctx)
    check_s_nodes(case["h"], ctx)
    ctx.label("hyperedges=%d0s" % (len(edges) // 10))
    ctx.is_nontrivial = False
    ctx.nontrivial(len(edges) > 30 and "betweenness-non-constant" in ctx.labels)


# --------------------------------------------------------------------------
# C20.temporal_averaged

TIMES = [0, 1, 2, 3, 5, 10]


@st.composite
def temporal_cases(draw, tier, kinds=("ints", "strs")):
    U = draw(S.universes(3, 7, kinds))
    n = len(U["labels"])
    lo = draw(st.integers(0, 4))
    recs = draw(st.lists(
        st.tuples(st.sampled_from(TIMES[:4] if tier == "quick" else TIMES),
                  S.subsets(n, 1, 4)).map(list),
        min_size=lo, max_size=8 if tier == "quick" else 10,
        unique_by=lambda r: (r[0], tuple(sorted(r[1])))))
    weighted = draw(st.booleans())
    return {"kind": U["kind"], "labels": U["labels"], "records": recs,
            "weighted": weighted,
            "weights": [draw(S.weights_int) for _ in recs] if weighted else None,
            "all_nodes": draw(st.booleans()),
            "build": draw(st.sampled_from(["ctor", "ctor-pairs", "add_edge"]))}


@with_history
def build_temporal(tc, relabel=None):
    from hypergraphx import TemporalHypergraph
    f = (lambda x: x) if relabel is None else (lambda x: relabel[x])
    L = [f(x) for x in tc["labels"]]
    es = [tuple(L[i] for i in r[1]) for r in tc["records"]]
    ts = [r[0] for r in tc["records"]]
    ws = list(tc["weights"]) if tc["weighted"] else None
    # TemporalHypergraph.add_edges documents (in its ValueError) that a weighted batch must not
    # list one node tuple twice, even at two different times: such cases are built record by
    # record instead (container behaviour is C03's subject, not C20's)
    batch_ok = ws is None or len(set(es)) == len(es)
    if tc["build"] == "add_edge" or not es or not batch_ok:
        h = TemporalHypergraph(weighted=tc["weighted"])
        for k, e in enumerate(es):
            if ws is not None:
                h.add_edge(e, ts[k], weight=ws[k])
            else:
                h.add_edge(e, ts[k])
    elif tc["build"] == "ctor":
        kw = {"edge_list": es, "time_list": ts, "weighted": tc["weighted"]}
        if ws is not None:
            kw["weights"] = ws
        h = TemporalHypergraph(**kw)
    else:
        kw = {"edge_list": [(t, e) for t, e in zip(ts, es)], "weighted": tc["weighted"]}
        if ws is not None:
            kw["weights"] = ws
        h = TemporalHypergraph(**kw)
    if tc["all_nodes"]:
        h.add_nodes(list(L))
    return h


def temporal_content(tc, relabel=None):
    f = (lambda x: x) if relabel is None else (lambda x: relabel[x])
    L = [f(x) for x in tc["labels"]]
    snaps = {}
    for t, idx in tc["records"]:
        e = frozenset(L[i] for i in idx)
        snaps.setdefault(t, [])
        if e not in snaps[t]:
            snaps[t].append(e)
    nodes = set(L) if tc["all_nodes"] else set()
    for es in snaps.values():
        for e in es:
            nodes |= e
    return nodes, snaps


def _averaged_expectations(snaps, s):
    """Expected values of the four averaged functions for threshold s."""
    import networkx as nx
    T = len(snaps)
    eb, ec, nb, nc = {}, {}, {}, {}
    for t, es in snaps.items():
        lg = _line_oracle(es, s)
        for k, v in nx.betweenness_centrality(lg).items():
            eb[k] = eb.get(k, 0.0) + v
        for k, v in nx.closeness_centrality(lg).items():
            ec[k] = ec.get(k, 0.0) + v
        members = set().union(*es)
        bg = _bip_oracle(members, es)
        for k, v in nx.betweenness_centrality(bg).items():
            if k[0] == "n":
                nb[k[1]] = nb.get(k[1], 0.0) + v
        for k, v in nx.closeness_centrality(bg).items():
            if k[0] == "n":
                nc[k[1]] = nc.get(k[1], 0.0) + v
    return [{k: v / T for k, v in d.items()} for d in (eb, ec, nb, nc)]


NEW_TIME = 7     # not in TIMES


@st.composite
def s_temporal_cases(draw, tier):
    tc = draw(temporal_cases(tier))
    then = {"op": draw(st.sampled_from(["remove", "add", "add-at-new-time"])),
            "sel": draw(st.integers(0, 40)),
            "nodes": draw(S.subsets(len(tc["labels"]), 1, 4)),
            "time": draw(st.sampled_from(TIMES[:4]))}
    return {"t": tc, "s": draw(st.sampled_from([1, 1, 2, 3])), "then": then}


def _ask_averaged(h, s, nodes, snaps, tag, scribble=False):
    """All four averaged functions against the oracle for the snapshots `snaps`."""
    from hypergraphx.measures import s_centralities as SC
    eb, ec, nb, nc = _averaged_expectations(snaps, s)
    absent = nodes - set(nb)
    for rnd in (0, 1) if scribble else (0,):
        t = tag + (" [asked again after the caller emptied the first result]" if rnd else "")
        g1 = SC.s_betweenness_averaged(h, s=s)
        _compare("s_betweenness_averaged(H, s=%d)%s" % (s, t), g1, eb, TOL_NX, canon=cedge)
        g2 = SC.s_closeness_averaged(h, s)
        _compare("s_closeness_averaged(H, s=%d)%s" % (s, t), g2, ec, TOL_NX, canon=cedge)
        g3 = SC.s_betweenness_nodes_averaged(h)
        _compare("s_betweenness_nodes_averaged(H)" + t, g3, nb, TOL_NX, optional_zero=absent)
        g4 = SC.s_closenness_nodes_averaged(h)
        _compare("s_closenness_nodes_averaged(H)" + t, g4, nc, TOL_NX, optional_zero=absent)
        for g in (g1, g2, g3, g4):
            _scribble(g)
    return eb, ec, nb, nc, absent


def _then(h, tc, then, nodes, snaps, ctx):
    """One more record is removed (singly, remove_edge(e, t)) or added (at a time that has a
    snapshot already / at a new time); returns the new (nodes, snapshots, what was done) or
    None."""
    L = tc["labels"]
    recs = [(t, e) for t in sorted(snaps) for e in snaps[t]]
    op = then["op"]
    new = frozenset(L[i] for i in then["nodes"])
    t_new = NEW_TIME if op == "add-at-new-time" else then["time"]
    if op != "remove" and new in snaps.get(t_new, []):
        op = "remove"            # the drawn record exists already: remove it instead
        recs = [(t_new, new)]
    if op == "remove":
        if not recs:
            return None
        t, e = recs[then["sel"] % len(recs)]
        h.remove_edge(tuple(sorted(e, key=repr)), t)
        snaps2 = {u: [f for f in es if not (u == t and f == e)] for u, es in snaps.items()}
        if not snaps2[t]:
            del snaps2[t]
            ctx.label("then-a-snapshot-vanished")
        ctx.label("then-remove-record")
        return nodes, snaps2, "remove_edge(%r, %r)" % (tuple(sorted(e, key=repr)), t)
    rec = tuple(L[i] for i in then["nodes"])
    if tc["weighted"]:
        h.add_edge(rec, t_new, weight=2)
    else:
        h.add_edge(rec, t_new)
    snaps2 = {u: list(es) for u, es in snaps.items()}
    snaps2.setdefault(t_new, []).append(new)
    ctx.label("then-add-record-at-new-time" if t_new not in snaps else "then-add-record")
    return nodes | new, snaps2, "add_edge(%r, %r)" % (rec, t_new)


def check_temporal_averaged(case, ctx):
    from hypergraphx.measures import s_centralities as SC
    tc, s = case["t"], case["s"]
    nodes, snaps = temporal_content(tc)
    h = build_temporal(tc)
    ctx.label("labels-" + tc["kind"], "s=%d" % s, "snapshots=%d" % min(len(snaps), 3))
    if any(isinstance(x, str) and "E" in x for x in nodes):
        ctx.label("node-label-contains-E")
    eb, ec, nb, nc, absent = _ask_averaged(h, s, nodes, snaps, "", scribble=True)
    if absent:
        ctx.label("node-in-no-snapshot")
    repeated = len({e for es in snaps.values() for e in es}) < sum(len(es) for es in snaps.values())
    if repeated:
        ctx.label("hyperedge-in-several-snapshots")
    ctx.nontrivial(len(snaps) >= 2 and sum(len(es) for es in snaps.values()) >= 3
                   and (_nonconstant(nb) or _nonconstant(ec)))
    # the same object one record later: the averages must follow the content
    if case.get("then"):
        nxt = _then(h, tc, case["then"], nodes, snaps, ctx)
        if nxt is not None:
            _ask_averaged(h, s, nxt[0], nxt[1], " [asked again after %s]" % nxt[2])


# --------------------------------------------------------------------------
# C20.subhypergraph_centrality


def _adjacency(order, edges):
    pos = {x: i for i, x in enumerate(order)}
    n = len(order)
    A = [[0] * n for _ in range(n)]
    for e in edges:
        for u, v in combinations(list(e), 2):
            A[pos[u]][pos[v]] += 1
            A[pos[v]][pos[u]] += 1
    return A


def _log_diag_expm(A):
    """log of diag exp(A) for a non-negative integer matrix: exact partial sums
    of sum_k (A^k)_ii / k!, stopped when the remaining tail is < 1e-18 (the
    diagonal is >= 1, so this is a relative bound); cross-checked with scipy."""
    import numpy as np
    from scipy.linalg import expm
    n = len(A)
    if n == 0:
        return []
    norm = max(sum(r) for r in A)
    Pk = [[int(i == j) for j in range(n)] for i in range(n)]   # A^k
    num = [1] * n          # partial sum of node i = num[i] / fact  (integers only)
    fact = 1
    k = 0
    while True:
        k += 1
        Pk = [[sum(Pk[i][m] * A[m][j] for m in range(n)) for j in range(n)] for i in range(n)]
        fact *= k
        for i in range(n):
            num[i] = num[i] * k + Pk[i][i]
        # tail_{>k} <= sum_{j>k} norm^j/j! <= 2 * norm^(k+1)/(k+1)!  once k+1 >= 2*norm
        if k + 1 >= 2 * norm and 2 * norm ** (k + 1) * 10 ** 18 < fact * (k + 1):
            break
        if k > 2000:
            raise HarnessError("exact exp series did not terminate")
    diag = [Fraction(v, fact) for v in num]
    out = [math.log(d) for d in diag]
    ref = np.log(np.diag(expm(np.array(A, dtype=float))))
    for i in range(n):
        if abs(out[i] - ref[i]) > 1e-9 * max(1.0, abs(out[i])):
            raise HarnessError("oracles disagree on log diag expm: exact %r scipy %r for %r"
                               % (out, ref.tolist(), A))
    return out


def _sub_centrality_by_node(h, nodes, what, raw=None):
    """Call the library and read the array through the public index mapping (the object the
    library returned is appended to `raw` when given)."""
    from hypergraphx.measures.sub_hypergraph_centrality import subhypergraph_centrality
    import numpy as np
    got = subhypergraph_centrality(h)
    arr = np.array(got, dtype=float).reshape(-1)     # a copy: `got` is scribbled on below
    require(arr.shape[0] == len(nodes),
            lambda: "%s: %d values for %d nodes" % (what, arr.shape[0], len(nodes)), key="shape")
    _, mapping = h.adjacency_matrix(return_mapping=True)
    inv = {}
    for i, x in mapping.items():
        x = x.item() if hasattr(x, "item") else x
        inv[int(i)] = x
    require(sorted(inv) == list(range(len(nodes))) and set(inv.values()) == set(nodes)
            and len(set(inv.values())) == len(nodes),
            lambda: "adjacency_matrix(return_mapping=True): mapping %r is not a bijection from "
                    "0..%d onto the nodes %r" % (mapping, len(nodes) - 1, sorted(nodes, key=repr)),
            key="mapping")
    if raw is not None:
        raw.append(got)
    return {inv[i]: float(arr[i]) for i in range(len(nodes))}


def s_sub_cases(tier):
    return P.hypergraph_cases(kinds=KINDS, min_nodes=3, max_nodes=8, min_edges=1,
                              max_edges=7 if tier == "quick" else 9, allow_weighted=False)


def _check_sub(h, nodes, edges, what, exp=None):
    order = sorted(nodes, key=repr)
    if exp is None:
        exp = dict(zip(order, _log_diag_expm(_adjacency(order, edges))))
    raw = []
    got = _sub_centrality_by_node(h, nodes, what, raw)
    for x in order:
        tol = RTOL_SUB * max(1.0, abs(exp[x]))
        require(math.isfinite(got[x]) and abs(got[x] - exp[x]) <= tol,
                lambda: "%s for node %r = %r, expected log (e^A)_ii = %r "
                        "(tolerance %g; hyperedges %r)" % (what, x, got[x], exp[x], tol,
                                                          sorted(map(sorted, edges), key=repr)),
                key="sub-value")
    return exp, raw[0]


def check_subhypergraph_centrality(case, ctx):
    nodes, edges = P.content(case)
    h = P.build_hypergraph(case)
    _hc_labels(ctx, case)
    order = sorted(nodes, key=repr)
    exp, raw = _check_sub(h, nodes, edges, "subhypergraph_centrality(H)")
    # the returned array is the caller's: overwritten, then the same question
    if _scribble(raw):
        _check_sub(h, nodes, edges, "subhypergraph_centrality(H) [asked again after the caller "
                                    "overwrote the first result]", exp)
    else:
        ctx.label("result-not-writable")
    covered = set().union(*edges)
    if nodes - covered:
        ctx.label("has-isolated-node")
    if any(sum(1 for e in edges if {u, v} <= e) >= 2 for u, v in combinations(order, 2)):
        ctx.label("pair-in-several-hyperedges")
    ctx.nontrivial(len(edges) >= 3 and _nonconstant(exp))
    # the same object after one hyperedge was replaced by another on the same nodes: the
    # adjacency matrix behind the centrality must follow
    rew = _rewire(h, nodes, edges, ctx)
    if rew is not None:
        _check_sub(h, nodes, rew, "subhypergraph_centrality(H) [asked again after one hyperedge "
                                  "was replaced]")
        ctx.label("requery_after_rewiring")


# --------------------------------------------------------------------------
# C20.subhypergraph_centrality_heavy: heavy overlap (largest adjacency eigenvalue in the
# hundreds, around float64's exp overflow at 709.78).  exp(A) itself overflows there, so the
# reference is the shifted form  log (e^A)_ii = s + log sum_j v_ij^2 exp(lambda_j - s),
# s = lambda_max, from numpy.linalg.eigh on the oracle's own adjacency matrix.


@st.composite
def heavy_overlap_cases(draw, tier):
    m = draw(st.sampled_from([30, 45, 60]))          # shared core
    k = draw(st.sampled_from([6, 9, 12, 13, 14, 16, 20]))  # hyperedges, each = core + own node
    extra = draw(st.integers(0, 3))                   # a few small hyperedges on the side
    side = [sorted(draw(st.lists(st.integers(0, m + k - 1), min_size=2, max_size=3, unique=True)))
            for _ in range(extra)]
    return {"m": m, "k": k, "side": side, "strs": draw(st.booleans())}


def check_subhypergraph_centrality_heavy(case, ctx):
    import numpy as np
    from hypergraphx import Hypergraph
    m, k = case["m"], case["k"]
    name = (lambda i: "n%03d" % i) if case["strs"] else (lambda i: 3 * i - 7)
    edges = []
    for j in range(k):
        e = frozenset([name(i) for i in range(m)] + [name(m + j)])
        edges.append(e)
    for sd in case["side"]:
        e = frozenset(name(i) for i in sd)
        if e not in edges:
            edges.append(e)
    nodes = set().union(*edges)
    h = Hypergraph([tuple(sorted(e, key=repr)) for e in edges])
    order = sorted(nodes, key=repr)
    A = np.array(_adjacency(order, edges), dtype=float)
    lam, V = np.linalg.eigh(A)
    s0 = float(lam.max())
    ref = s0 + np.log((V ** 2) @ np.exp(lam - s0))
    exp = dict(zip(order, [float(x) for x in ref]))
    got = _sub_centrality_by_node(h, nodes, "subhypergraph_centrality(H)")
    ctx.label("lambda_max>709" if s0 > 709.78 else "lambda_max<=709")
    for x in order:
        tol = RTOL_SUB * max(1.0, abs(exp[x]))
        require(math.isfinite(got[x]) and abs(got[x] - exp[x]) <= tol,
                lambda: "subhypergraph_centrality(H) for node %r = %r, expected log (e^A)_ii = %r "
                        "(tolerance %g; %d hyperedges sharing a core of %d nodes, largest "
                        "adjacency eigenvalue %.1f)" % (x, got[x], exp[x], tol, k, m, s0),
                key="sub-value-heavy")
    ctx.nontrivial(s0 > 300)


# --------------------------------------------------------------------------
# connected uniform hypergraphs on 0..N-1 (CEC / HEC)


@st.composite
def uniform_connected(draw, tier):
    k = draw(st.sampled_from([3, 4]))
    pool = draw(st.integers(k + 1, 8))
    lo = draw(st.integers(1, 5))
    room = math.comb(pool, k)
    raw = draw(st.lists(S.subsets(pool, k, k), min_size=min(lo, room),
                        max_size=min(7 if tier == "quick" else 9, room),
                        unique_by=lambda e: tuple(sorted(e))))
    # connected by construction: keep the component of the first hyperedge
    comp = set(raw[0])
    changed = True
    while changed:
        changed = False
        for e in raw:
            if comp & set(e) and not set(e) <= comp:
                comp |= set(e)
                changed = True
    kept = [e for e in raw if set(e) <= comp]
    names = permuted(range(len(comp)), draw(S.seeds))
    ren = dict(zip(sorted(comp), names))
    return {"k": k, "n": len(comp), "edges": [[ren[x] for x in e] for e in kept],
            "dropped": len(raw) - len(kept)}


@with_history
def build_uniform(uc, perm=None):
    from hypergraphx import Hypergraph
    f = (lambda x: x) if perm is None else (lambda x: perm[x])
    edges = [tuple(f(x) for x in e) for e in uc["edges"]]
    if len(edges) % 3 == 2 and not uc.get("slow"):
        # a WEIGHTED hypergraph with unequal weights: the advertised functionals (clique
        # expansion W, the HEC equation) have no weights, the answer is that of the structure
        return Hypergraph(edge_list=edges, weighted=True,
                          weights=[1 + (5 * j) % 4 for j in range(len(edges))])
    return Hypergraph(edge_list=edges)


def _seed(k):
    import random
    import numpy as np
    random.seed(k)
    np.random.seed(k % (2 ** 32))


def _vector(what, got, n):
    require(isinstance(got, dict) and sorted(got.keys()) == list(range(n)),
            lambda: "%s: keys %r, expected the nodes 0..%d" % (
                what, sorted(got.keys(), key=repr) if isinstance(got, dict) else type(got), n - 1),
            key="eig-keys")
    x = [float(got[i]) for i in range(n)]
    require(all(math.isfinite(v) and v > 0 for v in x),
            lambda: "%s: entries must be positive and finite, got %r" % (what, x), key="eig-positive")
    return x


def _check_cec(uc, c, what):
    import numpy as np
    n = uc["n"]
    W = np.array(_adjacency(list(range(n)), [set(e) for e in uc["edges"]]), dtype=float)
    lam = float(np.linalg.eigvalsh(W)[-1])
    x = np.array(c)
    nrm = float(np.sqrt((x * x).sum()))
    require(abs(nrm - 1) <= TOL_NORM, lambda: "%s: L2 norm %r, expected 1" % (what, nrm),
            key="cec-norm")
    res = float(np.abs(W @ x - lam * x).max())
    require(res <= TOL_CEC,
            lambda: "%s: ||W c - lambda_max c||_inf = %g > %g (lambda_max = %r, c = %r)"
            % (what, res, TOL_CEC, lam, c), key="cec-residual")
    return res


def _hec_ratios(uc, x):
    k = uc["k"]
    out = []
    for i in range(uc["n"]):
        tot = 0.0
        for e in uc["edges"]:
            if i in e:
                p = 1.0
                for j in e:
                    if j != i:
                        p *= x[j]
                tot += p
        out.append(tot / x[i] ** (k - 1))
    return out


def _check_hec(uc, c, what):
    tot = sum(c)
    require(abs(tot - 1) <= TOL_NORM, lambda: "%s: L1 norm %r, expected 1" % (what, tot),
            key="hec-norm")
    r = _hec_ratios(uc, c)
    spread = (max(r) - min(r)) / min(r)
    require(spread <= TOL_EIG,
            lambda: "%s: sum_{e ni i} prod_{j != i} x_j / x_i^(k-1) is not the same for all nodes: "
                    "ratios %r (relative spread %g > %g), x = %r" % (what, r, spread, TOL_EIG, c),
            key="hec-equation")


@st.composite
def s_eigen_cases(draw, tier):
    return {"u": draw(uniform_connected(tier)), "seed": draw(S.seeds)}


@st.composite
def s_cec_slow_cases(draw, tier):
    """Two complete 3-uniform blocks of b nodes joined by one mirror pair of bridging
    hyperedges: the clique-expansion matrix has lambda_2/lambda_1 = 0.98..0.99, the power
    iteration needs 1500-3000 steps to reach 1e-12 -- more than a default cap of 1000, fewer than
    the max_iter=20000 the check passes (the advertised argument has to be honoured)."""
    from itertools import combinations
    b = draw(st.sampled_from([9, 10, 11]))
    A, Bn = list(range(b)), list(range(b, 2 * b))
    edges = [list(c) for c in combinations(A, 3)] + [list(c) for c in combinations(Bn, 3)]
    edges += [[A[0], A[1], Bn[0]], [Bn[0], Bn[1], A[0]]]
    names = permuted(range(2 * b), draw(S.seeds))
    return {"u": {"k": 3, "n": 2 * b, "edges": [[names[x] for x in e] for e in edges],
                  "dropped": 0, "slow": True}, "seed": draw(S.seeds)}


def _eigen_labels(ctx, uc, c):
    ctx.label("k=%d" % uc["k"], "edges=%d" % min(len(uc["edges"]), 4))
    ctx.nontrivial(len(uc["edges"]) >= 3 and max(c) - min(c) > 1e-6)


def check_cec(case, ctx):
    from hypergraphx.measures.eigen_centralities import CEC_centrality
    uc = case["u"]
    h = build_uniform(uc)
    _seed(case["seed"])
    what = "CEC_centrality(H, tol=1e-12, max_iter=20000)"
    c = _vector(what, CEC_centrality(h, **ITER_KW), uc["n"])
    _check_cec(uc, c, what)
    _eigen_labels(ctx, uc, c)


def check_hec(case, ctx):
    from hypergraphx.measures.eigen_centralities import HEC_centrality
    uc = case["u"]
    h = build_uniform(uc)
    _seed(case["seed"])
    what = "HEC_centrality(H, tol=1e-12, max_iter=20000)"
    c = _vector(what, HEC_centrality(h, **ITER_KW), uc["n"])
    _check_hec(uc, c, what)
    _eigen_labels(ctx, uc, c)


# --------------------------------------------------------------------------
# C20.relabelling


@st.composite
def _target_labels(draw, src):
    """Distinct new labels for the labels `src`; one time out of three arranged so that the
    map src[i] -> result[i] preserves the order of the labels."""
    n = len(src)
    kind = draw(st.sampled_from(["ints", "strs"]))
    pool = S.INT_POOL if kind == "ints" else S.STR_POOL
    to = draw(st.lists(st.sampled_from(pool), min_size=n, max_size=n, unique=True))
    if draw(st.integers(0, 2)) == 0:
        rank = {x: r for r, x in enumerate(sorted(src))}
        ordered = sorted(to)
        to = [ordered[rank[x]] for x in src]
    return to


@st.composite
def s_relabel_cases(draw, tier):
    mode = draw(st.sampled_from(["s", "sub", "temporal", "eigen"]))
    case = {"mode": mode}
    if mode in ("s", "sub"):
        hc = draw(P.hypergraph_cases(max_nodes=7, min_edges=1, max_edges=6,
                                     allow_weighted=(mode == "s")))
        case.update(h=hc, to=draw(_target_labels(hc["labels"])),
                    order_seed=draw(S.seeds), s=draw(st.sampled_from([1, 2, 3])))
    elif mode == "temporal":
        tc = draw(temporal_cases("quick"))
        case.update(t=tc, to=draw(_target_labels(tc["labels"])),
                    s=draw(st.sampled_from([1, 2])))
    else:
        uc = draw(uniform_connected("quick"))
        case.update(u=uc, perm_seed=draw(S.seeds), seed1=draw(S.seeds), seed2=draw(S.seeds))
    return case


def _carried(what, d1, d2, fkey, tol, rel=False):
    """d2[fkey(k)] == d1[k] for every key, and no other key in d2."""
    img = {}
    for k, v in d1.items():
        img[fkey(k)] = (k, v)
    require(len(img) == len(d1) and set(d2.keys()) == set(img.keys()),
            lambda: "%s: keys after relabelling %r, expected the images %r of %r"
            % (what, sorted(d2, key=repr), sorted(img, key=repr), sorted(d1, key=repr)),
            key="relabel-keys")
    for k2, (k1, v1) in img.items():
        t = tol * max(1.0, abs(v1)) if rel else tol
        require(abs(d2[k2] - v1) <= t,
                lambda: "%s: value of %r is %r but its image %r has %r after relabelling"
                % (what, k1, v1, k2, d2[k2]), key="relabel-value")


def _order_preserving(src, dst):
    try:
        return [dst[i] for i in sorted(range(len(src)), key=lambda i: src[i])] == sorted(dst)
    except TypeError:
        return False


def check_relabelling(case, ctx):
    mode = case["mode"]
    ctx.label("mode-" + mode)
    if mode in ("s", "sub"):
        from hypergraphx.measures import s_centralities as SC
        hc = case["h"]
        pi = dict(zip(hc["labels"], case["to"]))
        ctx.label("order-preserving" if _order_preserving(hc["labels"], case["to"])
                  else "order-changing")
        ctx.label("kind-%s-to-%s" % (hc["kind"], "strs" if isinstance(case["to"][0], str) else "ints"))
        h1 = P.build_hypergraph(hc)
        h2 = P.build_hypergraph(hc, relabel=pi, order_seed=case["order_seed"])
        nodes, edges = P.content(hc)
        fe = lambda e: tuple(sorted(pi[x] for x in e))   # noqa
        fn = lambda x: pi[x]   # noqa
        if mode == "s":
            s = case["s"]
            ce = lambda d: {cedge(k): v for k, v in d.items()}   # noqa
            b1 = ce(SC.s_betweenness(h1, s))
            _carried("s_betweenness(s=%d)" % s, b1, ce(SC.s_betweenness(h2, s)), fe, TOL_NX)
            c1 = ce(SC.s_closeness(h1, s))
            _carried("s_closeness(s=%d)" % s, c1, ce(SC.s_closeness(h2, s)), fe, TOL_NX)
            nb1 = SC.s_betweenness_nodes(h1)
            _carried("s_betweenness_nodes", nb1, SC.s_betweenness_nodes(h2), fn, TOL_NX)
            nc1 = SC.s_closeness_nodes(h1)
            _carried("s_closeness_nodes", nc1, SC.s_closeness_nodes(h2), fn, TOL_NX)
            ctx.nontrivial(len(edges) >= 3 and (_nonconstant(nb1) or _nonconstant(c1)))
        else:
            g1 = _sub_centrality_by_node(h1, nodes, "subhypergraph_centrality(H)")
            g2 = _sub_centrality_by_node(h2, {pi[x] for x in nodes},
                                         "subhypergraph_centrality(relabelled H)")
            _carried("subhypergraph_centrality", g1, g2, fn, RTOL_SUB, rel=True)
            ctx.nontrivial(len(edges) >= 3 and _nonconstant(g1))
    elif mode == "temporal":
        from hypergraphx.measures import s_centralities as SC
        tc, s = case["t"], case["s"]
        pi = dict(zip(tc["labels"], case["to"]))
        ctx.label("order-preserving" if _order_preserving(tc["labels"], case["to"])
                  else "order-changing")
        ctx.label("kind-%s-to-%s" % (tc["kind"], "strs" if isinstance(case["to"][0], str) else "ints"))
        h1, h2 = build_temporal(tc), build_temporal(tc, relabel=pi)
        nodes, snaps = temporal_content(tc)
        fe = lambda e: tuple(sorted(pi[x] for x in e))   # noqa
        fn = lambda x: pi[x]   # noqa
        ce = lambda d: {cedge(k): v for k, v in d.items()}   # noqa
        present = set().union(*[e for es in snaps.values() for e in es]) if snaps else set()
        present2 = {pi[x] for x in present}
        # a node that occurs in no snapshot may be missing or carry 0: drop such entries
        nz = lambda d: {k: v for k, v in d.items()   # noqa
                        if k in present or k in present2 or abs(v) > TOL_NX}
        _carried("s_betweenness_averaged", ce(SC.s_betweenness_averaged(h1, s)),
                 ce(SC.s_betweenness_averaged(h2, s)), fe, TOL_NX)
        c1 = ce(SC.s_closeness_averaged(h1, s))
        _carried("s_closeness_averaged", c1, ce(SC.s_closeness_averaged(h2, s)), fe, TOL_NX)
        nb1 = nz(SC.s_betweenness_nodes_averaged(h1))
        _carried("s_betweenness_nodes_averaged", nb1, nz(SC.s_betweenness_nodes_averaged(h2)),
                 fn, TOL_NX)
        nc1 = nz(SC.s_closenness_nodes_averaged(h1))
        _carried("s_closenness_nodes_averaged", nc1, nz(SC.s_closenness_nodes_averaged(h2)),
                 fn, TOL_NX)
        ctx.nontrivial(sum(len(v) for v in snaps.values()) >= 3
                       and (_nonconstant(nb1) or _nonconstant(c1)))
    else:
        from hypergraphx.measures.eigen_centralities import CEC_centrality, HEC_centrality
        uc = case["u"]
        n = uc["n"]
        perm = permuted(range(n), case["perm_seed"])
        ctx.label("identity" if perm == list(range(n)) else "order-changing")
        h1, h2 = build_uniform(uc), build_uniform(uc, perm=perm)
        for name, fn_ in (("CEC_centrality", CEC_centrality), ("HEC_centrality", HEC_centrality)):
            _seed(case["seed1"])
            c1 = _vector(name, fn_(h1, **ITER_KW), n)
            _seed(case["seed2"])
            c2 = _vector(name + " (relabelled)", fn_(h2, **ITER_KW), n)
            _carried(name, dict(enumerate(c1)), dict(enumerate(c2)), lambda i: perm[i], TOL_EIG)
        ctx.nontrivial(len(uc["edges"]) >= 3 and max(c1) - min(c1) > 1e-6)


RULE = "at least three hyperedges and a non-constant centrality"


# --------------------------------------------------------------------------
# C20.subhypergraph_centrality_far: nodes several steps away from a dense core
#
# log (e^A)_ii of a node at distance d from a core with largest eigenvalue L is dominated by
# v_1[i]^2 e^L with v_1[i] ~ L^-d: an implementation that drops "negligible" eigenvector entries
# loses the whole value.  Double-precision references are unreliable here (the unchanged
# library is off by up to ~1e-5 absolute for these nodes), so the reference is the EXACT series
# sum_k (A^k)_ii / k! in integer/rational arithmetic, and the tolerance is a loose 1e-3 relative
# (stated; a dropped dominant term is wrong by tens of units).


@st.composite
def far_node_cases(draw, tier):
    return {"m": draw(st.sampled_from([24, 30, 40])), "d": draw(st.sampled_from([4, 5, 6])),
            "strs": draw(st.booleans()), "order_seed": draw(S.seeds)}


def _exact_log_expm_diag(A, i, lam):
    from fractions import Fraction
    n = len(A)
    nz = [[c for c in range(n) if A[r][c]] for r in range(n)]
    v = [0] * n
    v[i] = 1
    total, fact = Fraction(1), 1
    for k in range(1, int(4 * lam) + 61):
        v = [sum(A[r][c] * v[c] for c in nz[r]) for r in range(n)]
        fact *= k
        total += Fraction(v[i], fact)
    return math.log(total.numerator) - math.log(total.denominator)


def check_subhypergraph_centrality_far(case, ctx):
    import numpy as np
    from hypergraphx import Hypergraph
    m, d = case["m"], case["d"]
    name = (lambda i: "n%03d" % i) if case["strs"] else (lambda i: 3 * i - 7)
    raw = [tuple(range(m)), tuple(range(m - 1))] + [(m - 1 + j, m + j) for j in range(d)]
    n = m + d
    edges = [frozenset(name(i) for i in e) for e in permuted(raw, case["order_seed"])]
    h = Hypergraph([tuple(sorted(e, key=repr)) for e in edges])
    A = [[0] * n for _ in range(n)]
    for e in raw:
        for a in e:
            for b in e:
                if a != b:
                    A[a][b] += 1
    lam = float(np.linalg.eigvalsh(np.array(A, dtype=float)).max())
    nodes = {name(i) for i in range(n)}
    got = _sub_centrality_by_node(h, nodes, "subhypergraph_centrality(H)")
    for i in (n - 1, n - 2, n - 3, 0):
        exp = _exact_log_expm_diag(A, i, lam)
        g = got[name(i)]
        tol = 1e-3 * max(1.0, abs(exp))
        require(math.isfinite(g) and abs(g - exp) <= tol,
                lambda: "subhypergraph_centrality(H) for node %r (distance %d from a core of %d "
                        "nodes, largest adjacency eigenvalue %.1f) = %r, exact log (e^A)_ii = %r "
                        "(tolerance %g)" % (name(i), max(0, i - (m - 1)), m, lam, g, exp, tol),
                key="sub-value-far")
    ctx.label("core=%d chain=%d" % (m, d))
    ctx.nontrivial(lam ** -d < 1.5e-8)


CLAUSES = [
    Clause("s_edges", lambda tier: s_edges_cases(tier), check_s_edges, quick=400, thorough=1500,
           shards_quick=2, rule=RULE + " (s-betweenness or s-closeness of hyperedges)"),
    Clause("s_nodes", s_nodes_cases, check_s_nodes, quick=400, thorough=1500, shards_quick=2,
           rule=RULE + " (betweenness or closeness of nodes)"),
    Clause("s_large", lambda tier: s_large_cases(tier), check_s_large, quick=10, thorough=40,
           rule="more than 30 hyperedges and a non-constant s-betweenness of the hyperedges"),
    Clause("temporal_averaged", lambda tier: s_temporal_cases(tier), check_temporal_averaged,
           quick=400, thorough=1500, shards_quick=2,
           rule="at least two snapshots, three records, non-constant averaged node betweenness or "
                "hyperedge closeness"),
    Clause("subhypergraph_centrality", s_sub_cases, check_subhypergraph_centrality, quick=170,
           thorough=1000, shards_quick=3, rule=RULE),   # two exact oracles per case
    Clause("subhypergraph_centrality_far", far_node_cases, check_subhypergraph_centrality_far,
           quick=6, thorough=10,
           rule="a node whose dominant eigenvector entry is below sqrt(eps)"),
    Clause("subhypergraph_centrality_heavy", heavy_overlap_cases,
           check_subhypergraph_centrality_heavy, quick=24, thorough=60,
           rule="largest adjacency eigenvalue above 300 (heavy overlap; above 709.78 exp "
                "overflows in float64)"),
    Clause("cec", lambda tier: s_eigen_cases(tier), check_cec, quick=200, thorough=1500,
           shards_quick=2, rule=RULE),
    Clause("cec_slow", s_cec_slow_cases, check_cec, quick=4, thorough=8,
           rule="two weakly bridged complete blocks (more than 1000 power iterations needed)"),
    Clause("hec", lambda tier: s_eigen_cases(tier), check_hec, quick=130, thorough=1500,
           shards_quick=3, rule=RULE),
    Clause("relabelling", lambda tier: s_relabel_cases(tier), check_relabelling, quick=130,
           thorough=1500, shards_quick=3, rule=RULE + " in the mode drawn (s / sub / temporal / eigen)"),
]
