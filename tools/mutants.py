"""Sensitivity study driver: apply one small semantic mutation at a time to a scratch copy of
/repo/hypergraphx (under /var/tmp, removed afterwards), run a property's quick check against it
(HGXVERIF_REPO) and record whether a VIOLATION is reported.

usage: mutants.py <table.json> [--only NAME] [--tests]
table: [{"name":..., "property":"C01", "file":"hypergraphx/core/hypergraph.py",
         "old":"...", "new":"...", "note":"..."}]
--tests additionally runs the repository's test-suite on the mutant (slow) to confirm it survives it.
"""
import json, os, shutil, subprocess, sys, time

V = os.path.dirname(os.path.dirname(os.path.abspath(__file__)))


def main():
    table = json.load(open(sys.argv[1]))
    only = sys.argv[sys.argv.index("--only") + 1] if "--only" in sys.argv else None
    run_tests = "--tests" in sys.argv
    rows = []
    for m in table:
        if only and m["name"] != only:
            continue
        scratch = "/var/tmp/hgxmut_%d" % os.getpid()
        shutil.rmtree(scratch, ignore_errors=True)
        os.makedirs(scratch)
        try:
            shutil.copytree("/repo/hypergraphx", scratch + "/hypergraphx",
                            ignore=shutil.ignore_patterns("__pycache__"))
            p = os.path.join(scratch, m["file"])
            s = open(p).read()
            if s.count(m["old"]) != 1:
                rows.append((m, "STALE (old text occurs %d times)" % s.count(m["old"]), "", 0))
                continue
            open(p, "w").write(s.replace(m["old"], m["new"]))
            tests = ""
            if run_tests:
                shutil.copytree("/repo/tests", scratch + "/tests")
                shutil.copytree("/repo/test_data", scratch + "/test_data")
                r = subprocess.run(["/venv/bin/python", "-m", "pytest", "-q", "-x", "-p",
                                    "no:cacheprovider"], cwd=scratch, capture_output=True, text=True)
                tests = "suite passes" if r.returncode == 0 else "SUITE FAILS"
            env = dict(os.environ, HGXVERIF_REPO=scratch, PYTHONHASHSEED="0",
                       VERIF_SEED=os.environ.get("VERIF_SEED", "1"),
                       HGXVERIF_EVIDENCE_DIR="/var/tmp/hgxverif_scratch_evidence")
            t0 = time.time()
            cmd = ["/venv/bin/python", "-m", "hgxverif.run", m["property"], "--tier", "quick"]
            if m.get("clause"):
                cmd += ["--clause", m["clause"]]
            r = subprocess.run(cmd, cwd=V, env=env, capture_output=True, text=True)
            dt = time.time() - t0
            first = next((l.strip() for l in r.stdout.splitlines() if l.strip().startswith("clause")), "")
            verdict = {0: "MISSED", 1: "caught", 2: "HARNESS-ERROR"}.get(r.returncode, "?")
            rows.append((m, verdict, tests + (" | " if tests else "") + first[:160], dt))
            print("%-34s %-8s %5.0fs %s %s" % (m["name"], verdict, dt, tests, first[:110]), flush=True)
        finally:
            shutil.rmtree(scratch, ignore_errors=True)
            for f in os.listdir(os.path.join(V, "replays", m["property"])) \
                    if os.path.isdir(os.path.join(V, "replays", m["property"])) else []:
                if f.startswith("found-"):
                    os.remove(os.path.join(V, "replays", m["property"], f))
    out = sys.argv[1].replace(".json", ".md")
    with open(out, "w") as f:
        f.write("| mutant | property | file | mutation | verdict | first report |\n|---|---|---|---|---|---|\n")
        for m, verdict, first, dt in rows:
            f.write("| %s | %s | %s | %s | %s (%.0fs) | %s |\n" % (
                m["name"], m["property"], m["file"], m.get("note", "").replace("|", "/"),
                verdict, dt, first.replace("|", "/")))
    print("written", out)


if __name__ == "__main__":
    main()
