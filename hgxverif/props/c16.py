"""C16 -- HyMMSBMSampler yields valid hypergraphs respecting conditioning and seed.

Every clause builds a sampler from drawn parameters (all random choices, the
sampler's seed included, live in the case), takes the first 3-5 elements of
``sampler.sample(...)`` and inspects the yielded Hypergraph objects through the
public API only.

Conditionings
  initial    an initial hypergraph (arbitrary labels, >= 2 hyperedges of size >= 2,
             isolated nodes allowed, as many nodes as rows of u)
  sequences  a degree sequence and a size sequence with equal totals (drawn either
             from a hidden hypergraph -> realisable, or as a free composition)
  model      nothing (both sequences sampled from the model; optionally avg_deg)
  deg_only / dim_only   only one of the two sequences (the other one is sampled)
  resample   a second sample() call with another conditioning on the same sampler

All comparisons are exact (integers, sets); no float tolerance is used.
"""

import os
import logging
import math
import numbers
from collections import Counter

import numpy as np
from hypothesis import strategies as st

from .. import strategies as S
from ..engine import Clause, require
from ..common import with_history  # noqa: E402

# the sampler reports every broken sequence constraint through logging.warning (root logger)
logging.disable(logging.WARNING)

ASSUMPTIONS = [
    "u strictly positive (entries in [0.25, 2] times a drawn scale), w symmetric non-negative "
    "with a positive entry; 3 <= N <= 8 nodes, 1 <= K <= 3; max_hye_size None or in "
    "[max(3, largest conditioned size), N] (max_hye_size=2 is not generated); burn-in and "
    "thinning lengths in 0..30",
    "an initial hypergraph has exactly N nodes (isolated ones allowed), >= 2 hyperedges of size "
    ">= 2; degree/size sequences have equal totals, sizes in 2..N, >= 2 hyperedges; a fresh "
    "sampler is built for every case; only the clause 'resample' calls sample() a second time on "
    "the same sampler, and there no demand depends on matching_sequences (the class never "
    "resets the flag between calls)",
    "a chain that ends up with fewer than two hyperedges cannot make a move: a ValueError "
    "(whatever its wording) before the first sample is counted as discarded ONLY where the size "
    "sequence is sampled from the model (modes model / deg_only) and the model expects few "
    "hyperedges; never for an initial hypergraph, a supplied size sequence (modes sequences, "
    "dim_only: every supplied size is filled) or the family 'sure' (model scaled to expect >= 30 "
    "hyperedges of size 3, standard deviation 5.5, no avg_deg rescaling), where a sample is demanded",
    "sample() documents that deg_seq, dim_seq, avg_deg and allow_rescaling are ignored when "
    "initial_hyg is given: a third of the initial cases pass contradictory values along and make "
    "the same demands",
    "matching_sequences must be True for two families that every construction filling one "
    "hyperedge after the other with distinct nodes of largest remaining degree realises: the "
    "sequences of pairwise disjoint hyperedges, and m hyperedges of one size d with N equal "
    "degrees k (N*k = m*d: largest-first keeps the remaining degrees within 1 of each other); "
    "elsewhere the flag is only trusted when it says True",
    "a degree sequence alone (deg_only) is observed, not demanded: the statement bounds degrees "
    "only for an initial hypergraph or a pair of sequences reported as matching",
    "the generator of an earlier sample() call stays usable after a later call on the same "
    "sampler (its next element is held to the earlier conditioning)",
    "the random outcomes of the chain are sampled over seeds, not exhausted; the first 3-5 "
    "elements of the generator are inspected",
    "positive integer weight = instance of numbers.Integral (numpy integers included) and > 0",
    "determinism = two samplers built from copies of the same arguments yield equal sequences "
    "of {node set: weight} tables (listing order of hyperedges is not compared)",
]


# --------------------------------------------------------------------------
# strategies

pos_entry = st.one_of(st.floats(0.25, 2.0), st.sampled_from([0.25, 0.5, 1.0, 2.0]))
w_entry = st.one_of(st.just(0.0), pos_entry, pos_entry)


@st.composite
def parameters(draw, N):
    K = draw(st.sampled_from([1, 2, 2, 3]))
    u = [[draw(pos_entry) for _ in range(K)] for _ in range(N)]
    w = [[0.0] * K for _ in range(K)]
    diagonal = draw(st.booleans())
    for k in range(K):
        w[k][k] = draw(w_entry)
        if not diagonal:
            for q in range(k + 1, K):
                w[k][q] = w[q][k] = draw(w_entry)
    if not any(x > 0 for r in w for x in r):
        w[0][0] = 1.0
    return K, u, w


def pair_sum(u, w):
    N, K = len(u), len(w)
    return sum(u[i][k] * w[k][q] * u[j][q] for i in range(N) for j in range(i + 1, N)
               for k in range(K) for q in range(K))


@st.composite
def initial_parts(draw, N, uni, max_size):
    """An initial hypergraph on the labels of `uni`: >= 2 distinct hyperedges of size 2..max_size."""
    edges = draw(S.edge_sets(N, min_edges=2, max_edges=8, min_size=2, max_size=max_size))
    return {"kind": uni["kind"], "labels": uni["labels"], "edges": edges,
            "weights": ([draw(st.integers(1, 5)) for _ in edges]
                        if draw(st.booleans()) else None),
            "all_nodes": draw(st.sampled_from([True, True, False]))}


def _divisors_ok(N, d, t):
    k = t * d // math.gcd(N, d)
    return k, N * k // d


@st.composite
def sequence_parts(draw, N, mode, max_size, families=True):
    """A degree and a size sequence with equal totals, sizes in 2..max_size, >= 2 hyperedges.

    family None      from a hidden hypergraph (realisable) or a free composition of its total
    family disjoint  the sequences of pairwise disjoint hyperedges (all degrees 0 or 1)
    family regular   m hyperedges of one size d, every node of the same degree k (N*k = m*d)
    The last two are realised by EVERY run of a construction that fills one hyperedge after the
    other with distinct nodes of largest remaining degree (see ASSUMPTIONS)."""
    family = None
    if families and mode == "sequences":
        family = draw(st.sampled_from([None, None, None, "disjoint", "regular"]))
    if family == "disjoint" and N < 4:
        family = "regular"
    if family == "disjoint":
        sizes, left = [], N
        while left >= 2 and len(sizes) < 4:
            hi = min(max_size, left if len(sizes) else left - 2)
            if hi < 2:
                break
            d = draw(st.integers(2, hi))
            sizes.append(d)
            left -= d
            if len(sizes) >= 2 and draw(st.booleans()):
                break
        members = draw(st.permutations(list(range(N))))
        deg = [0] * N
        for i in members[:sum(sizes)]:
            deg[i] = 1
        cnt = Counter(sizes)
        order = draw(st.permutations(sorted(cnt)))
        return {"realisable_by_construction": True, "family": family, "deg_seq": deg,
                "dim_seq": [[d, cnt[d]] for d in order]}
    if family == "regular":
        d = draw(st.integers(2, max_size))
        k, m = _divisors_ok(N, d, 2 if draw(st.booleans()) else 1)
        if m > 12 or m < 2:
            k, m = _divisors_ok(N, d, 1)
        if m < 2:
            k, m = 2 * k, 2 * m
        return {"realisable_by_construction": True, "family": family, "deg_seq": [k] * N,
                "dim_seq": [[d, m]]}
    realisable = draw(st.booleans())
    # deg_only: small conditioned sizes and many nodes, so that max_hye_size="top" is a real
    # restriction for the sizes the sampler draws for the left-over degrees
    biggest = 3 if (mode == "deg_only" and draw(st.booleans())) else max_size
    hidden = draw(S.edge_sets(N, min_edges=2 if mode != "deg_only" else min(4, N),
                              max_edges=7, min_size=2, max_size=biggest))
    sizes = Counter(len(e) for e in hidden)
    order = draw(st.permutations(sorted(sizes)))
    dim_seq = [[d, sizes[d]] for d in order]
    total = sum(len(e) for e in hidden)
    if realisable:
        deg = [sum(1 for e in hidden if i in e) for i in range(N)]
    else:
        # a free composition of the same total over the N nodes
        cuts = sorted(draw(st.lists(st.integers(0, total), min_size=N - 1, max_size=N - 1)))
        deg = [b - a for a, b in zip([0] + cuts, cuts + [total])]
    return {"realisable_by_construction": realisable, "family": None,
            "deg_seq": deg, "dim_seq": dim_seq}


@st.composite
def cases(draw, modes):
    mode = draw(st.sampled_from(list(modes)))
    sure = False
    if mode == "model_sure":
        mode, sure = "model", True
    elif mode == "model":
        sure = draw(st.integers(0, 3)) == 0
    # three nodes (one possible hyperedge of size 3, three of size 2) in about a tenth of the cases
    small = draw(st.integers(0, 9)) == 0
    if mode == "initial":
        uni = draw(S.universes(min_size=3, max_size=3) if small else
                   S.universes(min_size=4, max_size=8))
        labels = uni["labels"]
    else:
        uni = {"kind": "range"}
        labels = list(range(3 if small else draw(st.integers(4, 8))))
    N = len(labels)
    K, u, w = draw(parameters(N))
    # hard memberships (one-hot rows, diagonal w): a hyperedge across communities has Poisson
    # mean exactly 0 -- it must still be kept with a positive integer weight when the chain is
    # conditioned (u >= 0 with zero entries is inside the quantifier "all parameter matrices")
    hard = False
    if mode in ("initial", "sequences") and K >= 2 and draw(st.integers(0, 3)) == 0:
        hot = draw(st.lists(st.integers(0, K - 1), min_size=N, max_size=N))
        u = [[u[i][k] if k == hot[i] else 0.0 for k in range(K)] for i in range(N)]
        w = [[w[k][q] if k == q else 0.0 for q in range(K)] for k in range(K)]
        for k in range(K):
            if w[k][k] == 0.0:
                w[k][k] = 1.0
        hard = True
        if draw(st.booleans()):
            # the usual way to write hard communities down: an integer 0/1(/2) matrix
            u = [[int(draw(st.sampled_from([1, 1, 2]))) if x else 0 for x in r] for r in u]
    if mode in ("initial", "sequences") and draw(st.integers(0, 5)) == 0:
        # large rates (Poisson means far above 1): weights become large integers
        f = draw(st.sampled_from([6, 10]))
        u = [[x * f for x in r] for r in u]
    case = {"mode": mode, "N": N, "K": K, "u": u, "w": w, "hard_memberships": hard,
            "exact_dyadic": draw(st.booleans()),
            "burn_in": draw(st.integers(0, 30)),
            "intermediate": draw(st.integers(0, 30)),
            "seed": draw(S.seeds),
            "n_samples": draw(st.integers(3, 5))}
    top = 2
    if mode == "initial":
        case["initial"] = draw(initial_parts(N, uni, min(N, 5)))
        top = max(len(e) for e in case["initial"]["edges"])
        if draw(st.integers(0, 2)) == 0:
            # sample() documents that deg_seq, dim_seq, avg_deg and allow_rescaling are IGNORED
            # when initial_hyg is given: contradictory values are passed along
            dims = draw(st.lists(st.integers(2, N), min_size=1, max_size=3, unique=True))
            case["ignored_args"] = {
                "deg_seq": draw(st.lists(st.integers(0, 4), min_size=N, max_size=N)),
                "dim_seq": [[d, draw(st.integers(1, 4))] for d in dims],
                "avg_deg": draw(st.sampled_from([0.25, 2.0, 9.0])),
                "allow_rescaling": True}
    if mode in ("sequences", "deg_only", "dim_only"):
        case["sequences"] = draw(sequence_parts(N, mode, min(N, 5)))
        case["allow_rescaling"] = draw(st.booleans())
        top = max(d for d, _ in case["sequences"]["dim_seq"])
    if mode in ("model", "deg_only", "dim_only"):
        # scale u so that the model expects `target`/3 hyperedges of size 3, /6 of size 4, ...
        pool = [6.0, 9.0, 15.0, 24.0, 40.0]
        if mode == "deg_only":
            pool = [3.0] + pool
        if sure:
            # >= 30 expected hyperedges of size 3 (standard deviation 5.5): the chain has two
            # hyperedges whatever the seed is, the sampler must produce samples
            pool = [90.0, 150.0]
        target = draw(st.sampled_from(pool))
        f = (target / pair_sum(u, w)) ** 0.5
        case["u"] = [[x * f for x in r] for r in u]
        case["target_pair_sum"] = target
    if mode == "model":
        case["avg_deg"] = None if sure else draw(st.sampled_from([None, None, 2.0, 3.5]))
        case["allow_rescaling"] = draw(st.booleans())
        case["sure"] = sure
        top = 3
    case["max_hye"] = draw(st.sampled_from([None, "top", "top", "N"] if mode == "deg_only"
                                           else [None, None, "top", "N"]))
    case["top"] = min(N, max(top, 3))
    if mode == "model" and draw(st.integers(0, 5)) == 0:
        # a purely dyadic model: nothing for the chain of larger hyperedges to do
        case["max_hye"] = "dyadic"
    return case


@st.composite
def resample_cases(draw):
    """A first conditioning that always yields samples, and a second, different conditioning for
    another sample() call on the SAME sampler (an initial hypergraph on its own labels, a pair
    of sequences, or a size sequence only)."""
    case = draw(cases(("initial", "sequences", "dim_only", "model_sure")))
    N = case["N"]
    limit = max_hye_arg(case) or N
    kind = draw(st.sampled_from(["initial", "initial", "sequences", "dim_only"]))
    second = {"mode": kind, "N": N}
    if kind == "initial":
        uni = draw(S.universes(min_size=N, max_size=N))
        second["initial"] = draw(initial_parts(N, uni, min(limit, 5)))
    else:
        second["sequences"] = draw(sequence_parts(N, kind, min(limit, 5), families=False))
        second["allow_rescaling"] = draw(st.booleans())
    case["second"] = second
    case["n_samples"] = min(case["n_samples"], 3)
    case["n_second"] = draw(st.integers(2, 3))
    return case


def max_hye_arg(case):
    return {None: None, "top": case["top"], "N": case["N"], "dyadic": 2}[case["max_hye"]]


# --------------------------------------------------------------------------
# running the sampler


@with_history
def build_initial(case):
    from hypergraphx import Hypergraph
    ini = case["initial"]
    labels = ini["labels"]
    edges = [tuple(labels[i] for i in e) for e in ini["edges"]]
    if ini["weights"] is not None:
        h = Hypergraph(edge_list=edges, weighted=True, weights=list(ini["weights"]))
    else:
        h = Hypergraph(edge_list=edges)
    used = {x for e in edges for x in e}
    if ini.get("all_nodes", True):
        h.add_nodes([x for x in labels if x not in used])
    # else: the initial hypergraph has fewer nodes than the model has rows (labels with gaps)
    return h, [frozenset(e) for e in edges]


def parameter_arrays(case):
    u = case["u"]
    int_u = all(isinstance(x, int) for r in u for x in r)
    return np.array(u, dtype=int if int_u else float), np.array(case["w"], dtype=float)


def new_sampler(case, arrays=None):
    from hypergraphx.generation.hy_mmsbm_sampling import HyMMSBMSampler
    u, w = arrays if arrays is not None else parameter_arrays(case)
    return HyMMSBMSampler(
        u=u, w=w,
        max_hye_size=max_hye_arg(case), exact_dyadic_sampling=case["exact_dyadic"],
        burn_in_steps=case["burn_in"], intermediate_steps=case["intermediate"],
        seed=case["seed"])


def sample_kwargs(case):
    mode = case["mode"]
    kw = {}
    if mode == "initial":
        kw["initial_hyg"] = build_initial(case)[0]
        ign = case.get("ignored_args")
        if ign:
            kw.update(deg_seq=np.array(ign["deg_seq"]), dim_seq={d: c for d, c in ign["dim_seq"]},
                      avg_deg=ign["avg_deg"], allow_rescaling=ign["allow_rescaling"])
    if mode in ("sequences", "deg_only"):
        kw["deg_seq"] = np.array(case["sequences"]["deg_seq"])
    if mode in ("sequences", "dim_only"):
        kw["dim_seq"] = {d: c for d, c in case["sequences"]["dim_seq"]}
    if mode == "model" and case.get("avg_deg") is not None:
        kw["avg_deg"] = case["avg_deg"]
    if "allow_rescaling" in case:
        kw["allow_rescaling"] = case["allow_rescaling"]
    return kw


class Discarded(Exception):
    pass


def may_discard(case):
    """The chain can come out with fewer than two hyperedges only when the SIZE sequence is
    sampled from the model (modes model / deg_only) and the model does not expect dozens of
    hyperedges (family 'sure').  A supplied size sequence is always filled completely."""
    return case["mode"] in ("model", "deg_only") and not case.get("sure")


def take(gen, n, case, out=None):
    out = [] if out is None else out
    for _ in range(n):
        try:
            out.append(next(gen))
        except ValueError:
            # In the modes where the size sequence is SAMPLED from the model the chain may
            # come out with fewer than two hyperedges, which the sampler refuses with a
            # ValueError before it yields anything.  The property constrains the hypergraphs
            # that are produced, so such a run is discarded (and counted), whatever the wording
            # of the refusal.  An initial hypergraph, a supplied size sequence with >= 2
            # hyperedges or a model that expects >= 30 hyperedges of size 3 must never be
            # refused, and nothing may fail once a first sample was produced.
            if may_discard(case) and not out:
                raise Discarded() from None
            raise
    return out


def draw_samples(case, arrays=None, keep_generator=False):
    """(sampler, [Hypergraph, ...]) -- the first n_samples elements of sample()."""
    sampler = new_sampler(case, arrays)
    gen = iter(sampler.sample(**sample_kwargs(case)))
    out = take(gen, case["n_samples"], case)
    if keep_generator:
        return sampler, out, gen
    return sampler, out


def table(h):
    """{frozenset(nodes): weight} of a yielded hypergraph, checking the listing on the way."""
    edges = list(h.get_edges())
    out = {}
    for e in edges:
        e = tuple(e)
        key = frozenset(e)
        require(len(key) == len(e),
                lambda: "sampled hyperedge %r lists a node twice" % (e,), key="repeated_node")
        require(key not in out,
                lambda: "sampled hypergraph lists the hyperedge %r twice: %r" % (sorted(key), edges),
                key="repeated_hyperedge")
        out[key] = h.get_weight(e)
    return out


def _classify(case, ctx):
    ctx.label("mode:" + case["mode"], "N=%d" % case["N"], "K=%d" % case["K"],
              "exact_dyadic" if case["exact_dyadic"] else "clt_dyadic",
              "max_hye_size:%s" % case["max_hye"])
    steps = case["burn_in"] + case["n_samples"] * case["intermediate"]
    ctx.label("mcmc steps >= 10" if steps >= 10 else "mcmc steps < 10")
    if case.get("hard_memberships"):
        ctx.label("hard memberships (zero-rate hyperedges possible)")
    if max(x for r in case["u"] for x in r) > 4:
        ctx.label("large rates (u scaled by 6 or 10)")
    if all(isinstance(x, int) for r in case["u"] for x in r):
        ctx.label("integer membership matrix")
    if case["burn_in"] == 0:
        ctx.label("no burn-in")
    if case["intermediate"] == 0:
        ctx.label("no thinning")
    if case["mode"] == "initial":
        ctx.label("labels:" + case["initial"]["kind"])
        if case.get("ignored_args"):
            ctx.label("initial_hyg together with contradictory deg_seq/dim_seq/avg_deg/rescaling")
    if "sequences" in case:
        fam = case["sequences"].get("family")
        ctx.label("sequences: %s family (every greedy construction realises them)" % fam if fam
                  else "sequences from a hidden hypergraph" if
                  case["sequences"]["realisable_by_construction"] else "free degree composition")
    if case.get("sure"):
        ctx.label("model expects >= 30 hyperedges of size 3 (no discard possible)")
    return steps


def _run(case, ctx):
    steps = _classify(case, ctx)
    try:
        sampler, samples = draw_samples(case)
    except Discarded:
        ctx.exclude("chain with fewer than two hyperedges (sequences sampled from the model)")
        ctx.label("discarded", "discarded, mode:" + case["mode"])
        return None, None, steps
    if may_discard(case):
        ctx.label("not discarded, mode:" + case["mode"])
    return sampler, samples, steps


def degrees_and_sizes(tab, nodes):
    deg = {n: 0 for n in nodes}
    for e in tab:
        for n in e:
            deg[n] = deg.get(n, 0) + 1
    return deg, Counter(len(e) for e in tab)


# --------------------------------------------------------------------------
# clauses


def check_validity(case, ctx):
    from hypergraphx import Hypergraph
    sampler, samples, steps = _run(case, ctx)
    if samples is None:
        return
    if case["mode"] == "initial":
        allowed = set(case["initial"]["labels"])
        start = set(build_initial(case)[1])
    else:
        allowed = set(range(case["N"]))
        start = None
    limit = max_hye_arg(case) or case["N"]
    moved = False
    for j, h in enumerate(samples):
        require(isinstance(h, Hypergraph),
                lambda: "sample %d is a %r, not a Hypergraph" % (j, type(h)), key="type")
        require(h.is_weighted() is True,
                lambda: "sample %d: is_weighted() = %r" % (j, h.is_weighted()), key="unweighted")
        tab = table(h)
        require(h.num_edges() == len(tab),
                lambda: "sample %d: num_edges() = %d but %d hyperedges listed"
                % (j, h.num_edges(), len(tab)), key="num_edges")
        for e, wgt in tab.items():
            require(isinstance(wgt, numbers.Integral) and not isinstance(wgt, bool) and wgt > 0,
                    lambda: "sample %d: hyperedge %r has weight %r (%s); expected a positive "
                    "integer" % (j, sorted(e), wgt, type(wgt).__name__), key="weight")
            require(len(e) >= 2,
                    lambda: "sample %d contains the hyperedge %r of size %d < 2"
                    % (j, sorted(e), len(e)), key="small_hyperedge")
            require(all(n in allowed for n in e),
                    lambda: "sample %d: hyperedge %r contains a node outside %r"
                    % (j, sorted(e), sorted(allowed)), key="foreign_node")
            if case["mode"] != "initial":
                require(len(e) <= limit,
                        lambda: "sample %d contains the hyperedge %r of size %d > maximum size %d"
                        % (j, sorted(e), len(e), limit), key="large_hyperedge")
        ws = list(h.get_weights())
        require(Counter(int(x) for x in ws) == Counter(int(x) for x in tab.values()),
                lambda: "sample %d: get_weights() = %r differs from the per-hyperedge weights %r"
                % (j, ws, list(tab.values())), key="weights_listing")
        require(all(n in allowed for n in h.get_nodes()),
                lambda: "sample %d: get_nodes() = %r is not inside %r"
                % (j, list(h.get_nodes()), sorted(allowed)), key="foreign_node")
        if start is None or set(tab) != start:
            moved = True
    ctx.label("samples with hyperedges" if any(s.num_edges() for s in samples) else "all samples empty")
    ctx.nontrivial(steps >= 10 and moved and any(s.num_edges() >= 2 for s in samples))


def _explained_by_merges(edges, short_deg, short_size, missing):
    """Can `missing` hyperedges, each equal to one of `edges` (repeats allowed), account for
    exactly the missing degrees and size counts?  (depth-first search; missing <= 8)"""
    if missing == 0:
        return not short_deg and not short_size
    cands = [e for e in edges if short_size.get(len(e), 0) > 0
             and all(short_deg.get(v, 0) > 0 for v in e)]

    def rec(start, left, sd, ss):
        if left == 0:
            return not any(sd.values()) and not any(ss.values())
        for i in range(start, len(cands)):
            e = cands[i]
            if ss.get(len(e), 0) > 0 and all(sd.get(v, 0) > 0 for v in e):
                sd2 = dict(sd)
                for v in e:
                    sd2[v] -= 1
                ss2 = dict(ss)
                ss2[len(e)] -= 1
                if rec(i, left - 1, sd2, ss2):
                    return True
        return False

    return rec(0, missing, dict(short_deg), dict(short_size))


def check_conditioning_initial(case, ctx):
    sampler, samples, steps = _run(case, ctx)
    moved = assert_initial_conditioning(case, samples, ctx)
    ctx.nontrivial(steps >= 10 and moved)


def assert_initial_conditioning(case, samples, ctx, first=0):
    """The statement's demands on samples of a chain started from case['initial'];
    returns whether some sample differs from the initial configuration."""
    h0, start = build_initial(case)
    labels = case["initial"]["labels"]
    deg0, size0 = degrees_and_sizes(start, labels)
    moved = False
    full = 0
    for j, h in enumerate(samples, first):
        tab = table(h)
        deg, size = degrees_and_sizes(tab, labels)
        require(set(deg) <= set(deg0),
                lambda: "sample %d uses nodes %r outside the initial hypergraph"
                % (j, sorted(set(deg) - set(deg0), key=repr)), key="foreign_node")
        for n in labels:
            require(deg[n] <= deg0[n],
                    lambda: "sample %d: node %r has degree %d, its degree in the initial "
                    "hypergraph is %d (initial %r, sample %r)"
                    % (j, n, deg[n], deg0[n], [sorted(e) for e in start], [sorted(e) for e in tab]),
                    key="degree_exceeded")
        for d in set(size) | set(size0):
            require(size[d] <= size0[d],
                    lambda: "sample %d has %d hyperedges of size %d, the initial hypergraph has %d"
                    % (j, size[d], d, size0[d]), key="size_exceeded")
        require(len(tab) <= len(start),
                lambda: "sample %d has %d hyperedges, the chain has %d" % (j, len(tab), len(start)),
                key="too_many")
        if len(tab) == len(start):
            full += 1
            require(deg == deg0 and size == size0,
                    lambda: "sample %d has as many hyperedges as the initial hypergraph (no "
                    "coincidence, none dropped) but degrees %r / sizes %r differ from the initial "
                    "%r / %r" % (j, deg, dict(size), deg0, dict(size0)), key="not_preserved")
        else:
            # fewer hyperedges than the chain: the statement allows this only when sampled
            # hyperedges coincided, and then the copy that absorbed the other one is PRESENT in
            # the sample -- so the shortfall in degrees and size counts must be the sum of the
            # indicator vectors of a multiset of hyperedges of the sample
            short_deg = {n: deg0[n] - deg[n] for n in labels if deg0[n] != deg[n]}
            short_size = {d: size0[d] - size[d] for d in size0 if size0[d] != size[d]}
            require(_explained_by_merges(list(tab), short_deg, short_size,
                                         len(start) - len(tab)),
                    lambda: "sample %d has %d of the chain's %d hyperedges, but the missing degrees "
                    "%r / sizes %r are not those of hyperedges present in the sample %r: a "
                    "hyperedge was dropped although it coincided with no other (initial %r)"
                    % (j, len(tab), len(start), short_deg, short_size,
                       [sorted(e, key=repr) for e in tab], [sorted(e, key=repr) for e in start]),
                    key="dropped_without_coincidence")
            ctx.label("short sample explained by coincidences")
        if set(tab) != set(start):
            moved = True
    ctx.label("full-length samples: %s" % ("all" if full == len(samples) else
                                          "some" if full else "none"))
    if moved:
        ctx.label("sample differs from the initial configuration")
    return moved


def check_conditioning_sequences(case, ctx):
    sampler, samples, steps = _run(case, ctx)
    N = case["N"]
    deg_seq = case["sequences"]["deg_seq"]
    dim_seq = {d: c for d, c in case["sequences"]["dim_seq"]}
    total = sum(dim_seq.values())
    matching = sampler.matching_sequences
    require(isinstance(matching, (bool, np.bool_)),
            lambda: "matching_sequences is %r after sampling from a degree and a size sequence"
            % (matching,), key="flag")
    matching = bool(matching)
    ctx.label("matching_sequences=%r" % matching)
    fam = case["sequences"].get("family")
    if fam:
        # pairwise disjoint hyperedges / one size with equal degrees: a construction that fills
        # hyperedge after hyperedge with distinct nodes of largest remaining degree never runs
        # out of nodes, so the sampler has no reason to report a mismatch
        require(matching,
                lambda: "matching_sequences is False for the degree sequence %r and the size "
                "sequence %r (%s family: every greedy construction realises them)"
                % (deg_seq, dim_seq, fam), key="flag_false_on_realisable")
    tables = []
    for j, h in enumerate(samples):
        tab = table(h)
        tables.append(set(tab))
        deg, size = degrees_and_sizes(tab, range(N))
        require(set(deg) <= set(range(N)),
                lambda: "sample %d uses nodes outside 0..%d: %r" % (j, N - 1, sorted(deg, key=repr)),
                key="foreign_node")
        for d in set(size) | set(dim_seq):
            require(size[d] <= dim_seq.get(d, 0),
                    lambda: "sample %d has %d hyperedges of size %d, the size sequence %r allows %d "
                    "(matching_sequences=%r)" % (j, size[d], d, dim_seq, dim_seq.get(d, 0), matching),
                    key="size_exceeded")
        if len(tab) == total:
            require(dict(size) == dim_seq,
                    lambda: "sample %d has %d hyperedges = total of the size sequence, but sizes %r "
                    "!= %r" % (j, total, dict(size), dim_seq), key="sizes_not_preserved")
        if matching:
            for i in range(N):
                require(deg[i] <= deg_seq[i],
                        lambda: "matching_sequences is True but in sample %d node %d has degree %d "
                        "> %d (degree sequence %r, size sequence %r, sample %r)"
                        % (j, i, deg[i], deg_seq[i], deg_seq, dim_seq, [sorted(e) for e in tab]),
                        key="degree_exceeded")
            if len(tab) == total:
                require([deg[i] for i in range(N)] == list(deg_seq),
                        lambda: "matching_sequences is True and sample %d has all %d hyperedges, "
                        "but its degrees %r differ from the degree sequence %r"
                        % (j, total, [deg[i] for i in range(N)], deg_seq), key="degrees_not_preserved")
            elif len(tab) < total:
                # matching sequences: the chain realises both sequences exactly, so a shorter
                # sample is only allowed through coincidences, whose surviving copy is present
                short_deg = {i: deg_seq[i] - deg[i] for i in range(N) if deg_seq[i] != deg[i]}
                short_size = {d: dim_seq[d] - size[d] for d in dim_seq if dim_seq[d] != size[d]}
                require(_explained_by_merges(list(tab), short_deg, short_size, total - len(tab)),
                        lambda: "matching_sequences is True and sample %d has %d of %d hyperedges, "
                        "but the missing degrees %r / sizes %r are not those of hyperedges present "
                        "in the sample %r: a hyperedge was dropped although it coincided with no "
                        "other" % (j, len(tab), total, short_deg, short_size,
                                   [sorted(e) for e in tab]), key="dropped_without_coincidence")
    if any(len(t) == total for t in tables):
        ctx.label("full-length sample")
    moved = len({frozenset(t) for t in tables}) > 1
    ctx.nontrivial(steps >= 10 and matching and moved)


def check_partial_conditioning(case, ctx):
    """Only one sequence supplied: validity, and the supplied one is never exceeded."""
    sampler, samples, steps = _run(case, ctx)
    if samples is None:
        return
    check_samples_valid(case, samples)
    N = case["N"]
    exceeded = False
    for j, h in enumerate(samples):
        tab = table(h)
        deg, size = degrees_and_sizes(tab, range(N))
        if case["mode"] == "dim_only":
            dim_seq = {d: c for d, c in case["sequences"]["dim_seq"]}
            for d in set(size):
                require(size[d] <= dim_seq.get(d, 0),
                        lambda: "sample %d has %d hyperedges of size %d, the supplied size "
                        "sequence %r allows %d" % (j, size[d], d, dim_seq, dim_seq.get(d, 0)),
                        key="size_exceeded")
        else:
            # a degree sequence alone: the statement promises degree bounds for an initial
            # hypergraph or a MATCHING pair of sequences only, and sample()'s docstring says
            # nothing more -- observed, not demanded
            deg_seq = case["sequences"]["deg_seq"]
            if any(deg[i] > deg_seq[i] for i in range(N)):
                exceeded = True
    if case["mode"] == "deg_only":
        ctx.label("deg_only: supplied degrees exceeded in a sample (not demanded)" if exceeded
                  else "deg_only: supplied degrees never exceeded (not demanded)")
    ctx.nontrivial(steps >= 10 and any(s.num_edges() >= 2 for s in samples))


def check_samples_valid(case, samples):
    limit = max_hye_arg(case) or case["N"]
    allowed = set(range(case["N"]))
    for j, h in enumerate(samples):
        require(h.is_weighted() is True, "sample %d is not weighted" % j, key="unweighted")
        for e, wgt in table(h).items():
            require(isinstance(wgt, numbers.Integral) and wgt > 0,
                    lambda: "sample %d: weight %r of %r" % (j, wgt, sorted(e)), key="weight")
            require(2 <= len(e) <= limit and all(n in allowed for n in e),
                    lambda: "sample %d: hyperedge %r (allowed sizes 2..%d, nodes 0..%d)"
                    % (j, sorted(e, key=repr), limit, case["N"] - 1), key="invalid_hyperedge")


def assert_size_bounds(dim_pairs, samples, what, first=0):
    """Flag-independent demands on samples conditioned on a size sequence."""
    dim_seq = {d: c for d, c in dim_pairs}
    total = sum(dim_seq.values())
    for j, h in enumerate(samples, first):
        tab = table(h)
        size = Counter(len(e) for e in tab)
        for d in size:
            require(size[d] <= dim_seq.get(d, 0),
                    lambda: "%s: sample %d has %d hyperedges of size %d, the size sequence %r "
                    "allows %d" % (what, j, size[d], d, dim_seq, dim_seq.get(d, 0)),
                    key="size_exceeded")
        if len(tab) == total:
            require(dict(size) == dim_seq,
                    lambda: "%s: sample %d has %d hyperedges = total of the size sequence, but "
                    "sizes %r != %r" % (what, j, total, dict(size), dim_seq),
                    key="sizes_not_preserved")


def assert_conditioning_flag_free(case, samples, what, ctx, first=0):
    """Validity and every demand that does not depend on matching_sequences."""
    from hypergraphx import Hypergraph
    if case["mode"] == "initial":
        allowed = set(case["initial"]["labels"])
    else:
        allowed = set(range(case["N"]))
    for j, h in enumerate(samples, first):
        require(isinstance(h, Hypergraph) and h.is_weighted() is True,
                lambda: "%s: sample %d is %r, weighted: %r"
                % (what, j, type(h), getattr(h, "is_weighted", lambda: None)()), key="type")
        for e, wgt in table(h).items():
            require(isinstance(wgt, numbers.Integral) and not isinstance(wgt, bool) and wgt > 0,
                    lambda: "%s: sample %d: hyperedge %r has weight %r" % (what, j, sorted(e, key=repr), wgt),
                    key="weight")
            require(len(e) >= 2 and all(n in allowed for n in e),
                    lambda: "%s: sample %d: hyperedge %r (sizes >= 2, nodes %r)"
                    % (what, j, sorted(e, key=repr), sorted(allowed, key=repr)), key="invalid_hyperedge")
        require(all(n in allowed for n in h.get_nodes()),
                lambda: "%s: sample %d: get_nodes() = %r is not inside %r"
                % (what, j, list(h.get_nodes()), sorted(allowed, key=repr)), key="foreign_node")
    if case["mode"] == "initial":
        assert_initial_conditioning(case, samples, ctx, first)
    elif case["mode"] in ("sequences", "dim_only"):
        assert_size_bounds(case["sequences"]["dim_seq"], samples, what, first)


def check_resample(case, ctx):
    """sample() once more on the same sampler with another conditioning ('a new call to this
    method is required').  matching_sequences is not reset between calls, so only demands that
    do not depend on the flag are made: validity, node set, the size counts of a supplied size
    sequence, everything the statement says about an initial hypergraph.  The first generator
    is then resumed: its next element still obeys the first conditioning."""
    steps = _classify(case, ctx)
    second = case["second"]
    ctx.label("second call: " + second["mode"])
    sampler, samples, gen = draw_samples(case, keep_generator=True)
    assert_conditioning_flag_free(case, samples, "first call (%s)" % case["mode"], ctx)
    gen2 = iter(sampler.sample(**sample_kwargs(second)))
    later = take(gen2, case["n_second"], second)
    assert_conditioning_flag_free(second, later, "second sample() call on the same sampler "
                                  "(%s after %s)" % (second["mode"], case["mode"]), ctx)
    resumed = take(gen, 1, case, out=list(samples))[len(samples):]
    assert_conditioning_flag_free(case, resumed, "first generator (%s) resumed after a second "
                                  "sample() call (%s)" % (case["mode"], second["mode"]), ctx,
                                  first=len(samples))
    ctx.nontrivial(steps >= 10 and any(h.num_edges() >= 2 for h in later))


def check_determinism(case, ctx):
    steps = _classify(case, ctx)
    runs = []
    # every other case hands the SAME two arrays to both samplers (the second one is built
    # after the first one has run), the others build them from copies
    shared = parameter_arrays(case) if case["seed"] % 2 else None
    ctx.label("same_array_objects" if shared is not None else "copies_of_the_arrays")
    for _ in range(2):
        try:
            sampler, samples = draw_samples(case, shared)
            runs.append([{k: int(v) for k, v in table(h).items()} for h in samples])
        except Discarded:
            runs.append("discarded")
    a, b = runs
    if a == "discarded" and b == "discarded":
        ctx.exclude("chain with fewer than two hyperedges (sequences sampled from the model)")
        ctx.label("discarded", "discarded, mode:" + case["mode"])
        return
    if may_discard(case):
        ctx.label("not discarded, mode:" + case["mode"])

    def show(r):
        return r if r == "discarded" else [
            sorted((sorted(e, key=repr), w) for e, w in t.items()) for t in r]
    require(a == b,
            lambda: "two samplers built from %s parameters and seed %d "
            "(mode %s) gave different sample sequences:\n first  %r\n second %r"
            % ("the same (array objects u, w)" if shared is not None else "copies of the same",
               case["seed"], case["mode"], show(a), show(b)), key="not_reproducible")
    ctx.nontrivial(steps >= 10 and any(len(t) >= 2 for t in a) and
                   len({frozenset(t.items()) for t in a}) > 1)


ALL_MODES = ("initial", "initial", "sequences", "model", "model", "deg_only", "dim_only")


# --------------------------------------------------------------------------
# C16.truncated_poisson: the weight sampler on the whole unit interval
#
# "positive integer weights" and "dropped only on coincidence" rest on the module's public
# sample_truncated_poisson(lambd, rng): the chain calls it with the hyperedges' Poisson means
# and drops a hyperedge whose weight is not > 0.  The interesting uniform draws (the two
# ends of [0, 1)) have probability ~1e-7 per hyperedge under seed sampling, so here the
# Generator handed to the function is a numpy Generator whose random() returns drawn numbers.

U_POOL = [0.0, 1e-300, 1e-17, 1e-7, 1e-3, 0.25, 0.5, 0.75, 1 - 1e-3, 1 - 1e-7, 1 - 1e-12,
          1 - 2.0 ** -53]
LAMBDA_POOL = [1e-300, 1e-16, 1e-10, 1e-7, 1e-3, 0.1, 1.0, 5.0, 39.0, 41.0, 200.0, 1e3]


@st.composite
def tp_cases(draw):
    n = draw(st.integers(1, 4))
    lam = draw(st.lists(st.one_of(st.sampled_from(LAMBDA_POOL), st.floats(1e-12, 60.0)),
                        min_size=n, max_size=n))
    us = draw(st.lists(st.one_of(st.sampled_from(U_POOL),
                                 st.floats(0.0, 1.0, exclude_max=True)),
                       min_size=n, max_size=n))
    return {"lambda": lam, "u": us, "scalar": n == 1 and draw(st.booleans()),
            "seed": draw(S.seeds)}


def check_truncated_poisson(case, ctx):
    import importlib
    mod = importlib.import_module("hypergraphx.generation.hy_mmsbm_sampling")
    lam, us = case["lambda"], case["u"]
    consulted = []

    class Fixed(np.random.Generator):
        def random(self, *shape, **kw):
            consulted.append(shape)
            size = shape[0] if shape and isinstance(shape[0], tuple) else shape
            size = kw.get("size", size) or (1,)
            return np.resize(np.array(us, dtype=float), size)

    rng = Fixed(np.random.PCG64(0))
    arg = lam[0] if case["scalar"] else np.array(lam, dtype=float)
    out = mod.sample_truncated_poisson(arg, rng=rng)
    if not consulted:
        ctx.exclude("sample_truncated_poisson did not ask the Generator for uniform numbers")
        return
    vals = np.atleast_1d(np.asarray(out, dtype=float))
    require(vals.shape == (len(lam),),
            lambda: "sample_truncated_poisson(%r): result of shape %r for %d rates"
            % (arg, vals.shape, len(lam)), key="tp-shape")
    tail = False
    for l, u, y in zip(lam, us, vals.tolist()):
        require(np.isfinite(y) and y >= 1 and y == int(y),
                lambda: "sample_truncated_poisson(rate %r) with the uniform draw %r returned %r: "
                        "a truncated Poisson variable is a finite integer >= 1 (the sampler "
                        "drops a hyperedge whose weight is not > 0 after astype(int))"
                % (l, u, y), key="tp-range")
        if u <= 1e-7 or u >= 1 - 1e-7:
            tail = True
    # reproducibility from the Generator alone: two equally seeded Generators give the same
    # weights whatever the state of numpy's global generator is
    outs = []
    for g in (1, 2):
        np.random.seed(g)
        outs.append(np.atleast_1d(np.asarray(
            mod.sample_truncated_poisson(arg, rng=np.random.default_rng(case.get("seed", 0))),
            dtype=float)).tolist())
    require(outs[0] == outs[1],
            lambda: "sample_truncated_poisson(%r) with two Generators seeded %d gave %r and %r "
                    "(numpy's global generator was seeded differently before the two calls)"
            % (arg, case.get("seed", 0), outs[0], outs[1]), key="tp-not-reproducible")
    ctx.label("tail_draw" if tail else "central_draw", "scalar" if case["scalar"] else "array")
    ctx.nontrivial(tail)



# --------------------------------------------------------------------------
# C16.cross_process: "two samplers built with the same parameters and seed produce the same
# sequence of samples" -- also when the second sampler lives in another interpreter run (another
# PYTHONHASHSEED): nothing may depend on the iteration order of a set of string labels


def cross_digest(case):
    """The sample sequence of a case as plain JSON (labels by repr, hyperedges sorted), next to
    the order in which the initial hypergraph lists its nodes and hyperedges in this interpreter
    (the chain starts from that listing; its order is nobody's promise)."""
    listing = None
    if case["mode"] == "initial":
        h0 = build_initial(case)[0]
        listing = [repr(list(h0.get_nodes())), repr([tuple(e) for e in h0.get_edges()])]
    try:
        _, samples = draw_samples(case)
    except Discarded:
        return {"listing": listing, "samples": "discarded"}
    return {"listing": listing,
            "samples": [sorted([sorted(map(repr, e)), int(w)] for e, w in table(h).items())
                        for h in samples]}


@st.composite
def cross_cases(draw):
    case = draw(cases(("initial", "initial", "sequences")))
    case["hashseed"] = draw(st.sampled_from([1, 12345]))
    return case


def check_cross_process(case, ctx):
    from ..common import in_child
    steps = _classify(case, ctx)
    if os.environ.get("PYTHONHASHSEED") == str(case["hashseed"]):
        ctx.label("this interpreter already runs with the child's hash seed (not judged)")
        return
    here = cross_digest(case)
    there = in_child("hgxverif.props.c16", "cross_digest", case, case["hashseed"])
    if here["listing"] != there["listing"]:
        # the container lists the same content in another order there: the sampler is not to
        # blame for starting its chain from another configuration order
        ctx.label("initial hypergraph listed in another order by the other interpreter (not judged)")
        return
    here, there = here["samples"], there["samples"]
    require(here == there,
            lambda: "the sampler built with seed %d (mode %s) yields %r in this interpreter and %r "
                    "in one started with PYTHONHASHSEED=%d"
            % (case["seed"], case["mode"], here, there, case["hashseed"]),
            key="depends-on-hashseed")
    strs = case["mode"] == "initial" and case["initial"]["kind"] == "strs"
    if strs:
        ctx.label("string labels")
    ctx.nontrivial(strs and steps >= 10)


CLAUSES = [
    Clause("validity", lambda tier: cases(("initial", "sequences", "model", "model")),
           check_validity, quick=200, thorough=1200, shards_quick=3,
           rule="at least 10 MCMC steps, a sample with >= 2 hyperedges, and (initial mode) a "
                "sample that differs from the initial configuration"),
    Clause("conditioning_initial", lambda tier: cases(("initial",)),
           check_conditioning_initial, quick=180, thorough=1200, shards_quick=2,
           rule="at least 10 MCMC steps and a sample whose hyperedge set differs from the "
                "initial hypergraph"),
    Clause("conditioning_sequences", lambda tier: cases(("sequences",)),
           check_conditioning_sequences, quick=180, thorough=1200, shards_quick=2,
           rule="at least 10 MCMC steps, matching_sequences true and two different samples"),
    Clause("partial_conditioning", lambda tier: cases(("deg_only", "dim_only")),
           check_partial_conditioning, quick=200, thorough=800, shards_quick=2,
           rule="at least 10 MCMC steps and a sample with >= 2 hyperedges"),
    Clause("resample", lambda tier: resample_cases(),
           check_resample, quick=60, thorough=400, shards_quick=2,
           rule="at least 10 MCMC steps and a sample with >= 2 hyperedges from the second call"),
    Clause("determinism", lambda tier: cases(ALL_MODES),
           check_determinism, quick=150, thorough=900, shards_quick=3,
           rule="at least 10 MCMC steps, a sample with >= 2 hyperedges and two different "
                "samples in the sequence"),
    Clause("cross_process", lambda tier: cross_cases(), check_cross_process, quick=30,
           thorough=60,
           rule="initial hypergraph with string labels, at least 10 MCMC steps"),
    Clause("truncated_poisson", lambda tier: tp_cases(),
           check_truncated_poisson, quick=400, thorough=4000,
           rule="a uniform draw within 1e-7 of either end of [0, 1)"),
]
