"""For every `fixed:` line of known_findings.txt, run the property's quick check against the
PARENT of the fix commit (scratch worktree, removed afterwards) and keep the shrunk failing
cases as committed regression replays replays/<ID>/reg-<commit>-<clause>-<sha>.json.

usage: make_regressions.py [C01 C02 ...]   (default: all properties with fixed lines)
"""
import glob, os, re, shutil, subprocess, sys

V = os.path.dirname(os.path.dirname(os.path.abspath(__file__)))
want = set(a.upper() for a in sys.argv[1:])
rows = []
for line in open(os.path.join(V, "known_findings.txt")):
    m = re.match(r"fixed: property=(C\d+) ([0-9a-f]{7,}) (.*)", line.strip())
    if m and (not want or m.group(1) in want):
        rows.append(m.groups())
for pid, commit, what in rows:
    d = os.path.join(V, "replays", pid)
    if glob.glob(os.path.join(d, "reg-%s-*.json" % commit)):
        print(pid, commit, "already has regressions"); continue
    wt = "/var/tmp/regwt_%s" % commit
    subprocess.call(["git", "-C", "/repo", "worktree", "remove", "--force", wt],
                    stderr=subprocess.DEVNULL)
    subprocess.check_call(["git", "-C", "/repo", "worktree", "add", "-q", "--detach", wt, commit + "~1"])
    try:
        for f in glob.glob(os.path.join(d, "found-*.json")):
            os.remove(f)
        env = dict(os.environ, HGXVERIF_REPO=wt, PYTHONHASHSEED="0", VERIF_SEED="1",
                       HGXVERIF_EVIDENCE_DIR="/var/tmp/hgxverif_scratch_evidence")
        r = subprocess.run(["/venv/bin/python", "-m", "hgxverif.run", pid, "--tier", "quick"],
                           cwd=V, env=env, capture_output=True, text=True)
        found = sorted(glob.glob(os.path.join(d, "found-*.json")))
        print(pid, commit, "exit", r.returncode, "found", len(found), "|", what[:70])
        for f in found[:2]:
            base = os.path.basename(f).replace("found-", "reg-%s-" % commit)
            shutil.move(f, os.path.join(d, base))
        for f in found[2:]:
            os.remove(f)
    finally:
        subprocess.call(["git", "-C", "/repo", "worktree", "remove", "--force", wt])
# evidence files were rewritten against scratch trees: remove them so nobody mistakes them
print("done; re-run the quick checks against /repo to refresh evidence")
