"""Shared by C06 and C07: abstract *content* of the four container types and a
scripted construction through the public API that ends in exactly that content.

A construction ("side") = constructor arguments chosen by ``ctor`` flags, then a
list of explicit *noise* operations drawn by Hypothesis (extra hyperedges and
nodes, partial weights, junk metadata, removals, keep_edges shrinks, clear(),
hashing in between ...), then a *repair phase* that removes every discrepancy
with the target content in an order and in call forms chosen by
``random.Random(side["seed"])`` (a pure function of the case).  A small model of
the object (nodes -> metadata, key -> [weight, metadata]) is advanced with the
*specified* effect of each call only; calls whose effect the docstrings leave
open (metadata of a re-inserted hyperedge, add_node with metadata on an existing
node, a keep_edges merge into an existing hyperedge, an emptied hyperedge) are
never issued in an ambiguous form.

Options of a side / content: ``side["rev"]`` hands every metadata dict (also nested ones)
to the library with reversed key order; content ``wmode == "dyadic"`` makes the weights
floats k/4 (exact sums; 2.0 and 2 are different weights for the repair phase and the
premise check); a builder given ``hash_fn`` calls it right before a share of the mutating
calls (rng of the side); every other remove_node / remove_edge / add_node goes through the
bulk call with a one-element list; the noise kind "copy" continues on ``h.copy()``.

The concrete calls are executed with the adapters of C01..C04 (history.apply_real).
"""

import random

from hypothesis import strategies as st

from .. import history as H
from .. import strategies as S
from ..common import dc
from ..common import nodes_with_metadata
from ..engine import HarnessError

TYPES = ["Hypergraph", "DirectedHypergraph", "TemporalHypergraph", "MultiplexHypergraph"]
HG_OWN = ("weighted", "type")   # hypergraph-metadata keys set by the implementation
LAYERS = H.LAYERS


class Kit:
    """Type-specific glue on top of the C01..C04 adapters."""

    def __init__(self, name):
        from ..props import c01, c02, c03, c04
        mod = {"Hypergraph": c01, "DirectedHypergraph": c02,
               "TemporalHypergraph": c03, "MultiplexHypergraph": c04}[name]
        self.name = name
        self.ad = mod.ADAPTER
        self.observe_fn = mod.observe

    # canonical, JSON-friendly form of a model key
    def probe(self, key):
        return self.ad.probe_of_key(key)

    def nodes_of(self, key):
        if self.name == "Hypergraph":
            return set(key)
        if self.name == "DirectedHypergraph":
            return set(key[0]) | set(key[1])
        if self.name == "TemporalHypergraph":
            return set(key[1])
        return set(key[0])

    def map_key(self, key, f):
        """the model key with every node label n replaced by f(n)"""
        if self.name == "Hypergraph":
            return frozenset(f(n) for n in key)
        if self.name == "DirectedHypergraph":
            return (frozenset(f(n) for n in key[0]), frozenset(f(n) for n in key[1]))
        if self.name == "TemporalHypergraph":
            return (key[0], frozenset(f(n) for n in key[1]))
        return (frozenset(f(n) for n in key[0]), key[1])

    def shrink(self, key, n):
        """keep_edges=True result for node n (None when nothing is left)."""
        if self.name == "Hypergraph":
            new = key - {n}
            return new if new else None
        if self.name == "TemporalHypergraph":
            new = key[1] - {n}
            return (key[0], new) if new else None
        if self.name == "MultiplexHypergraph":
            new = key[0] - {n}
            return (new, key[1]) if new else None
        raise AssertionError("keep_edges is not used on directed hypergraphs")

    def weight_of(self, h, e):
        if self.name == "TemporalHypergraph":
            return h.get_weight(e[1], e[0])
        if self.name == "MultiplexHypergraph":
            return h.get_weight(e[0], e[1])
        return h.get_weight(e)

    def meta_of(self, h, e):
        if self.name == "TemporalHypergraph":
            return h.get_edge_metadata(e[1], e[0])
        if self.name == "MultiplexHypergraph":
            return h.get_edge_metadata(e[0], e[1])
        return h.get_edge_metadata(e)

    def canon_listed(self, e):
        """canonical probe of a hyperedge as listed by get_edges()"""
        if self.name == "Hypergraph":
            return tuple(sorted(e))
        if self.name == "DirectedHypergraph":
            return (tuple(sorted(e[0])), tuple(sorted(e[1])))
        if self.name == "TemporalHypergraph":
            return (e[0], tuple(sorted(e[1])))
        return (tuple(sorted(e[0])), e[1])

    def content_of(self, h):
        """Light observation of the content through the public API."""
        nodes = {n: dc(m) for n, m in nodes_with_metadata(h).items()}
        listed = list(h.get_edges())
        edges = {}
        # per-hyperedge getters on the plain listing (the bulk listing get_edges(metadata=True)
        # is what the text saver itself reads: a fault there must show up as a round-trip
        # difference, not as a failed premise)
        for e in listed:
            edges[self.canon_listed(e)] = [self.weight_of(h, e), dc(self.meta_of(h, e))]
        return {"nodes": nodes, "edges": edges, "n_listed": len(listed),
                "listed": sorted((self.canon_listed(e) for e in listed), key=repr),
                "weighted": h.is_weighted(), "hg": dc(h.get_hypergraph_metadata())}

    def observe(self, h, U, probes):
        o = self.observe_fn(h, U, probes, True)
        o["__hg_meta__"] = dc(h.get_hypergraph_metadata())
        return o


_KITS = {}


def kit(name):
    if name not in _KITS:
        _KITS[name] = Kit(name)
    return _KITS[name]


# --------------------------------------------------------------------------
# abstract content


def derive(content):
    """content case -> target: nodes {label: meta}, edges {key: [w, meta]}, hg (user part)."""
    k = kit(content["type"])
    ad = k.ad
    U = content["universe"]["labels"]
    weighted = content["weighted"]
    dyadic = content.get("wmode", "int") == "dyadic"
    edges, order = {}, []
    specs = content["edges"]
    for i, e in enumerate(specs):
        spec = expand_edge(e)
        if spec["same_as"] is not None and i > 0:
            # the same node set again (at another time / in another layer / with another cut)
            spec["ns"] = specs[spec["same_as"] % i]["ns"]
        rec = ad.fresh_record(spec, U)
        key = ad.key_of(rec)
        if key in edges:
            continue
        w = DYADIC[(spec["w"] - 1) % len(DYADIC)] if dyadic else spec["w"]
        edges[key] = [w if weighted else 1, dc(e["meta"])]
        order.append(key)
    nodes = {}
    for key in order:
        for n in sorted(k.nodes_of(key), key=repr):
            nodes.setdefault(n, {})
    for i in content["isolated"]:
        # a label no hyperedge uses, when there is one
        unused = [u for u in U if u not in nodes]
        nodes.setdefault(unused[i % len(unused)] if unused else U[i % len(U)], {})
    for i, meta in content["node_meta"]:
        nodes[U[i % len(U)]] = dc(meta)
    return {"type": content["type"], "weighted": weighted, "nodes": nodes, "edges": edges,
            "order": order, "hg_user": dc(content["hg_meta"]),
            "wmode": "dyadic" if (dyadic and weighted) else "int"}


def relabel(T, f):
    """The target with every node label n replaced by f(n) (f injective)."""
    k = kit(T["type"])
    T2 = dc(T)
    T2["nodes"] = {f(n): dc(m) for n, m in T["nodes"].items()}
    T2["edges"] = {k.map_key(key, f): dc(v) for key, v in T["edges"].items()}
    T2["order"] = [k.map_key(key, f) for key in T["order"]]
    return T2


def rev_keys(v):
    """The same JSON value with the keys of every dict (also nested in lists) in reversed
    insertion order."""
    if isinstance(v, dict):
        return {f: rev_keys(v[f]) for f in reversed(list(v))}
    if isinstance(v, list):
        return [rev_keys(x) for x in v]
    return v


def target_as_content(k, T):
    """Same shape as Kit.content_of, for comparison."""
    hg = dc(T["hg_user"])
    if not T.get("hg_bare"):
        hg.update({"weighted": T["weighted"], "type": T["type"]})
    return {"nodes": dc(T["nodes"]),
            "edges": {k.probe(key): [v[0], dc(v[1])] for key, v in T["edges"].items()},
            "n_listed": len(T["edges"]),
            "listed": sorted((k.probe(key) for key in T["edges"]), key=repr),
            "weighted": T["weighted"], "hg": hg}


# --------------------------------------------------------------------------
# the builder


class Builder:
    def __init__(self, T, U, side, hash_fn=None, on_hash=None):
        self.k = kit(T["type"])
        self.ad = self.k.ad
        self.T = T
        self.U = U
        self.side = side
        self.rng = random.Random(side["seed"])
        self.weighted = T["weighted"]
        self.nodes = {}
        self.edges = {}
        self.hg_known = {}
        self.hg_target = dc(T["hg_user"])
        self.hg_target.update({"weighted": T["weighted"], "type": T["type"]})
        self.trace = []
        self.h = None
        self.hash_fn = hash_fn
        self.on_hash = on_hash      # callback(builder) at every "hash" noise op
        self.flags = set()
        self.dyadic = T.get("wmode", "int") == "dyadic" and T["weighted"]
        # every dict handed to the library (also nested ones) with its keys in reversed order
        self.rev = bool(side.get("rev", False))

    # ---- model (specified effects only)
    def _m_add_node(self, n, meta):
        if n not in self.nodes:
            self.nodes[n] = {} if meta is None else dc(meta)
        elif meta is not None and meta != {}:
            raise AssertionError("builder issued add_node with metadata on an existing node")

    def _m_add_edge(self, key, w, meta):
        if w is None:
            w = 1
        if key not in self.edges:
            self.edges[key] = [w if self.weighted else 1, {} if meta is None else dc(meta)]
        else:
            if not _same_types(meta if meta is not None else {}, self.edges[key][1]):
                raise AssertionError("builder re-inserted a hyperedge with different metadata")
            if self.weighted:
                self.edges[key][0] += w
        for n in sorted(self.k.nodes_of(key), key=repr):
            self._m_add_node(n, None)

    def keep_safe(self, n):
        if not self.ad.keep_edges_allowed:
            return False
        new = []
        for key in self.edges:
            if n in self.k.nodes_of(key):
                s = self.k.shrink(key, n)
                if s is None or s in self.edges or s in new:
                    return False
                new.append(s)
        return True

    def _m_remove_node(self, n, keep):
        inc = [key for key in self.edges if n in self.k.nodes_of(key)]
        if keep:
            for key in inc:
                self.edges[self.k.shrink(key, n)] = self.edges.pop(key)
        else:
            for key in inc:
                del self.edges[key]
        del self.nodes[n]

    # ---- issuing one concrete call
    def do(self, c):
        ad, h = self.ad, self.h
        op = c["op"]
        if (self.hash_fn is not None and op not in ("hash", "copy")
                and self.rng.random() < (0.5 if op in ATTR_OPS else 0.15)):
            # the hash is taken right before a call that changes the object (a digest kept on
            # the object must not survive the change), most often before the calls that edit
            # one metadata field in place
            self.hash_fn(h)
            self.trace.append({"op": "hash", "before": op})
            self.flags.add("hash_before_attr_edit" if op in ATTR_OPS else "hash_before_mutation")
        self.trace.append(c)
        real = rev_keys(c) if self.rev else c
        if op == "copy":
            self.h = h.copy()
            self.flags.add("copy")
            return
        if op == "hash":
            if self.on_hash is not None:
                self.on_hash(self)
            elif self.hash_fn is not None:
                self.hash_fn(h)
            return
        if op == "set_hypergraph_metadata":
            h.set_hypergraph_metadata(dc(real["meta"]))
            self.hg_known = dc(c["meta"])
            return
        if (op == "remove_node" and getattr(ad, "has_remove_nodes", False)
                and len(self.trace) % 2 == 0):
            # every other node removal goes through the bulk call remove_nodes([n])
            H.apply_real(ad, h, {"op": "remove_nodes", "ns": [c["n"]], "keep": c["keep"]})
            self.trace[-1] = dict(c, via="remove_nodes")
        elif (op == "remove_edge" and getattr(ad, "has_remove_edges", False)
                and len(self.trace) % 2 == 0):
            # ... and every other hyperedge removal through remove_edges([e])
            H.apply_real(ad, h, {"op": "remove_edges", "es": [c["e"]]})
            self.trace[-1] = dict(c, via="remove_edges")
            self.flags.add("via_remove_edges")
        elif (op == "add_node" and len(self.trace) % 2 == 0
                and (c["meta"] is None or getattr(ad, "has_add_nodes_metadata", False))):
            # ... and every other node addition through add_nodes([n])
            H.apply_real(ad, h, {"op": "add_nodes", "ns": [c["n"]],
                                 "metas": None if c["meta"] is None else [real["meta"]]})
            self.trace[-1] = dict(c, via="add_nodes")
            self.flags.add("via_add_nodes")
        else:
            H.apply_real(ad, h, real)
        if op == "add_node":
            self._m_add_node(c["n"], c["meta"])
        elif op == "add_edge":
            self._m_add_edge(ad.key_of(c["e"]), c["w"], c["meta"])
        elif op == "remove_edge":
            del self.edges[ad.key_of(c["e"])]
            self.flags.add("removal")
        elif op == "remove_node":
            self._m_remove_node(c["n"], c["keep"])
            self.flags.add("removal")
            if c["keep"]:
                self.flags.add("keep_edges_shrink")
        elif op == "set_weight":
            self.edges[ad.key_of(c["e"])][0] = c["w"]
        elif op == "set_node_metadata":
            self.nodes[c["n"]] = dc(c["meta"])
        elif op == "set_edge_metadata":
            self.edges[ad.key_of(c["e"])][1] = dc(c["meta"])
        elif op == "set_attr_node":
            self.nodes[c["n"]][c["field"]] = dc(c["value"])
        elif op == "remove_attr_node":
            del self.nodes[c["n"]][c["field"]]
        elif op == "set_attr_edge":
            self.edges[ad.key_of(c["e"])][1][c["field"]] = dc(c["value"])
        elif op == "remove_attr_edge":
            del self.edges[ad.key_of(c["e"])][1][c["field"]]
        elif op == "set_attr_hg":
            self.hg_known[c["field"]] = dc(c["value"])
        elif op == "clear":
            self.nodes, self.edges, self.hg_known = {}, {}, {}
            self.flags.add("removal")
            self.flags.add("clear")
        else:
            raise AssertionError(op)

    # ---- records
    def rec_of(self, key, perm=None):
        return self.ad.record_of_key(key, self.rng.randrange(1000) if perm is None else perm)

    def _sorted_edges(self):
        return sorted(self.edges, key=self.ad.sort_key)

    def _sorted_nodes(self):
        return sorted(self.nodes, key=repr)

    # ---- phase 0: constructor
    def construct(self):
        T, rng, ad = self.T, self.rng, self.ad
        flags = self.side["ctor"]
        recs, ws, metas, node_meta, hg = [], None, None, None, None
        if flags & 1 and T["order"]:
            keys = list(T["order"])
            rng.shuffle(keys)
            keys = keys[: rng.randint(1, len(keys))]
            if T["type"] == "TemporalHypergraph":
                # a weighted batch with one node set at two times is outside C03's statement
                seen, out = set(), []
                for key in keys:
                    if key[1] not in seen:
                        seen.add(key[1])
                        out.append(key)
                keys = out
            recs = [self.rec_of(key) for key in keys]
            if self.weighted and flags & 8:
                ws = [T["edges"][key][0] for key in keys]
            if flags & 16:
                metas = [dc(T["edges"][key][1]) for key in keys]
        if flags & 2 and T["nodes"]:
            ns = self._shuffled(list(T["nodes"]))
            ns = ns[: rng.randint(1, len(ns))]
            node_meta = {n: dc(T["nodes"][n]) for n in ns}
        if flags & 4:
            hg = dc(T["hg_user"])
        r = rev_keys if self.rev else (lambda v: v)
        self.h = ad.construct(self.weighted, recs, list(ws) if ws is not None else None,
                              r(dc(metas)), r(dc(node_meta)), r(dc(hg)))
        self.trace.append({"op": "construct", "weighted": self.weighted, "records": recs,
                           "weights": ws, "edge_metadata": metas,
                           "node_metadata": [[n, m] for n, m in (node_meta or {}).items()] or None,
                           "hypergraph_metadata": hg})
        self.hg_known = {"weighted": self.weighted, "type": T["type"]}
        if hg is not None:
            self.hg_known.update(dc(hg))
        for n, m in (node_meta or {}).items():
            self._m_add_node(n, m)
        for i, r in enumerate(recs):
            self._m_add_edge(ad.key_of(r), ws[i] if ws is not None else None,
                             metas[i] if metas is not None else None)

    def _shuffled(self, xs):
        xs = sorted(xs, key=repr)
        self.rng.shuffle(xs)
        return xs

    # ---- phase 1: noise
    def noise(self, spec):
        ad, U = self.ad, self.U
        spec = expand_noise(spec)
        kind = spec["k"]
        a, b, c = spec["pick"], spec["perm"], spec["c"]
        w_noise = spec["w"] * 0.25 if (self.dyadic and b % 2) else spec["w"]
        w_arg = (w_noise if self.weighted else (None if c % 2 else 1))

        def add_edge_rec(rec, meta_new):
            key = ad.key_of(rec)
            if not self._valid(key):
                return
            if key in self.edges:
                meta = dc(self.edges[key][1])   # re-insertion: metadata unspecified unless equal
                self.flags.add("reinsert_existing")
            else:
                meta = meta_new
            self.do({"op": "add_edge", "e": rec, "w": w_arg, "meta": meta})

        if kind == "extra_edge":
            add_edge_rec(ad.fresh_record(spec, U), None if c % 3 == 0 else dc(spec["meta"]))
        elif kind == "variant_edge":
            keys = sorted(self.T["edges"], key=ad.sort_key)
            if keys:
                add_edge_rec(ad.variant_of_key(keys[a % len(keys)], spec, U), dc(spec["meta"]))
        elif kind == "t_edge":
            keys = sorted(self.T["edges"], key=ad.sort_key)
            if keys:
                key = keys[a % len(keys)]
                tmeta = dc(self.T["edges"][key][1])
                if c % 3 == 1 and tmeta:
                    tmeta.pop(sorted(tmeta)[b % len(tmeta)])
                elif c % 3 == 2:
                    tmeta = dc(spec["meta"])
                add_edge_rec(ad.record_of_key(key, b), tmeta)
        elif kind == "add_node":
            n = U[a % len(U)]
            meta = None if (n in self.nodes or c % 2) else dc(spec["meta"])
            self.do({"op": "add_node", "n": n, "meta": meta})
        elif kind in ("set_attr_node", "remove_attr_node", "set_node_metadata", "remove_node"):
            ns = self._sorted_nodes()
            if not ns:
                return
            n = ns[a % len(ns)]
            if kind == "set_attr_node":
                self.do({"op": kind, "n": n, "field": spec["field"], "value": dc(spec["value"])})
            elif kind == "remove_attr_node":
                fs = sorted(self.nodes[n])
                if fs:
                    self.do({"op": kind, "n": n, "field": fs[b % len(fs)]})
            elif kind == "set_node_metadata":
                if ad.has_set_node_metadata:
                    self.do({"op": kind, "n": n, "meta": dc(spec["meta"])})
            else:
                keep = c % 3 == 0 and self.keep_safe(n)
                self.do({"op": "remove_node", "n": n, "keep": keep})
        elif kind in ("set_attr_edge", "remove_attr_edge", "set_edge_metadata", "set_weight",
                      "remove_edge"):
            keys = self._sorted_edges()
            if not keys:
                return
            key = keys[a % len(keys)]
            rec = ad.record_of_key(key, b)
            if kind == "set_attr_edge":
                self.do({"op": kind, "e": rec, "field": spec["field"], "value": dc(spec["value"])})
            elif kind == "remove_attr_edge":
                fs = sorted(self.edges[key][1])
                if fs:
                    self.do({"op": kind, "e": rec, "field": fs[c % len(fs)]})
            elif kind == "set_edge_metadata":
                if ad.has_set_edge_metadata:
                    self.do({"op": kind, "e": rec, "meta": dc(spec["meta"])})
            elif kind == "set_weight":
                self.do({"op": kind, "e": rec, "w": w_noise if self.weighted else 1})
            else:
                self.do({"op": "remove_edge", "e": rec})
        elif kind == "set_attr_hg":
            fs = sorted(self.T["hg_user"])
            if fs:
                self.do({"op": kind, "field": fs[a % len(fs)], "value": dc(spec["value"])})
        elif kind == "clear":
            if ad.has_clear:
                self.do({"op": "clear"})
        elif kind == "hash":
            self.do({"op": "hash"})
        elif kind == "copy":
            if getattr(ad, "has_copy", False):
                self.do({"op": "copy"})
        else:
            raise AssertionError(kind)

    def _valid(self, key):
        if self.T["type"] == "DirectedHypergraph":
            return bool(key[0]) and bool(key[1]) and not (key[0] & key[1])
        return True

    # ---- phase 2: repair
    def discrepancies(self):
        T = self.T
        out = []
        for key in self._sorted_edges():
            if key not in T["edges"]:
                out.append(("drop_edge", key))
            else:
                if not _same_types(self.edges[key][0], T["edges"][key][0]):
                    out.append(("fix_weight", key))      # 2 is not 2.0
                if not _same_types(self.edges[key][1], T["edges"][key][1]):
                    out.append(("fix_edge_meta", key))
        for key in T["order"]:
            if key not in self.edges:
                out.append(("add_edge", key))
        for n in self._sorted_nodes():
            if n not in T["nodes"]:
                out.append(("drop_node", n))
            elif not _same_types(self.nodes[n], T["nodes"][n]):
                out.append(("fix_node_meta", n))
        for n in sorted(T["nodes"], key=repr):
            if n not in self.nodes:
                out.append(("add_node", n))
        for f in sorted(self.hg_target):
            if f not in self.hg_known or not _same_types(self.hg_known[f], self.hg_target[f]):
                out.append(("fix_hg", f))
        return out

    def _fix_meta(self, cur, want, set_op, rm_op, whole_op, ident):
        """one call that moves metadata dict cur towards want"""
        rng = self.rng
        if whole_op is not None and rng.random() < 0.3:
            self.do(dict(ident, op=whole_op, meta=dc(want)))
            return
        diffs = [f for f in sorted(set(cur) | set(want))
                 if f not in cur or f not in want or not _same_types(cur[f], want[f])]
        f = rng.choice(diffs)
        if f in want:
            self.do(dict(ident, op=set_op, field=f, value=dc(want[f])))
        else:
            self.do(dict(ident, op=rm_op, field=f))

    def repair(self):
        T, rng, ad = self.T, self.rng, self.ad
        for _ in range(2000):
            ds = self.discrepancies()
            if not ds:
                return
            what, x = ds[rng.randrange(len(ds))]
            if what == "drop_edge":
                self.do({"op": "remove_edge", "e": self.rec_of(x)})
            elif what == "drop_node":
                keep = rng.random() < 0.3 and self.keep_safe(x)
                self.do({"op": "remove_node", "n": x, "keep": keep})
            elif what == "add_node":
                meta = dc(T["nodes"][x]) if rng.random() < 0.6 else None
                self.do({"op": "add_node", "n": x, "meta": meta})
            elif what == "fix_node_meta":
                self._fix_meta(self.nodes[x], T["nodes"][x], "set_attr_node", "remove_attr_node",
                               "set_node_metadata" if ad.has_set_node_metadata else None, {"n": x})
            elif what == "add_edge":
                w, meta = T["edges"][x]
                r = rng.random()
                if not self.weighted:
                    w_arg = None if rng.random() < 0.5 else 1
                elif isinstance(w, float) and w > 0.25 and r < 0.4:
                    # dyadic weights: every partial sum is exact
                    w_arg = 0.25 * rng.randint(1, int(w / 0.25) - 1)
                    self.flags.add("partial_weight")
                elif not isinstance(w, float) and w > 1 and r < 0.4:
                    w_arg = rng.randint(1, w - 1)      # the rest arrives by re-insertion/set_weight
                    self.flags.add("partial_weight")
                else:
                    w_arg = w
                r = rng.random()
                if r < 0.6:
                    m_arg = dc(meta)
                elif r < 0.8 and meta:
                    m_arg = dc(meta)
                    m_arg.pop(rng.choice(sorted(m_arg)))
                else:
                    m_arg = None
                self.do({"op": "add_edge", "e": self.rec_of(x), "w": w_arg, "meta": m_arg})
            elif what == "fix_weight":
                cur, want = self.edges[x][0], T["edges"][x][0]
                if cur < want and rng.random() < 0.6:
                    self.flags.add("weight_by_reinsertion")
                    self.do({"op": "add_edge", "e": self.rec_of(x), "w": want - cur,
                             "meta": dc(self.edges[x][1])})
                else:
                    self.flags.add("weight_by_set_weight")
                    self.do({"op": "set_weight", "e": self.rec_of(x), "w": want})
            elif what == "fix_edge_meta":
                self._fix_meta(self.edges[x][1], T["edges"][x][1], "set_attr_edge",
                               "remove_attr_edge",
                               "set_edge_metadata" if ad.has_set_edge_metadata else None,
                               {"e": self.rec_of(x)})
            elif what == "fix_hg":
                self.do({"op": "set_attr_hg", "field": x, "value": dc(self.hg_target[x])})
        raise AssertionError("repair phase did not terminate")

    def run(self):
        self.construct()
        for spec in self.side["noise"]:
            self.noise(spec)
        self.repair()
        # metadata emptied by a removal: every other item whose metadata is {} gets a
        # temporary attribute that is removed again (content unchanged; a table entry dropped
        # when its dict becomes empty would make the item vanish from a bulk listing)
        j = 0
        for key in sorted(self.edges, key=self.ad.sort_key):
            if not self.edges[key][1]:
                j += 1
                if (j + self.rng.randrange(2)) % 2 == 0:
                    rec = self.rec_of(key)
                    self.do({"op": "set_attr_edge", "e": rec, "field": "tmp", "value": 1})
                    self.do({"op": "remove_attr_edge", "e": rec, "field": "tmp"})
        for n in self._sorted_nodes():
            if not self.nodes[n]:
                j += 1
                if (j + self.rng.randrange(2)) % 2 == 0:
                    self.do({"op": "set_attr_node", "n": n, "field": "tmp", "value": 1})
                    self.do({"op": "remove_attr_node", "n": n, "field": "tmp"})
        if self.T.get("hg_bare"):
            # the hypergraph metadata replaced wholesale by the user's own fields: the
            # implementation-set 'weighted' and 'type' entries are gone
            self.do({"op": "set_hypergraph_metadata", "meta": dc(self.T["hg_user"])})
        return self.h


def require_content(b):
    """HarnessError when the object's content (public API) is not the target: then the
    premise of the C06/C07 claim is not established and no verdict is given (C01..C04 own
    that defect)."""
    got = b.k.content_of(b.h)
    want = target_as_content(b.k, b.T)
    if got != want or not _same_types(got, want):
        diff = [f for f in want if got.get(f) != want[f] or not _same_types(got.get(f), want[f])]
        raise HarnessError(
            "premise not established: after the scripted construction the %s content differs "
            "from the target in %s\n got  %r\n want %r\n trace %r"
            % (b.T["type"], diff, {f: got.get(f) for f in diff}, {f: want[f] for f in diff},
               b.trace))


def build(T, U, side, hash_fn=None, on_hash=None, check_premise=True):
    """Returns (object, builder)."""
    b = Builder(T, U, side, hash_fn=hash_fn, on_hash=on_hash)
    b.run()
    if check_premise:
        require_content(b)
    return b.h, b


def _same_types(a, b):
    """== plus equal numeric/bool types, recursively (1 vs True vs 1.0 matter to JSON)."""
    if type(a) is not type(b):
        return False
    if isinstance(a, dict):
        return set(a) == set(b) and all(_same_types(a[k], b[k]) for k in a)
    if isinstance(a, (list, tuple)):
        return len(a) == len(b) and all(_same_types(x, y) for x, y in zip(a, b))
    return a == b


# --------------------------------------------------------------------------
# strategies

idx = st.integers(0, 7)
sel = st.integers(0, 30)

# fixed pools keep the (many) noise operations cheap to draw; 1 / 1.0 / True and
# [] / {} / None / "" are different JSON values on purpose
META_POOL = [{}, {"color": "red"}, {"k": 1}, {"k": True}, {"k": 1.0}, {"role": [1, "x y"]},
             {"x": {"p": None}}, {"color": "blue", "k": 0.5}, {"x": None}, {"role": ""},
             {"k": -3, "x": []}, {"color": "red", "role": "A", "x": 2},
             # dicts with several keys below the top level (also inside a list)
             {"x": {"p": 1, "a": [2], "m": None}}, {"role": [{"q": 1, "b": "2"}, 3], "k": 2},
             # keys and values that need escaping in JSON text, the empty key
             {'a"b': 1, 'x\\y': 'l\nb'}, {'\u00e9': '', '': '\u00e9', 'k': 'a"b'}]
VALUE_POOL = [None, True, False, 0, 1, 1.0, 2, "red", "", "A", [1, 2], [], {"p": 1},
              {"q": None}, 0.5, -1.25, {"q": 1, "p": 2, "a": {"z": 0, "y": 1}}, [{"z": 0, "a": 1}],
              'a"b', 'x\\y', 'l\nb', '\u00e9']
# node labels that need escaping in JSON text, the empty label
ESC_LABELS = ['a"b', 'x\\y', 'l\nb', '\u00e9', '', 'B', '10']
# weights of the dyadic float mode (exact sums and differences; 2.0 is a float, never an int)
DYADIC = [0.5, 0.25, 1.5, 2.75, 2.0, 0.75, 2.5, 4.0, 1.25]
ATTR_OPS = ("set_attr_node", "remove_attr_node", "set_attr_edge", "remove_attr_edge")


def rich_metadata():
    """Content metadata: the shared JSON strategy, or a non-empty dict (so that
    metadata-carrying nodes / hyperedges are frequent)."""
    return st.one_of(S.metadata(), st.sampled_from(META_POOL[1:]),
                     st.dictionaries(st.sampled_from(S.ATTRS), S.json_values, min_size=1,
                                     max_size=3))


def _digits(x, *bases):
    out = []
    for b in bases:
        out.append(x % b)
        x //= b
    return out


def expand_edge(e):
    """compact content hyperedge {"ns", "x", "meta"} -> the fields the adapters read
    (one integer instead of five draws keeps generation cheap)"""
    cut, t, layer, w, same, same_as = _digits(e["x"], 8, 7, 4, 9, 4, 31)
    if t == 6:
        t = 12      # a two-digit time: "12" < "2" as text, 12 > 2 as a number
    return {"mode": "fresh", "ns": e["ns"], "cut": cut, "t": t, "layer": layer, "w": 1 + w,
            "perm": 0, "pick": 0, "same_as": same_as if same == 0 else None, "meta": e["meta"]}


def expand_noise(o):
    """compact noise op {"k", "x", "meta", "value"} -> selector fields"""
    pick, perm, c, cut, t, layer, w, f, size, sub = _digits(
        o["x"], 31, 31, 31, 8, 7, 4, 9, len(S.ATTRS), 4, 40320)
    ns = random.Random(sub).sample(range(8), 1 + size)
    return {"k": o["k"], "mode": "fresh", "ns": ns, "pick": pick, "perm": perm, "c": c,
            "cut": cut, "t": t, "layer": layer, "w": 1 + w, "field": S.ATTRS[f],
            "meta": o["meta"], "value": o["value"]}


def edge_content():
    return st.fixed_dictionaries({
        "ns": st.lists(idx, min_size=1, max_size=4, unique=True),
        "x": st.integers(0, 8 * 7 * 4 * 9 * 4 * 31 - 1), "meta": rich_metadata(),
    })


@st.composite
def contents(draw, type_name=None, max_edges=6, weighted=None):
    name = type_name or draw(st.sampled_from(TYPES))
    node_meta = draw(st.lists(st.tuples(idx, rich_metadata()), max_size=3))
    ec = edge_content()
    return {
        "type": name,
        "weighted": draw(st.booleans()) if weighted is None else weighted,
        # one in four: str labels that need escaping in JSON text (and the empty label)
        "universe": (draw(st.fixed_dictionaries({
            "kind": st.just("strs_esc"),
            "labels": st.lists(st.sampled_from(ESC_LABELS), min_size=4, max_size=7, unique=True)}))
            if draw(st.sampled_from([False, False, False, True])) else
            draw(S.universes(min_size=4, max_size=8,
                             kinds=("ints", "strs", "ints", "strs", "range")))),
        # (small integer ranges are drawn with a heavy bias to 0: use sampled_from for rates)
        "edges": ([] if draw(st.sampled_from([False] * 11 + [True])) else
                  draw(st.one_of(st.lists(ec, min_size=1, max_size=max_edges),
                                 st.lists(ec, min_size=3, max_size=max_edges)))),
        "isolated": draw(st.lists(idx, min_size=draw(st.sampled_from([0, 1, 1, 2])), max_size=2)),
        "node_meta": [list(t) for t in node_meta],
        "hg_meta": draw(rich_metadata()),
        "wmode": draw(st.sampled_from(["int", "int", "dyadic"])),
    }


NOISE_KINDS = (["extra_edge"] * 5 + ["variant_edge"] * 2 + ["t_edge"] * 4 + ["add_node"] * 3
               + ["remove_edge"] * 3 + ["remove_node"] * 4 + ["set_weight"] * 2
               + ["set_attr_node", "remove_attr_node", "set_node_metadata", "set_attr_edge",
                  "remove_attr_edge", "set_edge_metadata", "set_attr_hg", "hash"])


def noise_op(clear=True, extra_kinds=()):
    pool = NOISE_KINDS + list(extra_kinds)
    if clear:
        pool = pool * 2 + ["clear"]       # about 1 in 70
    return st.fixed_dictionaries({
        "k": st.sampled_from(pool), "x": st.integers(0, 2**50),
        "meta": st.sampled_from(META_POOL), "value": st.sampled_from(VALUE_POOL),
    })


def sides(max_noise=10, clear=True, extra_kinds=(), min_noise=0, rev=False):
    op = noise_op(clear, extra_kinds)
    d = {
        "ctor": st.integers(0, 31),
        "noise": st.one_of(st.lists(op, min_size=min_noise, max_size=max(min_noise, 2)),
                           st.lists(op, min_size=min_noise, max_size=max_noise),
                           st.lists(op, min_size=max(3, min_noise), max_size=max_noise)),
        "seed": st.integers(0, 10**6),
    }
    if rev:
        # the side hands every metadata dict (also nested ones) to the library with its keys
        # in reversed order
        d["rev"] = st.booleans()
    return st.fixed_dictionaries(d)


def history_labels(b, ctx, prefix=""):
    for f in sorted(b.flags):
        ctx.label(prefix + f)
    ops = [c["op"] for c in b.trace]
    if "construct" in ops and b.trace[0]["records"]:
        ctx.label(prefix + "ctor_with_edges")
