"""C08 -- degrees and connected components equal their combinatorial definitions.

A hypergraph is built from a drawn list of node sets (plus isolated nodes,
hyperedges that are inserted and removed again, hyperedges inserted twice).
The oracle works on the abstract family of node sets only: degree = number of
distinct filtered hyperedges containing the node, components = union-find
classes over the filtered hyperedges.  Every wrapper is asked through the
method *and* the module-level function under every order/size filter
(sizes 1..6, size 6 is always absent) and without filter.
"""

from collections import Counter

from hypothesis import strategies as st

from .. import strategies as S
from ..common import dedupe, permuted
from ..engine import Clause, Violation, require
from ..oracles.partition import components
from ..common import with_history  # noqa: E402

ASSUMPTIONS = [
    "oracle = union-find over the filtered node sets of the case (hgxverif/oracles/partition.py) "
    "and plain counting; it never asks the library which hyperedges exist",
    "a filter is none, size=k or order=k-1 for k in 1..6; all 13 are asked in every case, always by "
    "keyword (positional order/size arguments differ between methods and functions and are not used)",
    "largest_component: any component of maximum size is accepted",
    "hypergraphs have at least one node (largest component / connectedness of nothing is unspecified)",
    "listing order of components and of nodes inside a component is never asserted; a component "
    "may be returned as any iterable of distinct nodes",
    "directed hyperedges have disjoint non-empty source and target and are filtered on "
    "|source|+|target|; temporal and multiplex degrees count records (time / layer copies count "
    "separately) and are filtered on the number of nodes",
]

K_RANGE = list(range(1, 7))
FILTERS = [None] + [("size", k) for k in K_RANGE] + [("order", k - 1) for k in K_RANGE]


def fkw(f):
    return {} if f is None else {f[0]: f[1]}


def fsize(f):
    if f is None:
        return None
    return f[1] if f[0] == "size" else f[1] + 1


def fdesc(f):
    return "" if f is None else "%s=%d" % f


def _labels(ns, U):
    return dedupe([U[i % len(U)] for i in ns])


# ---------------------------------------------------------------------------
# building


def _warmup(h):
    """Ask every wrapper once (no filter and size=2); results are discarded."""
    import importlib
    cc = importlib.import_module("hypergraphx.utils.cc")
    deg = importlib.import_module("hypergraphx.measures.degree")
    for kw in ({}, {"size": 2}):
        deg.degree_sequence(h, **kw)
        deg.degree_distribution(h, **kw)
        cc.connected_components(h, **kw)
        cc.num_connected_components(h, **kw)
        cc.largest_component(h, **kw)
        cc.largest_component_size(h, **kw)
        cc.isolated_nodes(h, **kw)
        cc.is_connected(h, **kw)
        for n in h.get_nodes():
            cc.node_connected_component(h, n, **kw)
            cc.is_isolated(h, n, **kw)
            h.degree(n, **kw)


@with_history(warmup=_warmup)
def build_hypergraph(case):
    """Returns (Hypergraph, node list, set of frozenset hyperedges, trace)."""
    from hypergraphx import Hypergraph
    U = case["universe"]["labels"]
    weighted = case["weighted"]
    edges = dedupe([_labels(ns, U) for ns in case["edges"]])
    seen, recs = set(), []
    for e in edges:
        if frozenset(e) not in seen:
            seen.add(frozenset(e))
            recs.append(e)
    trace = []
    if case["ctor"] and recs:
        kw = {"edge_list": [tuple(e) for e in recs], "weighted": weighted}
        if weighted:
            kw["weights"] = [(3 * i) % 7 + 1 for i in range(len(recs))]
        h = Hypergraph(**kw)
        trace.append("Hypergraph(%r)" % (kw,))
    else:
        h = Hypergraph(weighted=weighted)
        trace.append("Hypergraph(weighted=%r)" % weighted)
        for e in recs:
            h.add_edge(tuple(e), **({"weight": 2} if weighted else {}))
            trace.append("add_edge(%r)" % (tuple(e),))
    nodes = set()
    for e in recs:
        nodes |= set(e)
    # hyperedges that come and go (their nodes stay)
    for ns in case["removed"]:
        e = _labels(ns, U)
        if frozenset(e) in seen:
            continue
        h.add_edge(tuple(e), **({"weight": 5} if weighted else {}))
        h.remove_edge(tuple(reversed(e)))
        nodes |= set(e)
        trace.append("add_edge+remove_edge(%r)" % (tuple(e),))
    # a hyperedge inserted again is still one hyperedge
    for p in case["again"]:
        if recs:
            e = permuted(recs[p % len(recs)], p)
            h.add_edge(tuple(e), **({"weight": 1} if weighted else {}))
            trace.append("add_edge(%r) again" % (tuple(e),))
    # hyperedges that (also) reach their node set through a keep_edges=True node removal:
    # e + {Z} is inserted next to e, then Z is removed and the shrunk hyperedge merges into e
    shr = case.get("shrunk") or []
    if shr and recs:
        kind = case["universe"]["kind"]
        pool = list(range(len(U), len(U) + 3)) if kind == "range" else (
            S.INT_POOL if kind == "ints" else S.STR_POOL)
        Z = next((x for x in pool if x not in U), None)
        if Z is not None:
            for p in shr:
                e = recs[p % len(recs)]
                h.add_edge(tuple(e) + (Z,), **({"weight": 4} if weighted else {}))
                trace.append("add_edge(%r)" % (tuple(e) + (Z,),))
            h.remove_node(Z, keep_edges=True)
            trace.append("remove_node(%r, keep_edges=True)" % (Z,))
    for i in case["isolated"]:
        n = U[i % len(U)]
        h.add_node(n)
        nodes.add(n)
        trace.append("add_node(%r)" % (n,))
    return h, sorted(nodes), seen, trace


def _filtered(edge_sets, f, size_of=len):
    k = fsize(f)
    return [e for e in edge_sets if k is None or size_of(e) == k]


def _classify(case, ctx, nodes, E):
    sizes = {len(e) for e in E}
    ctx.label("labels:" + case["universe"]["kind"])
    ctx.label("sizes:%s" % ("none" if not sizes else "uniform" if len(sizes) == 1 else "mixed"))
    if any(len(e) == 1 for e in E):
        ctx.label("has-singleton-edge")
    covered = set()
    for e in E:
        covered |= e
    if set(nodes) - covered:
        ctx.label("has-isolated-node")
    n0 = len(components(nodes, E))
    differs = False
    for f in FILTERS[1:7]:
        nf = len(components(nodes, _filtered(E, f)))
        if nf >= 2 and nf != n0 and _filtered(E, f) and fsize(f) > 1:
            differs = True
    if differs:
        ctx.label("filter-changes-partition")
    ctx.label("components:%s" % ("1" if n0 == 1 else "2+"))
    return len(sizes) > 1 and differs


def _as_set(x, what):
    xs = list(x)
    s = set(xs)
    require(len(s) == len(xs), lambda: "%s lists a node twice: %r" % (what, xs), key="repeat")
    return frozenset(s)


def _must_raise_both(fn, what):
    """order and size given together: the statement is silent; the library refuses the pair
    (ValueError, documented for get_neighbors).  Refusing it or answering the -- consistent --
    pair like size=2 alone are both accepted; any other answer is not an answer to the filter."""
    try:
        got = fn(order=1, size=2)
    except (ValueError, TypeError):
        return
    want = fn(size=2)
    same = (sorted(map(repr, got)) == sorted(map(repr, want))
            if isinstance(got, (list, tuple, set, frozenset)) and not isinstance(want, dict)
            else got == want)
    if not same:
        raise Violation("%s(order=1, size=2) neither raises ValueError nor answers like size=2: "
                        "%r vs %r" % (what, got, want), key="no-rejection")


def _variants(h, name, module):
    """(description, callable(**filter kwargs)) for the method and the module-level function."""
    import importlib
    fn = getattr(importlib.import_module(module), name)
    return [
        ("Hypergraph.%s" % name, lambda *a, **kw: getattr(h, name)(*a, **kw)),
        ("%s.%s" % (module.split(".", 1)[1], name), lambda *a, **kw: fn(h, *a, **kw)),
    ]


CC = "hypergraphx.utils.cc"
DEG = "hypergraphx.measures.degree"


def _prep(case, ctx):
    h, nodes, E, trace = build_hypergraph(case)
    ctx.trace = trace
    nt = _classify(case, ctx, nodes, E)
    got_nodes = Counter(h.get_nodes())
    require(got_nodes == Counter(nodes),
            lambda: "get_nodes() = %r, the history %r produces nodes %r"
            % (dict(got_nodes), trace, nodes), key="source-content")
    return h, nodes, E, trace, nt


# ---------------------------------------------------------------------------
# clauses on Hypergraph


def check_degree(case, ctx):
    h, nodes, E, trace, nt = _prep(case, ctx)
    for f in FILTERS:
        FE = _filtered(E, f)
        exp = {n: sum(1 for e in FE if n in e) for n in nodes}
        total = sum(len(e) for e in FE)
        for what, fn in _variants(h, "degree", DEG):
            for n in nodes:
                got = fn(n, **fkw(f))
                require(got == exp[n], lambda: "%s(%r%s) = %r, but %d of the hyperedges %s contain it "
                        "(history %r)" % (what, n, ", " + fdesc(f) if f else "", got, exp[n],
                                          _show(FE), trace), key="degree")
        for what, fn in _variants(h, "degree_sequence", DEG):
            got = dict(fn(**fkw(f)))
            require(got == exp, lambda: "%s(%s) = %r, expected %r (history %r)"
                    % (what, fdesc(f), got, exp, trace), key="degree_sequence")
            require(sum(got.values()) == total,
                    lambda: "%s(%s) sums to %d, the hyperedges have total size %d"
                    % (what, fdesc(f), sum(got.values()), total), key="degree-sum")
        hist = dict(Counter(exp.values()))
        for what, fn in _variants(h, "degree_distribution", DEG):
            got = dict(fn(**fkw(f)))
            require(got == hist, lambda: "%s(%s) = %r, expected %r (degrees %r, history %r)"
                    % (what, fdesc(f), got, hist, exp, trace), key="degree_distribution")
    for name in ("degree_sequence", "degree_distribution"):
        for what, fn in _variants(h, name, DEG):
            _must_raise_both(fn, what)
    for what, fn in _variants(h, "degree", DEG):
        _must_raise_both(lambda **kw: fn(nodes[0], **kw), what)
    ctx.nontrivial(nt)


def _show(FE):
    return sorted(tuple(sorted(e)) for e in FE)


def _partition_msg(what, f, got, exp, FE, trace):
    return ("%s(%s) = %r, the reachability classes of the hyperedges %s are %r (history %r)"
            % (what, fdesc(f), sorted(sorted(c) for c in got), _show(FE),
               sorted(sorted(c) for c in exp), trace))


def check_components(case, ctx):
    h, nodes, E, trace, nt = _prep(case, ctx)
    for f in FILTERS:
        FE = _filtered(E, f)
        exp = Counter(components(nodes, FE))
        for what, fn in _variants(h, "connected_components", CC):
            got = Counter(_as_set(c, what) for c in fn(**fkw(f)))
            require(got == exp, lambda: _partition_msg(what, f, got, exp, FE, trace),
                    key="connected_components")
        for what, fn in _variants(h, "is_connected", CC):
            got = fn(**fkw(f))
            require(got is (len(exp) == 1) or got == (len(exp) == 1),
                    lambda: "%s(%s) = %r with %d component(s) %r (history %r)"
                    % (what, fdesc(f), got, len(exp), sorted(sorted(c) for c in exp), trace),
                    key="is_connected")
    for name in ("connected_components", "is_connected"):
        for what, fn in _variants(h, name, CC):
            _must_raise_both(fn, what)
    ctx.nontrivial(nt)


def check_node_component(case, ctx):
    h, nodes, E, trace, nt = _prep(case, ctx)
    for f in FILTERS:
        FE = _filtered(E, f)
        comps = components(nodes, FE)
        of = {n: c for c in comps for n in c}
        for what, fn in _variants(h, "node_connected_component", CC):
            for n in nodes:
                got = _as_set(fn(n, **fkw(f)), what)
                require(got == of[n], lambda: "%s(%r%s) = %r, the class of the node under the "
                        "hyperedges %s is %r (history %r)"
                        % (what, n, ", " + fdesc(f) if f else "", sorted(got), _show(FE),
                           sorted(of[n]), trace), key="node_connected_component")
    for what, fn in _variants(h, "node_connected_component", CC):
        _must_raise_both(lambda **kw: fn(nodes[0], **kw), what)
    ctx.nontrivial(nt)


def check_num_components(case, ctx):
    h, nodes, E, trace, nt = _prep(case, ctx)
    for f in FILTERS:
        FE = _filtered(E, f)
        exp = len(components(nodes, FE))
        for what, fn in _variants(h, "num_connected_components", CC):
            got = fn(**fkw(f))
            require(got == exp, lambda: "%s(%s) = %r, the hyperedges %s split the %d nodes into %d "
                    "classes (history %r)" % (what, fdesc(f), got, _show(FE), len(nodes), exp, trace),
                    key="num_connected_components")
    for what, fn in _variants(h, "num_connected_components", CC):
        _must_raise_both(fn, what)
    ctx.nontrivial(nt)


def check_largest(case, ctx):
    h, nodes, E, trace, nt = _prep(case, ctx)
    for f in FILTERS:
        FE = _filtered(E, f)
        comps = components(nodes, FE)
        top = max(len(c) for c in comps)
        best = [c for c in comps if len(c) == top]
        for what, fn in _variants(h, "largest_component", CC):
            got = _as_set(fn(**fkw(f)), what)
            require(got in best, lambda: "%s(%s) = %r, the largest class(es) under the hyperedges "
                    "%s: %r (history %r)" % (what, fdesc(f), sorted(got), _show(FE),
                                             sorted(sorted(c) for c in best), trace),
                    key="largest_component")
        for what, fn in _variants(h, "largest_component_size", CC):
            got = fn(**fkw(f))
            require(got == top, lambda: "%s(%s) = %r, the largest class under the hyperedges %s "
                    "has %d nodes (history %r)" % (what, fdesc(f), got, _show(FE), top, trace),
                    key="largest_component_size")
    for name in ("largest_component", "largest_component_size"):
        for what, fn in _variants(h, name, CC):
            _must_raise_both(fn, what)
    ctx.nontrivial(nt)


def check_isolated(case, ctx):
    h, nodes, E, trace, nt = _prep(case, ctx)
    for f in FILTERS:
        FE = _filtered(E, f)
        comps = components(nodes, FE)
        # isolated = alone in its class = in no filtered hyperedge of size >= 2
        exp = {n for c in comps if len(c) == 1 for n in c}
        alt = {n for n in nodes if not any(n in e and len(e) >= 2 for e in FE)}
        assert exp == alt
        for what, fn in _variants(h, "isolated_nodes", CC):
            got = _as_set(fn(**fkw(f)), what)
            require(got == exp, lambda: "%s(%s) = %r, the nodes without a hyperedge of size >= 2 "
                    "among %s are %r (history %r)" % (what, fdesc(f), sorted(got), _show(FE),
                                                      sorted(exp), trace), key="isolated_nodes")
        for what, fn in _variants(h, "is_isolated", CC):
            for n in nodes:
                got = fn(n, **fkw(f))
                require(got == (n in exp), lambda: "%s(%r%s) = %r, expected %r (hyperedges %s, "
                        "history %r)" % (what, n, ", " + fdesc(f) if f else "", got, n in exp,
                                         _show(FE), trace), key="is_isolated")
    for what, fn in _variants(h, "isolated_nodes", CC):
        _must_raise_both(fn, what)
    for what, fn in _variants(h, "is_isolated", CC):
        _must_raise_both(lambda **kw: fn(nodes[0], **kw), what)
    ctx.nontrivial(nt)


# ---------------------------------------------------------------------------
# degrees of the other three containers

LAYERS = ["L1", "l2", "A"]


@with_history
def build_container(case):
    """Returns (object, nodes, list of (node frozenset) one per record, trace, class name)."""
    from hypergraphx import DirectedHypergraph, MultiplexHypergraph, TemporalHypergraph
    U = case["universe"]["labels"]
    kind = case["kind"]
    weighted = case["weighted"]
    wkw = {"weight": 2} if weighted else {}
    records = {}   # record key -> frozenset of nodes
    trace = []
    if kind == "directed":
        h = DirectedHypergraph(weighted=weighted)
    elif kind == "temporal":
        h = TemporalHypergraph(weighted=weighted)
    else:
        h = MultiplexHypergraph(weighted=weighted)
    nodes = set()

    def resolve(spec):
        labs = _labels(spec["ns"], U)
        if kind == "directed":
            if len(labs) < 2:
                return None
            cut = 1 + spec["x"] % (len(labs) - 1)
            s, t = labs[:cut], labs[cut:]
            if spec["flip"]:
                s, t = t, s
            return (frozenset(s), frozenset(t)), ((tuple(s), tuple(t)),), frozenset(labs)
        if kind == "temporal":
            t = spec["x"] % 5
            return (t, frozenset(labs)), (tuple(labs), t), frozenset(labs)
        layer = LAYERS[spec["x"] % len(LAYERS)]
        return (frozenset(labs), layer), (tuple(labs), layer), frozenset(labs)

    for spec in case["edges"]:
        r = resolve(spec)
        if r is None:
            continue
        key, args, ns = r
        h.add_edge(*args, **wkw)      # a repeated record is still one record
        records[key] = ns
        nodes |= ns
        trace.append("add_edge%r" % (args,))
    for spec in case["removed"]:
        r = resolve(spec)
        if r is None or r[0] in records:
            continue
        key, args, ns = r
        h.add_edge(*args, **wkw)
        if kind == "directed":
            h.remove_edge(args[0])
        elif kind == "temporal":
            h.remove_edge(args[0], args[1])
        else:
            h.remove_edge((args[0], args[1]))
        nodes |= ns
        trace.append("add_edge+remove_edge%r" % (args,))
    for i in case["isolated"]:
        n = U[i % len(U)]
        h.add_node(n)
        nodes.add(n)
        trace.append("add_node(%r)" % (n,))
    return h, sorted(nodes), records, trace


def check_containers(case, ctx):
    import hypergraphx.measures.degree as D
    h, nodes, records, trace = build_container(case)
    ctx.trace = trace
    kind = case["kind"]
    cname = type(h).__name__
    ctx.label("kind:" + kind, "labels:" + case["universe"]["kind"])
    got_nodes = Counter(h.get_nodes())
    require(got_nodes == Counter(nodes),
            lambda: "%s.get_nodes() = %r, the history %r produces nodes %r"
            % (cname, dict(got_nodes), trace, nodes), key="source-content")
    if not nodes:
        return
    R = list(records.values())
    sizes = {len(ns) for ns in R}
    repeated_sets = len(set(R)) < len(R)
    if repeated_sets:
        ctx.label("same-node-set-in-several-records")
    ctx.label("sizes:%s" % ("none" if not sizes else "uniform" if len(sizes) == 1 else "mixed"))
    for f in FILTERS:
        k = fsize(f)
        FR = [ns for ns in R if k is None or len(ns) == k]
        exp = {n: sum(1 for ns in FR if n in ns) for n in nodes}
        total = sum(len(ns) for ns in FR)
        variants = [("%s.degree" % cname, lambda n, **kw: h.degree(n, **kw)),
                    ("measures.degree.degree", lambda n, **kw: D.degree(h, n, **kw))]
        for what, fn in variants:
            for n in nodes:
                got = fn(n, **fkw(f))
                require(got == exp[n], lambda: "%s(%r%s) = %r, but %d of the records %s contain "
                        "the node (history %r)" % (what, n, ", " + fdesc(f) if f else "", got,
                                                   exp[n], _show(FR), trace), key="degree:" + kind)
        variants = [("%s.degree_sequence" % cname, lambda **kw: h.degree_sequence(**kw)),
                    ("measures.degree.degree_sequence", lambda **kw: D.degree_sequence(h, **kw))]
        for what, fn in variants:
            got = dict(fn(**fkw(f)))
            require(got == exp, lambda: "%s(%s) = %r, expected %r (history %r)"
                    % (what, fdesc(f), got, exp, trace), key="degree_sequence:" + kind)
            require(sum(got.values()) == total,
                    lambda: "%s(%s) sums to %d, the records have total size %d"
                    % (what, fdesc(f), sum(got.values()), total), key="degree-sum:" + kind)
        hist = dict(Counter(exp.values()))
        variants = [("measures.degree.degree_distribution",
                     lambda **kw: D.degree_distribution(h, **kw))]
        if hasattr(h, "degree_distribution"):
            variants.append(("%s.degree_distribution" % cname,
                             lambda **kw: h.degree_distribution(**kw)))
        for what, fn in variants:
            got = dict(fn(**fkw(f)))
            require(got == hist, lambda: "%s(%s) = %r, expected %r (degrees %r, history %r)"
                    % (what, fdesc(f), got, hist, exp, trace),
                    key="degree_distribution:" + kind)
    _must_raise_both(lambda **kw: h.degree(nodes[0], **kw), "%s.degree" % cname)
    _must_raise_both(lambda **kw: h.degree_sequence(**kw), "%s.degree_sequence" % cname)
    _must_raise_both(lambda **kw: D.degree_distribution(h, **kw),
                     "measures.degree.degree_distribution")
    ctx.nontrivial(len(sizes) > 1 and (repeated_sets or kind == "directed"))


# ---------------------------------------------------------------------------
# generators

idx = st.integers(0, 7)
# small hyperedges dominate, otherwise everything is one component
node_lists = st.one_of(
    st.lists(idx, min_size=1, max_size=2, unique=True),
    st.lists(idx, min_size=2, max_size=3, unique=True),
    st.lists(idx, min_size=1, max_size=5, unique=True),
)


def hypergraph_cases(tier):
    return st.fixed_dictionaries({
        "universe": S.universes(min_size=4, max_size=8,
                                kinds=("ints", "strs", "range", "ints", "strs")),
        "weighted": st.booleans(),
        "ctor": st.booleans(),
        "edges": st.lists(node_lists, min_size=1, max_size=8 if tier == "quick" else 10),
        "removed": st.lists(node_lists, max_size=2),
        "again": st.lists(st.integers(0, 30), max_size=2),
        "isolated": st.lists(idx, max_size=2),
        # in one case out of three some hyperedges are (also) reached by shrinking e+{Z}
        "shrunk": st.integers(0, 2).flatmap(
            lambda i: st.just([]) if i else st.lists(st.integers(0, 30), min_size=1, max_size=3)),
    })


def container_cases(tier):
    spec = st.fixed_dictionaries({
        "ns": st.one_of(st.lists(idx, min_size=1, max_size=3, unique=True),
                        st.lists(idx, min_size=2, max_size=5, unique=True)),
        "x": st.integers(0, 9), "flip": st.booleans(),
    })
    return st.fixed_dictionaries({
        "kind": st.sampled_from(["directed", "temporal", "multiplex"]),
        "universe": S.universes(min_size=3, max_size=8, kinds=("ints", "strs", "range")),
        "weighted": st.booleans(),
        "edges": st.lists(spec, min_size=1, max_size=8 if tier == "quick" else 10),
        "removed": st.lists(spec, max_size=2),
        "isolated": st.lists(idx, max_size=2),
    })


_RULE = ("hyperedges of at least two different sizes and some size filter k >= 2 with a hyperedge of "
         "that size under which the node set splits into >= 2 classes, a different number than "
         "without filter")

CLAUSES = [
    Clause("degree", hypergraph_cases, check_degree, quick=300, thorough=2000, shards_quick=2,
           rule=_RULE),
    Clause("components", hypergraph_cases, check_components, quick=300, thorough=2000,
           shards_quick=2, rule=_RULE),
    Clause("node_component", hypergraph_cases, check_node_component, quick=300, thorough=2000,
           shards_quick=2, rule=_RULE),
    Clause("num_components", hypergraph_cases, check_num_components, quick=300, thorough=2000,
           shards_quick=2, rule=_RULE),
    Clause("largest_component", hypergraph_cases, check_largest, quick=300, thorough=2000,
           shards_quick=2, rule=_RULE),
    Clause("isolated", hypergraph_cases, check_isolated, quick=300, thorough=2000,
           shards_quick=2, rule=_RULE),
    Clause("containers", container_cases, check_containers, quick=400, thorough=2000,
           shards_quick=2,
           rule="records of at least two different sizes; the same node set in several records "
                "(times / layers) or a directed hypergraph"),
]
