"""C08 -- degrees and connected components equal their combinatorial definitions.

A hypergraph is built from a drawn list of node sets (plus isolated nodes,
hyperedges that are inserted and removed again, hyperedges inserted twice).
The oracle works on the abstract family of node sets only: degree = number of
distinct filtered hyperedges containing the node, components = union-find
classes over the filtered hyperedges.  Every wrapper is asked through the
method *and* the module-level function under every order/size filter
(sizes 1..6, size 6 is always absent) and without filter.  Afterwards the same
object is changed once (a hyperedge removed or inserted, an isolated node added
or removed), the abstract family follows, and the wrappers are asked again
without filter and under one size/order filter: an answer memoised by the
library must not survive the change.
"""

from collections import Counter

from hypothesis import strategies as st

from .. import strategies as S
from ..common import dedupe, permuted
from ..engine import Clause, Violation, require
from ..oracles.partition import components
from ..common import with_history  # noqa: E402

ASSUMPTIONS = [
    "oracle = union-find over the filtered node sets of the case (hgxverif/oracles/partition.py) "
    "and plain counting; it never asks the library which hyperedges exist",
    "a filter is none, size=k or order=k-1 for k in 1..6; all 13 are asked in every case, always by "
    "keyword (positional order/size arguments differ between methods and functions and are not used)",
    "largest_component: any component of maximum size is accepted",
    "hypergraphs have at least one node (largest component / connectedness of nothing is unspecified); "
    "a hypergraph without any hyperedge (isolated nodes only) is inside the domain",
    "the in-check mutation (remove_edge / add_edge / add_node / remove_node of a node without hyperedge) "
    "is trusted to change the content as documented (C01-C04 check that); only the answers of the "
    "degree / component wrappers after it are asserted",
    "container histories: remove_node(n) takes the records containing n away; "
    "remove_node(Z, keep_edges=True) only in the form 'e+{Z} inserted at a time/layer where e is "
    "absent, unweighted, no metadata' (an emptied record or a merge into an existing record is "
    "unspecified and never generated; never on DirectedHypergraph); weighted constructor batches "
    "list pairwise different node sets (a weighted batch repeating a node set is refused by the "
    "classes, outside C08)",
    "listing order of components and of nodes inside a component is never asserted; a component "
    "may be returned as any iterable of distinct nodes",
    "directed hyperedges have disjoint non-empty source and target and are filtered on "
    "|source|+|target|; temporal and multiplex degrees count records (time / layer copies count "
    "separately) and are filtered on the number of nodes",
]

K_RANGE = list(range(1, 7))
FILTERS = [None] + [("size", k) for k in K_RANGE] + [("order", k - 1) for k in K_RANGE]


def fkw(f):
    return {} if f is None else {f[0]: f[1]}


def fsize(f):
    if f is None:
        return None
    return f[1] if f[0] == "size" else f[1] + 1


def fdesc(f):
    return "" if f is None else "%s=%d" % f


def _labels(ns, U):
    return dedupe([U[i % len(U)] for i in ns])


# ---------------------------------------------------------------------------
# building


WARM_FILTERS = ({}, {"size": 2}, {"order": 2}, {"size": 1})


def _warmup(h):
    """Ask every query family the clauses assert once -- through the module-level function and
    through the method -- without filter, under size=2, order=2 and size=1; results discarded."""
    import importlib
    cc = importlib.import_module("hypergraphx.utils.cc")
    deg = importlib.import_module("hypergraphx.measures.degree")
    for kw in WARM_FILTERS:
        deg.degree_sequence(h, **kw)
        h.degree_sequence(**kw)
        deg.degree_distribution(h, **kw)
        h.degree_distribution(**kw)
        for name in ("connected_components", "num_connected_components", "largest_component",
                     "largest_component_size", "isolated_nodes", "is_connected"):
            getattr(cc, name)(h, **kw)
            getattr(h, name)(**kw)
        for n in h.get_nodes():
            cc.node_connected_component(h, n, **kw)
            h.node_connected_component(n, **kw)
            cc.is_isolated(h, n, **kw)
            h.is_isolated(n, **kw)
            deg.degree(h, n, **kw)
            h.degree(n, **kw)


def _warmup_container(h):
    """Degrees of a Directed/Temporal/Multiplex object asked once; results discarded."""
    import importlib
    deg = importlib.import_module("hypergraphx.measures.degree")
    for kw in WARM_FILTERS:
        deg.degree_sequence(h, **kw)
        h.degree_sequence(**kw)
        deg.degree_distribution(h, **kw)
        if hasattr(h, "degree_distribution"):
            h.degree_distribution(**kw)
        for n in h.get_nodes():
            deg.degree(h, n, **kw)
            h.degree(n, **kw)


def _spare(case):
    """A label of the kind of the universe that is not in the universe (None if there is none)."""
    U = case["universe"]["labels"]
    kind = case["universe"]["kind"]
    pool = {"range": list(range(len(U), len(U) + 3)), "ints": S.INT_POOL, "strs": S.STR_POOL,
            "floats": S.FLOAT_POOL + [9.5]}[kind]
    return next((x for x in pool if x not in U), None)


@with_history(warmup=_warmup)
def build_hypergraph(case):
    """Returns (Hypergraph, node list, set of frozenset hyperedges, trace)."""
    from hypergraphx import Hypergraph
    U = case["universe"]["labels"]
    weighted = case["weighted"]
    edges = dedupe([_labels(ns, U) for ns in case["edges"]])
    seen, recs = set(), []
    for e in edges:
        if frozenset(e) not in seen:
            seen.add(frozenset(e))
            recs.append(e)
    trace = []
    if case["ctor"] and recs:
        kw = {"edge_list": [tuple(e) for e in recs], "weighted": weighted}
        if weighted:
            kw["weights"] = [(3 * i) % 7 + 1 for i in range(len(recs))]
        h = Hypergraph(**kw)
        trace.append("Hypergraph(%r)" % (kw,))
    else:
        h = Hypergraph(weighted=weighted)
        trace.append("Hypergraph(weighted=%r)" % weighted)
        if len(recs) % 2:
            # the nodes are declared first, in ONE bulk call, and get their hyperedges later
            # (per-node tables created by the bulk call must be independent of each other)
            first = dedupe([n for e in recs for n in e] + [U[i % len(U)] for i in case["isolated"]])
            h.add_nodes(list(first))
            trace.append("add_nodes(%r)" % (list(first),))
        for e in recs:
            h.add_edge(tuple(e), **({"weight": 2} if weighted else {}))
            trace.append("add_edge(%r)" % (tuple(e),))
    nodes = set()
    for e in recs:
        nodes |= set(e)
    # hyperedges that come and go (their nodes stay)
    for ns in case["removed"]:
        e = _labels(ns, U)
        if frozenset(e) in seen:
            continue
        h.add_edge(tuple(e), **({"weight": 5} if weighted else {}))
        h.remove_edge(tuple(reversed(e)))
        nodes |= set(e)
        trace.append("add_edge+remove_edge(%r)" % (tuple(e),))
    # a hyperedge inserted again is still one hyperedge
    for p in case["again"]:
        if recs:
            e = permuted(recs[p % len(recs)], p)
            h.add_edge(tuple(e), **({"weight": 1} if weighted else {}))
            trace.append("add_edge(%r) again" % (tuple(e),))
    # hyperedges that (also) reach their node set through a keep_edges=True node removal:
    # e + {Z} is inserted next to e, then Z is removed and the shrunk hyperedge merges into e
    shr = case.get("shrunk") or []
    if shr and recs:
        Z = _spare(case)
        if Z is not None:
            for p in shr:
                e = recs[p % len(recs)]
                h.add_edge(tuple(e) + (Z,), **({"weight": 4} if weighted else {}))
                trace.append("add_edge(%r)" % (tuple(e) + (Z,),))
            h.remove_node(Z, keep_edges=True)
            trace.append("remove_node(%r, keep_edges=True)" % (Z,))
    for i in case["isolated"]:
        n = U[i % len(U)]
        h.add_node(n)
        nodes.add(n)
        trace.append("add_node(%r)" % (n,))
    if recs and len(case["isolated"]) % 2:
        # a node that already belongs to hyperedges is declared again, now WITH metadata
        # (nothing about its hyperedges may change)
        n = sorted(set(recs[0]), key=repr)[0]
        h.add_node(n, metadata={"role": "hub"})
        trace.append("add_node(%r, metadata={'role': 'hub'})" % (n,))
    return h, sorted(nodes), seen, trace


def _filtered(edge_sets, f, size_of=len):
    k = fsize(f)
    return [e for e in edge_sets if k is None or size_of(e) == k]


def _classify(case, ctx, nodes, E):
    sizes = {len(e) for e in E}
    ctx.label("labels:" + case["universe"]["kind"])
    ctx.label("sizes:%s" % ("none" if not sizes else "uniform" if len(sizes) == 1 else "mixed"))
    if any(len(e) == 1 for e in E):
        ctx.label("has-singleton-edge")
    covered = set()
    for e in E:
        covered |= e
    if set(nodes) - covered:
        ctx.label("has-isolated-node")
    n0 = len(components(nodes, E))
    differs = False
    for f in FILTERS[1:7]:
        nf = len(components(nodes, _filtered(E, f)))
        if nf >= 2 and nf != n0 and _filtered(E, f) and fsize(f) > 1:
            differs = True
    if differs:
        ctx.label("filter-changes-partition")
    ctx.label("components:%s" % ("1" if n0 == 1 else "2+"))
    return len(sizes) > 1 and differs


def _as_set(x, what):
    xs = list(x)
    s = set(xs)
    require(len(s) == len(xs), lambda: "%s lists a node twice: %r" % (what, xs), key="repeat")
    return frozenset(s)


def _must_raise_both(fn, what):
    """order and size given together: the statement is silent; the library refuses the pair
    (ValueError, documented for get_neighbors).  Refusing it or answering the -- consistent --
    pair like size=2 alone are both accepted; any other answer is not an answer to the filter."""
    try:
        got = fn(order=1, size=2)
    except (ValueError, TypeError):
        return
    want = fn(size=2)
    same = (sorted(map(repr, got)) == sorted(map(repr, want))
            if isinstance(got, (list, tuple, set, frozenset)) and not isinstance(want, dict)
            else got == want)
    if not same:
        raise Violation("%s(order=1, size=2) neither raises ValueError nor answers like size=2: "
                        "%r vs %r" % (what, got, want), key="no-rejection")


def _variants(h, name, module):
    """(description, callable(**filter kwargs)) for the method and the module-level function."""
    import importlib
    fn = getattr(importlib.import_module(module), name)
    return [
        ("Hypergraph.%s" % name, lambda *a, **kw: getattr(h, name)(*a, **kw)),
        ("%s.%s" % (module.split(".", 1)[1], name), lambda *a, **kw: fn(h, *a, **kw)),
    ]


CC = "hypergraphx.utils.cc"
DEG = "hypergraphx.measures.degree"


def _same_nodes(h, nodes, trace):
    got_nodes = Counter(h.get_nodes())
    require(got_nodes == Counter(nodes),
            lambda: "get_nodes() = %r, the history %r produces nodes %r"
            % (dict(got_nodes), trace, sorted(nodes)), key="source-content")


def _prep(case, ctx):
    h, nodes, E, trace = build_hypergraph(case)
    ctx.trace = trace
    nt = _classify(case, ctx, nodes, E)
    if not E:
        ctx.label("no_hyperedges")
    _same_nodes(h, nodes, trace)
    return h, nodes, E, trace, nt


def _mutate(h, case, nodes, E, trace, ctx):
    """ONE drawn change of the object that was just queried; the abstract family follows.
    Returns (nodes, hyperedges, filters to ask again) or None (case without a mutation part)."""
    m = case.get("mutate")
    if not m:
        return None
    U = case["universe"]["labels"]
    wkw = {"weight": 3} if case["weighted"] else {}
    nodes, E = set(nodes), set(E)
    covered = set()
    for e in E:
        covered |= e
    lonely = sorted(nodes - covered)
    op = m["op"]
    z = _spare(case)
    if op == "remove_node" and not (lonely and len(nodes) >= 2):
        op = "add_node"
    if op == "add_node" and (z is None or z in nodes):
        op = "toggle"
    if op == "remove_edge" and not E:
        op = "toggle"
    k = m["k"]
    if op == "add_node":
        h.add_node(z)
        nodes.add(z)
        step = "add_node(%r)" % (z,)
    elif op == "remove_node":
        n = lonely[m["pick"] % len(lonely)]
        h.remove_node(n)
        nodes.discard(n)
        step = "remove_node(%r)" % (n,)
    else:
        if op == "remove_edge":
            es = sorted(E, key=sorted)
            e = permuted(sorted(es[m["pick"] % len(es)]), m["pick"])
        else:
            e = _labels(m["ns"], U)
        k = len(e)
        if frozenset(e) in E:
            h.remove_edge(tuple(e))
            E.discard(frozenset(e))
            op, step = "remove_edge", "remove_edge(%r)" % (tuple(e),)
        else:
            h.add_edge(tuple(e), **wkw)
            E.add(frozenset(e))
            nodes |= set(e)
            op, step = "add_edge", "add_edge(%r)" % (tuple(e),)
    ctx.label("mutate:" + op)
    trace.append("then (after all queries were asked once): " + step)
    nodes = sorted(nodes)
    _same_nodes(h, nodes, trace)
    return nodes, E, [None, ("order", k - 1) if m["as_order"] else ("size", k)]


def _clause(assert_fn, rejections):
    """check(case, ctx): assert under all 13 filters, the order+size pair, then change the object
    once and assert again without filter and under one filter."""
    def check(case, ctx):
        h, nodes, E, trace, nt = _prep(case, ctx)
        assert_fn(h, nodes, E, trace, FILTERS)
        rejections(h, nodes)
        after = _mutate(h, case, nodes, E, trace, ctx)
        if after is not None:
            assert_fn(h, after[0], after[1], trace, after[2])
        ctx.nontrivial(nt)
    return check


# ---------------------------------------------------------------------------
# clauses on Hypergraph


def _assert_degree(h, nodes, E, trace, filters):
    for f in filters:
        FE = _filtered(E, f)
        exp = {n: sum(1 for e in FE if n in e) for n in nodes}
        total = sum(len(e) for e in FE)
        for what, fn in _variants(h, "degree", DEG):
            for n in nodes:
                got = fn(n, **fkw(f))
                require(got == exp[n], lambda: "%s(%r%s) = %r, but %d of the hyperedges %s contain it "
                        "(history %r)" % (what, n, ", " + fdesc(f) if f else "", got, exp[n],
                                          _show(FE), trace), key="degree")
        for what, fn in _variants(h, "degree_sequence", DEG):
            got = dict(fn(**fkw(f)))
            require(got == exp, lambda: "%s(%s) = %r, expected %r (history %r)"
                    % (what, fdesc(f), got, exp, trace), key="degree_sequence")
            require(sum(got.values()) == total,
                    lambda: "%s(%s) sums to %d, the hyperedges have total size %d"
                    % (what, fdesc(f), sum(got.values()), total), key="degree-sum")
        hist = dict(Counter(exp.values()))
        for what, fn in _variants(h, "degree_distribution", DEG):
            got = dict(fn(**fkw(f)))
            require(got == hist, lambda: "%s(%s) = %r, expected %r (degrees %r, history %r)"
                    % (what, fdesc(f), got, hist, exp, trace), key="degree_distribution")


def _reject_degree(h, nodes):
    for name in ("degree_sequence", "degree_distribution"):
        for what, fn in _variants(h, name, DEG):
            _must_raise_both(fn, what)
    for what, fn in _variants(h, "degree", DEG):
        _must_raise_both(lambda **kw: fn(nodes[0], **kw), what)


check_degree = _clause(_assert_degree, _reject_degree)


def _show(FE):
    return sorted(tuple(sorted(e)) for e in FE)


def _partition_msg(what, f, got, exp, FE, trace):
    return ("%s(%s) = %r, the reachability classes of the hyperedges %s are %r (history %r)"
            % (what, fdesc(f), sorted(sorted(c) for c in got), _show(FE),
               sorted(sorted(c) for c in exp), trace))


def _assert_components(h, nodes, E, trace, filters):
    for f in filters:
        FE = _filtered(E, f)
        exp = Counter(components(nodes, FE))
        for what, fn in _variants(h, "connected_components", CC):
            got = Counter(_as_set(c, what) for c in fn(**fkw(f)))
            require(got == exp, lambda: _partition_msg(what, f, got, exp, FE, trace),
                    key="connected_components")
        for what, fn in _variants(h, "is_connected", CC):
            got = fn(**fkw(f))
            require(got is (len(exp) == 1) or got == (len(exp) == 1),
                    lambda: "%s(%s) = %r with %d component(s) %r (history %r)"
                    % (what, fdesc(f), got, len(exp), sorted(sorted(c) for c in exp), trace),
                    key="is_connected")


def _reject_components(h, nodes):
    for name in ("connected_components", "is_connected"):
        for what, fn in _variants(h, name, CC):
            _must_raise_both(fn, what)


check_components = _clause(_assert_components, _reject_components)


def _assert_node_component(h, nodes, E, trace, filters):
    for f in filters:
        FE = _filtered(E, f)
        comps = components(nodes, FE)
        of = {n: c for c in comps for n in c}
        for what, fn in _variants(h, "node_connected_component", CC):
            for n in nodes:
                got = _as_set(fn(n, **fkw(f)), what)
                require(got == of[n], lambda: "%s(%r%s) = %r, the class of the node under the "
                        "hyperedges %s is %r (history %r)"
                        % (what, n, ", " + fdesc(f) if f else "", sorted(got), _show(FE),
                           sorted(of[n]), trace), key="node_connected_component")


def _reject_node_component(h, nodes):
    for what, fn in _variants(h, "node_connected_component", CC):
        _must_raise_both(lambda **kw: fn(nodes[0], **kw), what)


check_node_component = _clause(_assert_node_component, _reject_node_component)


def _assert_num_components(h, nodes, E, trace, filters):
    for f in filters:
        FE = _filtered(E, f)
        exp = len(components(nodes, FE))
        for what, fn in _variants(h, "num_connected_components", CC):
            got = fn(**fkw(f))
            require(got == exp, lambda: "%s(%s) = %r, the hyperedges %s split the %d nodes into %d "
                    "classes (history %r)" % (what, fdesc(f), got, _show(FE), len(nodes), exp, trace),
                    key="num_connected_components")


def _reject_num_components(h, nodes):
    for what, fn in _variants(h, "num_connected_components", CC):
        _must_raise_both(fn, what)


check_num_components = _clause(_assert_num_components, _reject_num_components)


def _assert_largest(h, nodes, E, trace, filters):
    for f in filters:
        FE = _filtered(E, f)
        comps = components(nodes, FE)
        top = max(len(c) for c in comps)
        best = [c for c in comps if len(c) == top]
        for what, fn in _variants(h, "largest_component", CC):
            got = _as_set(fn(**fkw(f)), what)
            require(got in best, lambda: "%s(%s) = %r, the largest class(es) under the hyperedges "
                    "%s: %r (history %r)" % (what, fdesc(f), sorted(got), _show(FE),
                                             sorted(sorted(c) for c in best), trace),
                    key="largest_component")
        for what, fn in _variants(h, "largest_component_size", CC):
            got = fn(**fkw(f))
            require(got == top, lambda: "%s(%s) = %r, the largest class under the hyperedges %s "
                    "has %d nodes (history %r)" % (what, fdesc(f), got, _show(FE), top, trace),
                    key="largest_component_size")


def _reject_largest(h, nodes):
    for name in ("largest_component", "largest_component_size"):
        for what, fn in _variants(h, name, CC):
            _must_raise_both(fn, what)


check_largest = _clause(_assert_largest, _reject_largest)


def _assert_isolated(h, nodes, E, trace, filters):
    for f in filters:
        FE = _filtered(E, f)
        comps = components(nodes, FE)
        # isolated = alone in its class = in no filtered hyperedge of size >= 2
        exp = {n for c in comps if len(c) == 1 for n in c}
        alt = {n for n in nodes if not any(n in e and len(e) >= 2 for e in FE)}
        assert exp == alt
        for what, fn in _variants(h, "isolated_nodes", CC):
            got = _as_set(fn(**fkw(f)), what)
            require(got == exp, lambda: "%s(%s) = %r, the nodes without a hyperedge of size >= 2 "
                    "among %s are %r (history %r)" % (what, fdesc(f), sorted(got), _show(FE),
                                                      sorted(exp), trace), key="isolated_nodes")
        for what, fn in _variants(h, "is_isolated", CC):
            for n in nodes:
                got = fn(n, **fkw(f))
                require(got == (n in exp), lambda: "%s(%r%s) = %r, expected %r (hyperedges %s, "
                        "history %r)" % (what, n, ", " + fdesc(f) if f else "", got, n in exp,
                                         _show(FE), trace), key="is_isolated")


def _reject_isolated(h, nodes):
    for what, fn in _variants(h, "isolated_nodes", CC):
        _must_raise_both(fn, what)
    for what, fn in _variants(h, "is_isolated", CC):
        _must_raise_both(lambda **kw: fn(nodes[0], **kw), what)


check_isolated = _clause(_assert_isolated, _reject_isolated)


# ---------------------------------------------------------------------------
# degrees of the other three containers

LAYERS = ["L1", "l2", "A"]


def _resolve(kind, spec, U):
    """spec -> (record key, add_edge arguments, node frozenset) or None (not a directed pair)."""
    labs = _labels(spec["ns"], U)
    if kind == "directed":
        if len(labs) < 2:
            return None
        cut = 1 + spec["x"] % (len(labs) - 1)
        s, t = labs[:cut], labs[cut:]
        if spec["flip"]:
            s, t = t, s
        return (frozenset(s), frozenset(t)), ((tuple(s), tuple(t)),), frozenset(labs)
    if kind == "temporal":
        t = spec["x"] % 5
        return (t, frozenset(labs)), (tuple(labs), t), frozenset(labs)
    layer = LAYERS[spec["x"] % len(LAYERS)]
    return (frozenset(labs), layer), (tuple(labs), layer), frozenset(labs)


def _remove_record(h, kind, args):
    if kind == "directed":
        h.remove_edge(args[0])
    elif kind == "temporal":
        h.remove_edge(args[0], args[1])
    else:
        h.remove_edge((args[0], args[1]))


@with_history(warmup=_warmup_container)
def build_container(case):
    """Returns (object, nodes, {record key: node frozenset}, trace)."""
    from hypergraphx import DirectedHypergraph, MultiplexHypergraph, TemporalHypergraph
    U = case["universe"]["labels"]
    kind = case["kind"]
    weighted = case["weighted"]
    wkw = {"weight": 2} if weighted else {}
    records = {}   # record key -> frozenset of nodes
    trace = []
    nodes = set()
    specs = [r for r in (_resolve(kind, spec, U) for spec in case["edges"]) if r is not None]
    ctor = case.get("ctor", 0) if kind != "directed" else 0
    batch = []
    if ctor:
        # constructor path: edge_list with time_list / edge_layer (1) or embedded pairs (2).
        # weighted batches list pairwise different node sets (see ASSUMPTIONS)
        seen = set()
        rest = []
        for r in specs:
            if weighted and r[2] in seen:
                rest.append(r)
            else:
                seen.add(r[2])
                batch.append(r)
        specs = rest
    cls = {"directed": DirectedHypergraph, "temporal": TemporalHypergraph,
           "multiplex": MultiplexHypergraph}[kind]
    if batch:
        es = [r[1][0] for r in batch]
        xs = [r[1][1] for r in batch]
        kw = {"weighted": weighted}
        if weighted:
            kw["weights"] = [(3 * i) % 7 + 1 for i in range(len(batch))]
        if ctor == 1:
            kw["edge_list"] = es
            kw["time_list" if kind == "temporal" else "edge_layer"] = xs
        elif kind == "temporal":
            kw["edge_list"] = [(x, e) for e, x in zip(es, xs)]
        else:
            kw["edge_list"] = [(e, x) for e, x in zip(es, xs)]
        h = cls(**kw)
        trace.append("%s(%r)" % (cls.__name__, kw))
        for key, args, ns in batch:
            records[key] = ns
            nodes |= ns
    else:
        h = cls(weighted=weighted)
        trace.append("%s(weighted=%r)" % (cls.__name__, weighted))

    for key, args, ns in specs:
        h.add_edge(*args, **wkw)      # a repeated record is still one record
        records[key] = ns
        nodes |= ns
        trace.append("add_edge%r" % (args,))
    for spec in case["removed"]:
        r = _resolve(kind, spec, U)
        if r is None or r[0] in records:
            continue
        key, args, ns = r
        h.add_edge(*args, **wkw)
        _remove_record(h, kind, args)
        nodes |= ns
        trace.append("add_edge+remove_edge%r" % (args,))
    # records that reach their node set through remove_node(Z, keep_edges=True): e+{Z} is
    # inserted at a time / layer where e is absent (safe form only, see ASSUMPTIONS)
    Z = _spare(case)
    if kind != "directed" and not weighted and Z is not None:
        grown = False
        for spec in case.get("shrunk") or []:
            key, args, ns = _resolve(kind, spec, U)
            if key in records:
                continue
            h.add_edge(args[0] + (Z,), args[1])
            trace.append("add_edge%r" % ((args[0] + (Z,), args[1]),))
            records[key] = ns
            nodes |= ns
            grown = True
        if grown:
            h.remove_node(Z, keep_edges=True)
            trace.append("remove_node(%r, keep_edges=True)" % (Z,))
    # node removals take the incident records away
    for i in case.get("dropped") or []:
        n = U[i % len(U)]
        if n not in nodes or (records and all(n in ns for ns in records.values())):
            continue      # (a removal that would leave no record at all is skipped)
        h.remove_node(n)
        nodes.discard(n)
        gone = [k for k, ns in records.items() if n in ns]
        for k in gone:
            del records[k]
        trace.append("remove_node(%r)  [takes %d record(s) away]" % (n, len(gone)))
    for i in case["isolated"]:
        n = U[i % len(U)]
        h.add_node(n)
        nodes.add(n)
        trace.append("add_node(%r)" % (n,))
    return h, sorted(nodes), records, trace


def _assert_container_degrees(h, kind, nodes, R, trace, filters):
    import hypergraphx.measures.degree as D
    cname = type(h).__name__
    for f in filters:
        k = fsize(f)
        FR = [ns for ns in R if k is None or len(ns) == k]
        exp = {n: sum(1 for ns in FR if n in ns) for n in nodes}
        total = sum(len(ns) for ns in FR)
        variants = [("%s.degree" % cname, lambda n, **kw: h.degree(n, **kw)),
                    ("measures.degree.degree", lambda n, **kw: D.degree(h, n, **kw))]
        for what, fn in variants:
            for n in nodes:
                got = fn(n, **fkw(f))
                require(got == exp[n], lambda: "%s(%r%s) = %r, but %d of the records %s contain "
                        "the node (history %r)" % (what, n, ", " + fdesc(f) if f else "", got,
                                                   exp[n], _show(FR), trace), key="degree:" + kind)
        variants = [("%s.degree_sequence" % cname, lambda **kw: h.degree_sequence(**kw)),
                    ("measures.degree.degree_sequence", lambda **kw: D.degree_sequence(h, **kw))]
        for what, fn in variants:
            got = dict(fn(**fkw(f)))
            require(got == exp, lambda: "%s(%s) = %r, expected %r (history %r)"
                    % (what, fdesc(f), got, exp, trace), key="degree_sequence:" + kind)
            require(sum(got.values()) == total,
                    lambda: "%s(%s) sums to %d, the records have total size %d"
                    % (what, fdesc(f), sum(got.values()), total), key="degree-sum:" + kind)
        hist = dict(Counter(exp.values()))
        variants = [("measures.degree.degree_distribution",
                     lambda **kw: D.degree_distribution(h, **kw))]
        if hasattr(h, "degree_distribution"):
            variants.append(("%s.degree_distribution" % cname,
                             lambda **kw: h.degree_distribution(**kw)))
        for what, fn in variants:
            got = dict(fn(**fkw(f)))
            require(got == hist, lambda: "%s(%s) = %r, expected %r (degrees %r, history %r)"
                    % (what, fdesc(f), got, hist, exp, trace),
                    key="degree_distribution:" + kind)


def _mutate_container(h, case, nodes, records, trace, ctx):
    """ONE drawn change after the degrees were asked: a record removed or a new one inserted
    (a drawn spec that is present is removed, an absent one inserted)."""
    m = case.get("mutate")
    if not m:
        return None
    kind = case["kind"]
    U = case["universe"]["labels"]
    nodes, records = set(nodes), dict(records)
    r = None
    if m["op"] == "remove_edge" and records:
        keys = sorted(records, key=lambda k: tuple(tuple(sorted(x)) if isinstance(x, frozenset)
                                                   else x for x in k))
        key = keys[m["pick"] % len(keys)]
        ns = records[key]
        if kind == "directed":
            args = ((tuple(sorted(key[0])), tuple(sorted(key[1]))),)
        elif kind == "temporal":
            args = (tuple(sorted(key[1])), key[0])
        else:
            args = (tuple(sorted(key[0])), key[1])
        r = key, args, ns
    else:
        r = _resolve(kind, m["spec"], U)
    if r is None:
        ctx.label("mutate:none")
        return None
    key, args, ns = r
    if key in records:
        _remove_record(h, kind, args)
        del records[key]
        ctx.label("mutate:remove_edge")
        trace.append("then (after all queries were asked once): remove_edge%r" % (args,))
    else:
        h.add_edge(*args, **({"weight": 3} if case["weighted"] else {}))
        records[key] = ns
        nodes |= ns
        ctx.label("mutate:add_edge")
        trace.append("then (after all queries were asked once): add_edge%r" % (args,))
    k = len(ns)
    return sorted(nodes), records, [None, ("order", k - 1) if m["as_order"] else ("size", k)]


def check_containers(case, ctx):
    import hypergraphx.measures.degree as D
    h, nodes, records, trace = build_container(case)
    ctx.trace = trace
    kind = case["kind"]
    cname = type(h).__name__
    ctx.label("kind:" + kind, "labels:" + case["universe"]["kind"])
    if any(t.startswith(cname + "(") and "edge_list" in t for t in trace):
        ctx.label("constructor-batch")
    if any("keep_edges=True" in t for t in trace):
        ctx.label("record-shrunk-by-remove_node")
    if any("record(s) away" in t and "[takes 0" not in t for t in trace):
        ctx.label("records-removed-with-node")

    def same_nodes(nodes):
        got_nodes = Counter(h.get_nodes())
        require(got_nodes == Counter(nodes),
                lambda: "%s.get_nodes() = %r, the history %r produces nodes %r"
                % (cname, dict(got_nodes), trace, nodes), key="source-content")

    same_nodes(nodes)

    def same_records(recs):
        # "the number of distinct hyperedges containing it": the hyperedges are those the
        # container LISTS -- they must be the abstract records (as node sets)
        listed = []
        for rec in h.get_edges():
            if kind == "directed":
                listed.append(frozenset(rec[0]) | frozenset(rec[1]))
            elif kind == "temporal":
                listed.append(frozenset(rec[1]))
            elif kind == "multiplex":
                listed.append(frozenset(rec[0]))
            else:
                listed.append(frozenset(rec))
        want = Counter(frozenset(ns) for ns in recs)
        require(Counter(listed) == want,
                lambda: "%s.get_edges() lists the node sets %r, the history %r produces %r"
                % (cname, sorted(map(sorted, listed)), trace, sorted(map(sorted, want.elements()))),
                key="source-content")

    same_records(records.values())
    if not nodes:
        return
    R = list(records.values())
    sizes = {len(ns) for ns in R}
    repeated_sets = len(set(R)) < len(R)
    if repeated_sets:
        ctx.label("same-node-set-in-several-records")
    ctx.label("sizes:%s" % ("none" if not sizes else "uniform" if len(sizes) == 1 else "mixed"))
    _assert_container_degrees(h, kind, nodes, R, trace, FILTERS)
    _must_raise_both(lambda **kw: h.degree(nodes[0], **kw), "%s.degree" % cname)
    _must_raise_both(lambda **kw: h.degree_sequence(**kw), "%s.degree_sequence" % cname)
    _must_raise_both(lambda **kw: D.degree_distribution(h, **kw),
                     "measures.degree.degree_distribution")
    after = _mutate_container(h, case, nodes, records, trace, ctx)
    if after is not None:
        same_nodes(after[0])
        same_records(after[1].values())
        _assert_container_degrees(h, kind, after[0], list(after[1].values()), trace, after[2])
    ctx.nontrivial(len(sizes) > 1 and (repeated_sets or kind == "directed"))


# ---------------------------------------------------------------------------
# generators

idx = st.integers(0, 7)
# small hyperedges dominate, otherwise everything is one component
node_lists = st.one_of(
    st.lists(idx, min_size=1, max_size=2, unique=True),
    st.lists(idx, min_size=2, max_size=3, unique=True),
    st.lists(idx, min_size=1, max_size=5, unique=True),
)


KINDS = ("ints", "strs", "range", "ints", "strs", "floats")

mutations = st.fixed_dictionaries({
    "op": st.sampled_from(["toggle", "remove_edge", "remove_edge", "add_node", "remove_node"]),
    "ns": node_lists, "pick": st.integers(0, 30), "k": st.integers(1, 3),
    "as_order": st.booleans(),
})


@st.composite
def hypergraph_cases(draw, tier):
    # no hyperedge at all in about one case out of sixteen; then an isolated node is mandatory
    lo = draw(st.sampled_from([0] + [1] * 15))
    edges = draw(st.lists(node_lists, min_size=lo, max_size=0 if lo == 0 else
                          (8 if tier == "quick" else 10)))
    removed = draw(st.lists(node_lists, max_size=2))
    return {
        "universe": draw(S.universes(min_size=4, max_size=8, kinds=KINDS)),
        "weighted": draw(st.booleans()),
        "ctor": draw(st.booleans()),
        "edges": edges,
        "removed": removed,
        "again": draw(st.lists(st.integers(0, 30), max_size=2)),
        "isolated": draw(st.lists(idx, min_size=0 if edges or removed else 1, max_size=2)),
        # in one case out of three some hyperedges are (also) reached by shrinking e+{Z}
        "shrunk": draw(st.integers(0, 2).flatmap(
            lambda i: st.just([]) if i else st.lists(st.integers(0, 30), min_size=1, max_size=3))),
        "mutate": draw(mutations),
    }


def container_cases(tier):
    spec = st.fixed_dictionaries({
        "ns": st.one_of(st.lists(idx, min_size=1, max_size=3, unique=True),
                        st.lists(idx, min_size=2, max_size=5, unique=True)),
        "x": st.integers(0, 9), "flip": st.booleans(),
    })
    return st.fixed_dictionaries({
        "kind": st.sampled_from(["directed", "temporal", "multiplex"]),
        "universe": S.universes(min_size=3, max_size=8, kinds=("ints", "strs", "range", "floats")),
        "weighted": st.booleans(),
        # Temporal / Multiplex: 0 = add_edge one by one, 1 = constructor with edge_list and
        # time_list / edge_layer, 2 = constructor with embedded (time, edge) / (edge, layer) pairs
        "ctor": st.sampled_from([0, 0, 1, 2]),
        "edges": st.lists(spec, min_size=1, max_size=8 if tier == "quick" else 10),
        "removed": st.lists(spec, max_size=2),
        "shrunk": st.sampled_from([0, 1]).flatmap(
            lambda i: st.lists(spec, min_size=1, max_size=2) if i else st.just([])),
        "dropped": st.sampled_from([0, 0, 0, 1, 2]).flatmap(
            lambda i: st.lists(idx, min_size=i, max_size=i)),
        "isolated": st.lists(idx, max_size=2),
        "mutate": st.fixed_dictionaries({
            "op": st.sampled_from(["remove_edge", "toggle"]), "spec": spec,
            "pick": st.integers(0, 30), "as_order": st.booleans()}),
    })


_RULE = ("hyperedges of at least two different sizes and some size filter k >= 2 with a hyperedge of "
         "that size under which the node set splits into >= 2 classes, a different number than "
         "without filter")

CLAUSES = [
    Clause("degree", hypergraph_cases, check_degree, quick=300, thorough=2000, shards_quick=2,
           rule=_RULE),
    Clause("components", hypergraph_cases, check_components, quick=300, thorough=2000,
           shards_quick=2, rule=_RULE),
    Clause("node_component", hypergraph_cases, check_node_component, quick=300, thorough=2000,
           shards_quick=2, rule=_RULE),
    Clause("num_components", hypergraph_cases, check_num_components, quick=300, thorough=2000,
           shards_quick=2, rule=_RULE),
    Clause("largest_component", hypergraph_cases, check_largest, quick=300, thorough=2000,
           shards_quick=2, rule=_RULE),
    Clause("isolated", hypergraph_cases, check_isolated, quick=300, thorough=2000,
           shards_quick=2, rule=_RULE),
    Clause("containers", container_cases, check_containers, quick=400, thorough=2000,
           shards_quick=2,
           rule="records of at least two different sizes; the same node set in several records "
                "(times / layers) or a directed hypergraph"),
]
