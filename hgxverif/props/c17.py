"""C17 -- Hypergraph-MT / HySC: valid reproducible output, EM ascends, likelihood = definition.

One clause per sub-claim.  Every clause draws a small Hypergraph (any comparable
labels, nodes inserted in a drawn order so that matrix row != insertion rank,
isolated nodes, hyperedge sizes 2..D, D <= 5, optional integer weights), a
configuration and a seed, runs the real ``fit`` with stdout captured and looks
only at what ``fit`` returns plus the public ``train_info`` table.

Row <-> node correspondence: ``hypergraph.get_mapping()`` (the public label
encoder the incidence matrices are built with).

Float tolerances (all stated here, see DESIGN 1.4 / C17):
  ROW_TOL   rows of u sum to 1 within K*min_value_par + 1e-6 when normalizeU
            (each of the K entries may be truncated to 0 below min_value_par after the
            normalisation; 1e-6 is far above the rounding of a K-term sum)
  ASC_TOL   L[t+1] >= L[t] - 1e-9 * (1 + |L[t]|)   (rounding of a sum of <= 50 terms)
  DEF_TOL   |maxL - L_def| <= 1e-8 * (1 + |log part| + |normalisation part|)
            (both parts are sums of <= 10 resp. K*(D-1) non-negative terms)
  exact ==  for the bookkeeping clause and the determinism clauses (same floats
            must come out of the same computation).

Guard events.  An add-only hook (module attributes ``GUARD_EVENTS`` / ``GUARD_LOG`` of
hypergraphx.communities.hypergraph_mt.model, active only under HGX_VERIF=1) records, in
order and separated by "realization_started" / "loglik_evaluated" markers, every firing of
the numerical guards of the EM routine.  They are used for *attribution* only:

  * mt_definition demands agreement of the returned likelihood with the definition in EVERY
    run (after the repair of _LogLikelihood no exclusion is needed);
  * mt_ascent demands L[t+1] >= L[t] for every pair of consecutive iterations of a realisation
    unless the known finding "psi-cancellation" (a subtractive update of psiOmega / psiBarOmega
    lost all relative accuracy at ROUNDING size) can explain a decrease there; see the guard
    policy (ROUNDING / GROSS / BENIGN_TOL / U_SMALL) below.  In short: demanded after no event,
    after psiBarOmega_zeroed events in a realisation with a random start, and after a GROSS
    negative (>= 1e-3) that the size of the memberships (<= 10) cannot explain; excluded by
    construction and counted (``ctx.exclude``) after psiOmega_zeroed and after psiBarOmega_zeroed
    in the spectral-start realisation; decreases seen in the excluded part are labelled
    ``known:descent_after_precision_loss`` and raised under the known key.
    Every case is labelled with the share of its comparisons that is demanded
    (``demanded<20%`` ... ``demanded>=80%``; ``demanded_with_no_guard_event...`` for the event-free
    share): a run whose cases sit mostly in ``demanded<20%`` checks next to nothing.
  * mt_ascent additionally reads the largest membership after every EM iteration from the
    guarded hook (GUARD_UMAX, one number per 'em_iteration_done' marker; needed for the U_SMALL
    precondition; on a tree whose hook lacks it the policy falls back to excusing, label
    ``no_umax_probe``).
"""

import os
import math
import random
from fractions import Fraction

import numpy as np
import threadpoolctl
from hypothesis import strategies as st

from ..engine import HarnessError, Clause, Violation, require
from ..strategies import seeds, universes
from ..common import with_history  # noqa: E402

ASSUMPTIONS = [
    "row i of u / of the HySC matrix belongs to the node hypergraph.get_mapping() sends to i "
    "(public label encoder; C09 checks the incidence matrices built with it)",
    "K in {2,3} (thorough: up to 4) and at least K nodes belong to a hyperedge (k-means of the "
    "spectral start and of HySC needs K samples; HypergraphMT with baseline_r0=False is also run "
    "with more communities than such nodes, see below); hyperedge sizes 2..D, D <= 5 (size-1 hyperedges are outside "
    "the model: w has one row per size 2..D); positive weights (integers, sometimes non-integers)",
    "max_iter 1..40, n_realizations 1..3, check_convergence_every=1 so that train_info lists "
    "every iteration; tolerance/threshold_for_convergence at their defaults",
    "definition of the log-likelihood: sum_e A_e log sum_k w[|e|-2,k] prod_{i in e} u[i,k] "
    "- sum_{d=2..D} sum_k w[d-2,k] e_d(u[:,k]), e_d = elementary symmetric polynomial over all "
    "nodes, computed with exact rational arithmetic from the returned floats; the library adds "
    "1e-20 to u inside the logarithm (and 1e-300 to the sum over communities): the oracle accepts "
    "any value between the definition with and without that regularisation (+- DEF_TOL); cases "
    "where a hyperedge has probability 0 at "
    "the returned parameters (definition = -inf) are excluded and counted",
    "tolerances: ROW_TOL = K*min_value_par + 1e-6; ASC_TOL = 1e-9*(1+|L|); "
    "DEF_TOL = 1e-8*(1+|log part|+|normalisation part|); everything else exact",
    "rows of nodes that belong to a hyperedge must be non-zero (and sum to 1) when normalizeU=True "
    "(fit docstring: every row sums to 1); for normalizeU=False a zero row of such a node is "
    "only classified (the statement asks for zero rows of isolated nodes, not the converse)",
    "ascent is demanded for normalizeU=False and min_value_par in {1e-5, 0} at ASC_TOL for every "
    "pair of consecutive iterations (i) with no precision-loss guard event of the realisation so "
    "far, (ii) after psiBarOmega_zeroed events only in a realisation with a random start "
    "(baseline_r0=False or realisation >= 1; a decrease between ASC_TOL and BENIGN_TOL = "
    "1e-6*(1+|L|) goes to the known key, a larger one is a violation), (iii) after a "
    "psiBarOmega_negative_skip / psiOmega_flipped event (negative of magnitude >= 1e-3) that fired "
    "while every membership of the realisation so far was <= 10 (with N <= 9, D <= 5 the "
    "polynomials are <= 1.3e7 and rounding cannot reach 1e-3: not the known finding); the other "
    "pairs (after psiOmega_zeroed; after psiBarOmega_zeroed in the spectral-start realisation; "
    "after a gross event with memberships above 10) are the known finding psi-cancellation, "
    "excluded by construction and counted; truncation at min_value_par and the clip at "
    "max_value_par excuse nothing",
    "calibration of (ii)/(iii) on the unchanged tree, 63000 mt_ascent cases (quick seeds 1..6, "
    "thorough seeds 1..3): no gross event at all; after psiBarOmega_zeroed only, random start: "
    "450947 comparisons in 40884 cases, largest relative decrease 4.6e-15 (no event at all: "
    "1.7e-15); spectral start: 98157 comparisons, 74 decreases of relative size 1e-9 .. 7.8; "
    "after psiOmega_zeroed: 106069 comparisons, 335 decreases up to 98",
    "the largest membership per EM iteration comes from the guarded hook (GUARD_UMAX; rows are "
    "assigned at most once per iteration, start rows are normalised); guard events are "
    "attributed to iterations by the hook's end-of-iteration marker, independently of how often "
    "the likelihood is evaluated; without that part of the hook gross events excuse as before",
    "K > number of nodes in a hyperedge (up to K = 6) is generated for baseline_r0=False only "
    "(K <= covered nodes is the k-means precondition of the spectral start)",
    "stdout of the library (verbose=True in a fraction of the cases, unconditional prints of "
    "_update_psiOmega) is captured by the engine and never inspected",
]

MT = "hypergraphx.communities.hypergraph_mt.model"


# --------------------------------------------------------------------------
# generators


@st.composite
def hypergraph_cases(draw, tier):
    big = tier != "quick"
    U = draw(universes(min_size=4, max_size=9 if big else 8,
                       kinds=("ints", "strs", "range", "floats")))
    labels = U["labels"]
    n = len(labels)
    # hyperedges live on the first m labels (in the drawn label order, which is neither the
    # sorted nor the row order); with all_nodes the other labels become isolated nodes
    m = draw(st.integers(max(2, n - 3), n))
    D = min(m, draw(st.sampled_from([2, 3, 3, 4, 4, 5, 5])))
    n_edges = draw(st.integers(1, 10 if big else 8))
    edges, seen = [], set()
    for _ in range(n_edges):
        size = draw(st.sampled_from(list(range(2, D + 1)) + [D]))
        e = draw(st.lists(st.integers(0, m - 1), min_size=size, max_size=size, unique=True))
        if frozenset(e) not in seen:
            seen.add(frozenset(e))
            edges.append(e)
    if draw(st.sampled_from([True, False])):
        # positive real weights: integers mostly, sometimes non-integers
        pool = st.integers(1, 9) if draw(st.integers(0, 2)) else st.sampled_from([0.5, 1, 2.25, 7])
        weights = draw(st.lists(pool, min_size=len(edges), max_size=len(edges)))
    else:
        weights = None
    covered = len({i for e in edges for i in e})
    all_nodes = draw(st.sampled_from([True, True, False]))
    kmax = min(4 if big else 3, covered)
    K = draw(st.sampled_from([k for k in (2, 2, 3, 3, 4) if k <= kmax]))
    return {"kind": U["kind"], "labels": labels, "edges": edges, "weights": weights,
            "all_nodes": all_nodes, "K": K}


K_OVER_MAX = 6  # largest K drawn for the "K > covered nodes" family (cost only)


@st.composite
def mt_cases(draw, tier, normalizeU=None, min_value_par=None, n_real=(1, 3), ascent=False,
             window=False):
    c = draw(hypergraph_cases(tier))
    c["seed"] = draw(seeds)
    c["n_real"] = draw(st.sampled_from(list(range(n_real[0], n_real[1] + 1))))
    c["max_iter"] = draw(st.integers(3, 40)) if ascent else draw(st.integers(1, 40))
    if window and draw(st.booleans()):
        # realisations converge after 17..28 iterations (measured: median 17, 95 % below 29):
        # with max_iter inside that window some realisations of one fit converge and others
        # are cut off -- the best one must win whichever kind it is
        c["max_iter"] = draw(st.sampled_from([17, 18, 19, 20, 21, 22, 24, 27]))
    c["normalizeU"] = draw(st.sampled_from([False, True])) if normalizeU is None else normalizeU
    # the spectral start runs into the known finding at once (see PRECISION_LOSS): keep it
    # in the ascent clause, but less often
    c["baseline_r0"] = draw(st.sampled_from([False, False, True] if ascent else [False, True]))
    c["min_value_par"] = (draw(st.sampled_from([0.0, 1e-5]))
                          if min_value_par is None else min_value_par)
    # more communities than nodes that belong to a hyperedge: in the domain ("every K"); K <= covered
    # is only the k-means precondition of the spectral start, so it is kept for baseline_r0=True
    covered = len({i for e in c["edges"] for i in e})
    if not c["baseline_r0"] and covered + 1 <= K_OVER_MAX and draw(st.integers(0, 9)) == 0:
        c["K"] = min(K_OVER_MAX, covered + draw(st.integers(1, 2)))
    c["verbose"] = draw(st.integers(0, 5)) == 0
    # the model object did another job before (fit on a small unrelated hypergraph)
    c["reused"] = draw(st.sampled_from([False, False, True]))
    return c


@st.composite
def hysc_cases(draw, tier):
    c = draw(hypergraph_cases(tier))
    c["seed"] = draw(seeds)
    c["weighted_L"] = draw(st.booleans())
    return c


# --------------------------------------------------------------------------
# building and running


@with_history
def build(case):
    from hypergraphx import Hypergraph
    labels = case["labels"]
    h = Hypergraph(weighted=case["weights"] is not None)
    if case["all_nodes"]:
        h.add_nodes(list(labels))
    for j, e in enumerate(case["edges"]):
        nodes = tuple(labels[i] for i in e)
        if case["weights"] is None:
            h.add_edge(nodes)
        else:
            h.add_edge(nodes, weight=case["weights"][j])
    if case["weights"] is not None and len(case["edges"]) % 2:
        # the hypergraph metadata replaced wholesale by the user's own fields: the object is
        # still weighted (is_weighted()), only the implementation's 'weighted' entry is gone
        h.set_hypergraph_metadata({"name": "toy"})
    return h


def abstract(case):
    """(nodes, {frozenset(nodes): weight}) straight from the case."""
    labels = case["labels"]
    edges = {}
    for j, e in enumerate(case["edges"]):
        edges[frozenset(labels[i] for i in e)] = 1 if case["weights"] is None else case["weights"][j]
    covered = set().union(*edges.keys())
    nodes = list(labels) if case["all_nodes"] else [x for x in labels if x in covered]
    return nodes, edges, covered


def rows_of(h, nodes):
    enc = h.get_mapping()
    idx = enc.transform(list(nodes))
    rows = {n: int(i) for n, i in zip(nodes, idx)}
    if sorted(rows.values()) != list(range(len(nodes))):
        raise Violation("get_mapping() does not send the %d nodes onto 0..N-1: %r"
                        % (len(nodes), rows), key="mapping")
    return rows


def guard_events():
    """(counters, ordered log) of the HGX_VERIF hook; (None, None) when the tree has no hook."""
    import importlib
    m = importlib.import_module(MT)
    return getattr(m, "GUARD_EVENTS", None), getattr(m, "GUARD_LOG", None)


def reset_guard_events():
    ev, log = guard_events()
    if ev is not None:
        ev.clear()
    if log is not None:
        del log[:]


def seed_globals(k):
    """The global RNGs are put into a state that is a function of the case.  The models are
    handed their own seed; a second run of a determinism clause uses ANOTHER global state, so
    that a dependence of the result on the global RNGs is seen."""
    random.seed(k)
    np.random.seed(k % (2**32))


def hook_umax():
    """The hook's list of the largest membership after every EM iteration (HGX_VERIF=1), or
    None when the tree's hook does not record it (then the policy below falls back to excusing
    everything it cannot judge, label no_umax_probe)."""
    import importlib
    return getattr(importlib.import_module(MT), "GUARD_UMAX", None)


def run_mt(case, h, global_seed=None, probe=False):
    import importlib
    HypergraphMT = importlib.import_module(MT).HypergraphMT
    seed_globals(case["seed"] if global_seed is None else global_seed)
    reset_guard_events()
    model = HypergraphMT(
        n_realizations=case["n_real"], max_iter=case["max_iter"],
        min_value_par=case["min_value_par"], check_convergence_every=1,
        verbose=case["verbose"],
    )
    umax = hook_umax() if probe else None
    if umax is not None:
        del umax[:]
    # BLAS/OpenMP pools of 16 threads per worker process make a 10 ms fit take seconds
    with threadpoolctl.threadpool_limits(limits=1):
        if case.get("reused"):
            # ordinary API use: one HypergraphMT object fitted on one hypergraph after another.
            # The earlier job is small and dense (high likelihood); nothing of it may survive.
            from hypergraphx import Hypergraph
            k = max(3, case["K"] + 1)
            prior = Hypergraph([(i, (i + 1) % k) for i in range(k)] + [(0, 1, 2)])
            model.fit(prior, K=case["K"], seed=case["seed"] + 1,
                      normalizeU=case["normalizeU"], baseline_r0=False)
            seed_globals(case["seed"] if global_seed is None else global_seed)
            reset_guard_events()
            if umax is not None:
                del umax[:]
        u, w, maxL = model.fit(h, K=case["K"], seed=case["seed"],
                               normalizeU=case["normalizeU"], baseline_r0=case["baseline_r0"])
    ev, log = guard_events()
    ev = Events(dict(ev), list(log)) if ev is not None and log is not None else None
    if ev is not None and umax is not None:
        ev.set_umax(list(umax))
    return model, u, w, maxL, ev


def classify(case, ctx, nodes, edges, covered):
    D = max(len(e) for e in edges)
    ctx.label("labels:" + case["kind"], "D=%d" % D, "K=%d" % case["K"],
              "weighted" if case["weights"] is not None else "unweighted")
    if len(nodes) > len(covered):
        ctx.label("has_isolated_node")
    sizes = {len(e) for e in edges}
    if sizes != set(range(2, D + 1)):
        ctx.label("size_class_missing")
    return D


def label_config(case, ctx):
    ctx.label("normalizeU=%s" % case["normalizeU"], "baseline_r0=%s" % case["baseline_r0"],
              "min_value_par=%g" % case["min_value_par"], "n_real=%d" % case["n_real"])
    if case.get("reused"):
        ctx.label("model_object_reused")
    if case["K"] > len({i for e in case["edges"] for i in e}):
        ctx.label("K>covered_nodes")
        if case["K"] > len(case["labels"]):
            ctx.label("K>all_nodes")


def realisations(model, case):
    """train_info as {realization: [(iter, loglik), ...]} with structural checks."""
    ti = model.train_info
    need = ["realization", "iter", "loglik"]
    require(all(c in ti.columns for c in need),
            lambda: "train_info lacks one of the columns %r: %r" % (need, list(ti.columns)),
            key="train-info")
    out = {}
    for r, it, ll in zip(ti["realization"].tolist(), ti["iter"].tolist(), ti["loglik"].tolist()):
        out.setdefault(int(r), []).append((int(it), float(ll)))
    require(sorted(out) == list(range(case["n_real"])),
            lambda: "train_info lists realisations %r, expected 0..%d"
            % (sorted(out), case["n_real"] - 1), key="train-info")
    for r, rows in out.items():
        its = [a for a, _ in rows]
        require(its == list(range(len(its))) and 1 <= len(its) <= case["max_iter"],
                lambda: "train_info of realisation %d lists iterations %r (max_iter=%d, "
                        "check_convergence_every=1)" % (r, its, case["max_iter"]),
                key="train-info")
    return out


# --------------------------------------------------------------------------
# the log-likelihood from its definition


def esp(values, D):
    """e_0..e_D of the values, textbook recurrence, exact rationals."""
    E = [Fraction(1)] + [Fraction(0)] * D
    for x in values:
        fx = Fraction(x)
        for d in range(D, 0, -1):
            E[d] += fx * E[d - 1]
    return E


def loglik_definition(u, w, rows, edges, D, eps, eps_sum=Fraction(0)):
    """(log part, normalisation part) of the likelihood at (u, w); log part is None when a
    hyperedge has probability zero (only possible for eps = 0)."""
    K = u.shape[1]
    terms = []
    for e, a in edges.items():
        s = Fraction(0)
        for k in range(K):
            p = Fraction(float(w[len(e) - 2, k]))
            for n in e:
                p *= Fraction(float(u[rows[n], k])) + eps
            s += p
        s += eps_sum
        if s <= 0:
            return None, None
        # log of an exact rational: split mantissa/exponent to stay inside float range
        terms.append(a * _log_fraction(s))
    norm = Fraction(0)
    for k in range(K):
        E = esp([float(x) for x in u[:, k]], D)
        for d in range(2, D + 1):
            norm += Fraction(float(w[d - 2, k])) * E[d]
    return math.fsum(terms), float(norm)


def _log_fraction(q):
    n, d = q.numerator, q.denominator
    # log(n) - log(d) with big ints: math.log accepts arbitrarily large ints
    return math.log(n) - math.log(d)


EPS_LIB = Fraction(1e-20)    # added by the library to u inside the logarithm
EPS_SUM_LIB = Fraction(1e-300)  # added by the library to the sum over communities


def definition_interval(u, w, rows, edges, D):
    """Values of the definition with and without the library's 1e-20 regularisation."""
    lp0, nm = loglik_definition(u, w, rows, edges, D, Fraction(0))
    lp1, nm1 = loglik_definition(u, w, rows, edges, D, EPS_LIB, EPS_SUM_LIB)
    return lp0, lp1, nm1


# --------------------------------------------------------------------------
# guard policy

# Call sites counted by the hook.  PRECISION_LOSS: a subtractive update of the incrementally
# maintained elementary symmetric polynomials produced a NEGATIVE number (the true value is
# >= 0); the guard then zeroes / flips it or skips the node.  The library itself separates two
# sizes (threshold 1e-3):
#
#   ROUNDING  psiBarOmega_zeroed / psiOmega_zeroed: every negative entry is smaller than 1e-3 in
#             magnitude and is set to 0.  This is what cancellation at rounding size looks like
#             (known finding "psi-cancellation": the entry has lost its relative accuracy, the
#             M-steps that use it are inexact, the likelihood can decrease).
#             - psiBarOmega_zeroed alone, in a realisation with a RANDOM start (baseline_r0=False
#               or realisation >= 1), is harmless (true value exactly 0, computed -1e-17; fires in
#               ~80% of the cases).  Calibration on the unchanged tree (63000 cases = quick seeds
#               1..6 + thorough seeds 1..3): 450947 such comparisons, largest relative decrease
#               4.6e-15, the same as without any event (1.7e-15).  Ascent stays DEMANDED there: a
#               decrease above BENIGN_TOL*(1+|L|) is a violation ("descent"); one between ASC_TOL
#               and BENIGN_TOL (never seen) would be reported under the known key.
#             - psiBarOmega_zeroed in the realisation that starts from the spectral clustering
#               (memberships of very different sizes: the cancelled value is tiny, not 0) is the
#               known finding: 98157 comparisons, 74 decreases, relative size 1e-9 .. 7.8 (no
#               size threshold separates them from a defect).  Excluded by construction, counted.
#             - after a psiOmega_zeroed of the realisation (either start): 106069 comparisons, 335
#               decreases, relative size up to 98.  Excluded by construction and counted.
#   GROSS     psiBarOmega_negative_skip / psiOmega_flipped: a negative entry of magnitude >= 1e-3.
#             While every membership the realisation has held is <= U_SMALL = 10, the polynomials
#             are <= C(9,5)*10^5 ~ 1.3e7 (N <= 9 nodes, D <= 5), one rounding is <= ~1e-9 and the
#             <= 40*9*5 updates of a realisation cannot accumulate 1e-3: such an event is NOT
#             rounding, it is not the known finding and it excuses nothing -- from then on every
#             comparison of the realisation is demanded at ASC_TOL ("descent").  When a membership
#             above U_SMALL has occurred (up to max_value_par = 100: polynomials ~1e12, rounding
#             1e-4..1e-3) or the probe is unavailable, a gross event excuses like psiOmega_zeroed.
#
# The other events are parameterised projections of u (min_value_par / max_value_par) and do
# not excuse anything.
ROUNDING = ("psiBarOmega_zeroed", "psiOmega_zeroed")
GROSS = ("psiBarOmega_negative_skip", "psiOmega_flipped")
PRECISION_LOSS = ("psiBarOmega_zeroed", "psiBarOmega_negative_skip", "psiOmega_zeroed",
                  "psiOmega_flipped")
OTHER_EVENTS = ("u_clipped_max", "u_truncated_min", "u_nan", "u_negative_flipped", "loglik_nan")
U_SMALL = 10.0
# comparisons that follow psiBarOmega_zeroed events only (random start): a decrease above
# BENIGN_TOL * (1 + |L[t]|) is a violation, a smaller one (above ASC_TOL) the known finding.
BENIGN_TOL = 1e-6
MARK_REAL, MARK_LL, MARK_IT = "realization_started", "loglik_evaluated", "em_iteration_done"


class Events:
    """Guard events of one fit, attributed to (realisation, iteration)."""

    def __init__(self, counts, log):
        self.counts = counts
        self.per_real = []  # per realisation: list (per EM iteration) of event lists
        # newer hook: a marker at the END of every EM iteration (independent of how often the
        # likelihood is evaluated); older hook: one marker per likelihood evaluation
        by_iteration = MARK_IT in log
        mark = MARK_IT if by_iteration else MARK_LL
        cur = None
        for name in log:
            if name == MARK_REAL:
                self.per_real.append([[]])
                cur = self.per_real[-1]
            elif cur is None:
                continue
            elif name == mark:
                cur.append([])
            elif name in (MARK_LL, MARK_IT):
                continue
            else:
                cur[-1].append(name)
        # the trailing segment after the last marker is dropped (events after the last
        # iteration belong to no comparison); with the older hook only when it is empty
        for segs in self.per_real:
            if segs and (by_iteration or not segs[-1]):
                segs.pop()

    umax = None  # per realisation: largest membership after each iteration (probe), or None

    def set_umax(self, flat):
        """Split the probe's flat list by realisation; kept only when it lines up with the log."""
        sizes = [len(segs) for segs in self.per_real]
        if sum(sizes) != len(flat):
            return
        out, k = [], 0
        for n in sizes:
            out.append(flat[k:k + n])
            k += n
        self.umax = out

    def categories(self, r, spectral_start):
        """For every iteration t of realisation r, the status of the comparison L[t-1] -> L[t]
        given the guard events up to and including iteration t:
          "clean"    no precision-loss event so far             -> demanded at ASC_TOL
          "gross"    a GROSS event fired while all memberships so far were <= U_SMALL
                     (sticky)                                    -> demanded at ASC_TOL
          "benign"   only psiBarOmega_zeroed so far, random start -> demanded (BENIGN_TOL)
          "excluded" psiOmega_zeroed, or psiBarOmega_zeroed in the realisation that starts from
                     the spectral clustering, or a GROSS event that the size of u may explain
                                                                 -> known finding, counted"""
        out, seen, gross, biggest = [], set(), False, 0.0
        um = self.umax[r] if self.umax is not None else None
        for t, seg in enumerate(self.per_real[r]):
            if um is not None:
                biggest = max(biggest, um[t]) if um[t] == um[t] else float("inf")
            for e in seg:
                if e in GROSS and um is not None and biggest <= U_SMALL:
                    gross = True
                seen.add(e)
            if gross:
                out.append("gross")
            elif not seen.intersection(PRECISION_LOSS):
                out.append("clean")
            elif seen.intersection(GROSS) or "psiOmega_zeroed" in seen or spectral_start:
                out.append("excluded")
            else:
                out.append("benign")
        return out

    def first_loss(self, r):
        """Index of the first iteration of realisation r during (or before) which a
        precision-loss guard fired; None when the whole realisation is clean."""
        for t, seg in enumerate(self.per_real[r]):
            if any(e in PRECISION_LOSS for e in seg):
                return t
        return None

    def summary(self):
        return {k: v for k, v in sorted(self.counts.items())
                if k not in (MARK_REAL, MARK_LL, MARK_IT)}


def label_events(ev, ctx):
    if ev is None:
        ctx.label("no_hook")
        return
    for k in PRECISION_LOSS + OTHER_EVENTS:
        if ev.counts.get(k):
            ctx.label("event:" + k)


# --------------------------------------------------------------------------
# clauses


def check_validity(case, ctx):
    nodes, edges, covered = abstract(case)
    D = classify(case, ctx, nodes, edges, covered)
    label_config(case, ctx)
    h = build(case)
    rows = rows_of(h, nodes)
    model, u, w, maxL, ev = run_mt(case, h)
    N, K = len(nodes), case["K"]
    u = np.asarray(u)
    w = np.asarray(w)
    require(u.shape == (N, K), lambda: "u has shape %r, expected (N, K) = %r" % (u.shape, (N, K)),
            key="u-shape")
    require(w.shape == (D - 1, K),
            lambda: "w has shape %r, expected (D-1, K) = %r" % (w.shape, (D - 1, K)), key="w-shape")
    require(bool(np.all(np.isfinite(u))), lambda: "u has non-finite entries: %r" % u.tolist(),
            key="u-finite")
    require(bool(np.all(np.isfinite(w))), lambda: "w has non-finite entries: %r" % w.tolist(),
            key="w-finite")
    require(bool(np.all(u >= 0)), lambda: "u has negative entries: %r" % u.tolist(), key="u-neg")
    require(bool(np.all(w >= 0)), lambda: "w has negative entries: %r" % w.tolist(), key="w-neg")
    require(isinstance(float(maxL), float) and math.isfinite(float(maxL)),
            lambda: "returned log-likelihood %r is not finite" % (maxL,), key="L-finite")
    tol = K * case["min_value_par"] + 1e-6
    for n in nodes:
        row = u[rows[n]]
        if n not in covered:
            require(not row.any(),
                    lambda: "node %r is in no hyperedge but its row of u is %r (row %d)"
                    % (n, row.tolist(), rows[n]), key="isolated-row")
        elif not case["normalizeU"]:
            # unconstrained memberships: a zero row is the exact M-step answer when none of the
            # node's active communities explains one of its hyperedges; the statement only
            # asks for zero rows of isolated nodes, so this is classified, not demanded
            if not row.any():
                ctx.label("zero_row_of_non_isolated_node(normalizeU=False)")
        else:
            require(bool(row.any()),
                    lambda: "normalizeU=True: node %r belongs to a hyperedge but its row of u is "
                            "zero (row %d)" % (n, rows[n]), key="zero-row")
            s = float(row.sum())
            require(abs(s - 1.0) <= tol,
                    lambda: "normalizeU=True: row of node %r sums to %r (|1-sum| > %g): %r"
                    % (n, s, tol, row.tolist()), key="row-sum")
    label_events(ev, ctx)
    ctx.trace = {"guard_events": ev.summary() if ev else None, "maxL": float(maxL)}
    ctx.nontrivial(D >= 3 and len(nodes) > len(covered))


def check_bookkeeping(case, ctx):
    nodes, edges, covered = abstract(case)
    classify(case, ctx, nodes, edges, covered)
    label_config(case, ctx)
    h = build(case)
    model, u, w, maxL, ev = run_mt(case, h)
    rs = realisations(model, case)
    finals = {r: rows[-1][1] for r, rows in rs.items()}
    best = max(finals.values())
    require(float(maxL) == best,
            lambda: "returned log-likelihood %r, but the final values per realisation in "
                    "train_info are %r (max %r)" % (float(maxL), finals, best), key="maxL")
    ti = model.train_info
    if "reached_convergence" in ti.columns:
        conv = {int(r): bool(g["reached_convergence"].iloc[-1]) for r, g in ti.groupby("realization")}
        if len(set(conv.values())) > 1:
            ctx.label("converged_and_cut_off_realisations_in_one_fit")
            top = max(finals, key=lambda r: finals[r])
            if not conv.get(top, True):
                ctx.label("best_realisation_was_cut_off_by_max_iter")
    if len(set(finals.values())) > 1:
        ctx.label("realisations_differ")
        ctx.nontrivial(case["n_real"] >= 2)
        order = sorted(finals, key=lambda r: finals[r])
        if order[-1] != 0:
            ctx.label("best_is_not_first")
    ctx.trace = {"finals": finals, "maxL": float(maxL)}


def check_ascent(case, ctx):
    nodes, edges, covered = abstract(case)
    D = classify(case, ctx, nodes, edges, covered)
    label_config(case, ctx)
    h = build(case)
    model, u, w, maxL, ev = run_mt(case, h, probe=True)
    rs = realisations(model, case)
    label_events(ev, ctx)
    if ev is not None:
        if not (len(ev.per_real) == case["n_real"]
                and all(len(ev.per_real[r]) == len(rs[r]) for r in rs)):
            # the guarded instrumentation no longer lines up with train_info (e.g. the likelihood
            # is evaluated once more per realisation): the harness cannot attribute guard events
            # to iterations -- a harness problem (exit 2), not a verdict on the library
            raise HarnessError(
                "hook log lists %r likelihood evaluations per realisation, train_info %r"
                % ([len(x) for x in ev.per_real], [len(rs[r]) for r in sorted(rs)]))
        if ev.umax is None:
            ctx.label("no_umax_probe")
    strict = 0
    n = {"clean": 0, "gross": 0, "benign": 0, "excluded": 0}
    hidden = []
    for r, rows in sorted(rs.items()):
        cats = (ev.categories(r, spectral_start=bool(case["baseline_r0"]) and r == 0)
                if ev is not None else ["clean"] * len(rows))
        for (i0, a), (i1, b) in zip(rows, rows[1:]):
            cat = cats[i1]
            n[cat] += 1
            slack = 1e-9 * (1.0 + abs(a))
            if b > a + slack and cat != "excluded":
                strict += 1
            if b >= a - slack:
                continue
            if cat == "excluded" or (cat == "benign" and a - b <= BENIGN_TOL * (1.0 + abs(a))):
                hidden.append([r, i0, a, b, cat])
                continue
            seg = ev.per_real[r][i1] if ev is not None else None
            upto = sorted({e for sg in ev.per_real[r][:i1 + 1] for e in sg}) if ev else None
            why = {
                "clean": "with no precision-loss guard event up to that iteration",
                "benign": "in a realisation with a random start after psiBarOmega_zeroed events "
                          "only (negatives below 1e-3 set to 0, no psiOmega_zeroed): the drop "
                          "exceeds the %g*(1+|L|) = %.3g that rounding-size cancellation is "
                          "allowed there" % (BENIGN_TOL, BENIGN_TOL * (1.0 + abs(a))),
                "gross": "after a psiBarOmega_negative_skip / psiOmega_flipped event (an "
                         "elementary symmetric polynomial came out NEGATIVE by >= 1e-3) although "
                         "no membership of the realisation has exceeded %g (largest so far %r): "
                         "that is not rounding and excuses nothing"
                         % (U_SMALL, max(ev.umax[r][:i1 + 1]) if ev and ev.umax else None),
            }[cat]
            raise Violation(
                "log-likelihood decreases in realisation %d from iteration %d to %d: "
                "%r -> %r (drop %.3g > slack %.3g) %s (events of the realisation up to it: %r, "
                "during it: %r); normalizeU=%s min_value_par=%g baseline_r0=%s; all events %r"
                % (r, i0, i1, a, b, a - b, slack, why, upto, seg, case["normalizeU"],
                   case["min_value_par"], case["baseline_r0"],
                   ev.summary() if ev else None), key="descent")
    demanded = n["clean"] + n["gross"] + n["benign"]
    total = demanded + n["excluded"]
    if n["excluded"]:
        ctx.exclude("likelihood comparisons after a psiOmega_zeroed guard event of the realisation "
                    "(or a psiBarOmega_zeroed one after the spectral start, or a gross one that "
                    "memberships above 10 may explain): known finding psi-cancellation")
        ctx.label("comparisons_excluded")
    if n["benign"]:
        ctx.label("comparisons_demanded_relaxed(after_psiBarOmega_zeroed)")
    if n["gross"]:
        ctx.label("comparisons_demanded_after_gross_negative")
    if demanded:
        ctx.label("comparisons_demanded")
    if total:
        # safety net for readers of the evidence: a run whose cases mostly sit in the first
        # bucket demands next to nothing (the engine cannot fail a run from inside a case)
        f, fs = demanded / total, n["clean"] / total
        ctx.label("demanded" + ("<20%" if f < 0.2 else "<50%" if f < 0.5 else
                                "<80%" if f < 0.8 else ">=80%"))
        ctx.label("demanded_with_no_guard_event" + ("<20%" if fs < 0.2 else "<50%" if fs < 0.5 else
                                           "<80%" if fs < 0.8 else ">=80%"))
    if hidden:
        ctx.label("known:descent_after_precision_loss")
    ctx.trace = {"guard_events": ev.summary() if ev else None, "strict_increases": strict,
                 "comparisons": n, "tolerated_descents": hidden,
                 "largest_membership": [max(x) if x else None for x in ev.umax]
                 if ev is not None and ev.umax is not None else None}
    ctx.nontrivial(strict >= 5 and D >= 3)
    if strict >= 5:
        ctx.label("five_strict_increases")
    if hidden:
        # the known finding: reported through the engine's known-findings mechanism, so that
        # it is printed as KNOWN-FINDING while listed in known_findings.txt and becomes a
        # VIOLATION again if the listing is removed
        raise Violation(
            "log-likelihood decreases after a rounding-size precision-loss guard event of the "
            "realisation (psiOmega/psiBarOmega went negative by less than 1e-3 and were zeroed; "
            "[realisation, iteration, L, L', status]): %r; events %r"
            % (hidden[:3], ev.summary() if ev else None), key="psi-cancellation")


def check_definition(case, ctx):
    nodes, edges, covered = abstract(case)
    D = classify(case, ctx, nodes, edges, covered)
    label_config(case, ctx)
    h = build(case)
    rows = rows_of(h, nodes)
    model, u, w, maxL, ev = run_mt(case, h)
    u = np.asarray(u, dtype=float)
    w = np.asarray(w, dtype=float)
    require(u.shape == (len(nodes), case["K"]) and w.shape == (D - 1, case["K"])
            and bool(np.all(np.isfinite(u))) and bool(np.all(np.isfinite(w))),
            "u / w of the wrong shape or not finite (see clause mt_validity)", key="shape")
    lp0, lp1, nm = definition_interval(u, w, rows, edges, D)
    if lp0 is None:
        ctx.exclude("a hyperedge has probability 0 at the returned parameters (definition = -inf)")
        ctx.label("excluded:-inf")
        return
    lo, hi = min(lp0, lp1) - nm, max(lp0, lp1) - nm
    tol = 1e-8 * (1.0 + max(abs(lp0), abs(lp1)) + abs(nm))
    L = float(maxL)
    label_events(ev, ctx)
    rs = realisations(model, case)
    finals = [rs[r][-1][1] for r in sorted(rs)]
    best = finals.index(max(finals))  # fit keeps the first realisation reaching the maximum
    lossy = ev is not None and ev.first_loss(best) is not None
    agree = lo - tol <= L <= hi + tol
    ctx.trace = {"maxL": L, "definition": [lo, hi], "log_part": [lp0, lp1], "norm_part": nm,
                 "best_realisation": best, "guard_events": ev.summary() if ev else None}
    if lossy:
        ctx.label("precision_loss_in_returned_realisation")
    if not agree:
        d = L - (lo if L < lo else hi)
        raise Violation(
            "returned log-likelihood %r differs from the definition at the returned (u, w): "
            "definition in [%r, %r] (log part %r, normalisation part %r), difference %.3g "
            "(relative %.3g) > tolerance %.3g; n_real=%d max_iter=%d normalizeU=%s baseline_r0=%s; "
            "no precision-loss guard event in the returned realisation %d; all events %r"
            % (L, lo, hi, lp0, nm, d, abs(d) / (1 + abs(lo)), tol, case["n_real"],
               case["max_iter"], case["normalizeU"], case["baseline_r0"], best,
               ev.summary() if ev else None),
            key="definition")
    ctx.nontrivial(D >= 3 and case["max_iter"] >= 5)


def check_determinism(case, ctx):
    nodes, edges, covered = abstract(case)
    D = classify(case, ctx, nodes, edges, covered)
    label_config(case, ctx)
    out = []
    for run in range(2):
        h = build(case)
        model, u, w, maxL, ev = run_mt(case, h, global_seed=case["seed"] + 7919 * run)
        out.append((np.array(u, copy=True), np.array(w, copy=True), float(maxL),
                    model.train_info["loglik"].tolist()))
    # the second model fitted once more with the same seed argument
    with threadpoolctl.threadpool_limits(limits=1):
        u3, w3, l3 = model.fit(h, K=case["K"], seed=case["seed"], normalizeU=case["normalizeU"],
                               baseline_r0=case["baseline_r0"])
    require(np.array_equal(np.asarray(u3), out[1][0]) and np.array_equal(np.asarray(w3), out[1][1])
            and float(l3) == out[1][2],
            lambda: "the same HypergraphMT object fitted twice with seed %d returns different "
            "results (log-likelihoods %r and %r)" % (case["seed"], out[1][2], float(l3)),
            key="refit-differs")
    # (whether the arrays an earlier call handed out survive a later fit of the same object with
    # another seed -- buffers reused between calls -- is not part of the statement: not judged)
    (u1, w1, l1, t1), (u2, w2, l2, t2) = out
    require(u1.shape == u2.shape and np.array_equal(u1, u2),
            lambda: "two fits with seed %d on fresh objects (global RNG states differ) return different u:\n%r\n%r"
            % (case["seed"], u1.tolist(), u2.tolist()), key="u-differs")
    require(w1.shape == w2.shape and np.array_equal(w1, w2),
            lambda: "two fits with seed %d on fresh objects return different w:\n%r\n%r"
            % (case["seed"], w1.tolist(), w2.tolist()), key="w-differs")
    require(l1 == l2, lambda: "two fits with seed %d return log-likelihoods %r and %r"
            % (case["seed"], l1, l2), key="L-differs")
    require(t1 == t2, "two fits with the same seed record different loglik columns",
            key="trace-differs")
    ctx.nontrivial(D >= 3 or len(nodes) > len(covered))


def check_hysc(case, ctx):
    import importlib
    HySC = importlib.import_module("hypergraphx.communities.hy_sc.model").HySC
    nodes, edges, covered = abstract(case)
    D = classify(case, ctx, nodes, edges, covered)
    ctx.label("weighted_L=%s" % case["weighted_L"])
    N, K = len(nodes), case["K"]
    outs = []
    for run in range(2):
        h = build(case)
        rows = rows_of(h, nodes)
        seed_globals(case["seed"] + 7919 * run)
        with threadpoolctl.threadpool_limits(limits=1):
            model = HySC(seed=case["seed"])
            m = np.asarray(model.fit(h, K=K, weighted_L=case["weighted_L"]))
            if run == 1:
                # the same object fitted once more: "run twice with the same seed" also means
                # this (the seed is a constructor argument)
                m_again = np.array(model.fit(h, K=K, weighted_L=case["weighted_L"]), copy=True)
        outs.append(np.array(m, copy=True))
    require(np.array_equal(outs[1], m_again),
            lambda: "the same HySC object (seed %d) fitted twice returns different matrices:\n%r\n%r"
            % (case["seed"], outs[1].tolist(), m_again.tolist()), key="hysc-refit-determinism")
    m = outs[0]
    require(m.shape == (N, K), lambda: "HySC.fit returns shape %r, expected (N, K) = %r"
            % (m.shape, (N, K)), key="hysc-shape")
    require(bool(np.all((m == 0) | (m == 1))),
            lambda: "HySC.fit returns entries other than 0/1: %r" % m.tolist(), key="hysc-01")
    for n in nodes:
        s = int(m[rows[n]].sum())
        want = 1 if n in covered else 0
        require(s == want,
                lambda: "HySC row of node %r (row %d, %s) has %d ones, expected %d: %r"
                % (n, rows[n], "in a hyperedge" if want else "isolated", s, want, m.tolist()),
                key="hysc-row")
    require(np.array_equal(outs[0], outs[1]),
            lambda: "two HySC fits with seed %d differ:\n%r\n%r"
            % (case["seed"], outs[0].tolist(), outs[1].tolist()), key="hysc-determinism")
    used = int((m.sum(axis=0) > 0).sum())
    ctx.label("clusters_used=%d" % used)
    ctx.nontrivial(used >= 2 and (len(nodes) > len(covered) or D >= 3))


# --------------------------------------------------------------------------
# larger inputs with several connected components (degenerate lowest Laplacian eigenvalue):
# an eigensolver with a random start vector would make the partition depend on more than the seed


@st.composite
def hysc_large_cases(draw, tier):
    rings = draw(st.integers(2, 4))
    sizes = [draw(st.integers(26, 40)) for _ in range(rings)]
    return {"rings": sizes, "tri": draw(st.booleans()), "K": draw(st.sampled_from([2, 3])),
            "seed": draw(st.integers(0, 50)), "weighted_L": draw(st.booleans())}


def check_hysc_large(case, ctx):
    import importlib
    from hypergraphx import Hypergraph
    HySC = importlib.import_module("hypergraphx.communities.hy_sc.model").HySC
    edges, base = [], 0
    for n in case["rings"]:
        for i in range(n):
            e = (base + i, base + (i + 1) % n)
            edges.append(tuple(sorted(e)))
            if case["tri"] and i % 3 == 0:
                edges.append(tuple(sorted({base + i, base + (i + 1) % n, base + (i + 2) % n})))
        base += n
    edges = sorted(set(edges))
    N = base
    outs = []
    for run in range(2):
        h = Hypergraph(edges)
        seed_globals(case["seed"] + 7919 * run)
        with threadpoolctl.threadpool_limits(limits=1):
            m = np.asarray(HySC(seed=case["seed"]).fit(h, K=case["K"],
                                                      weighted_L=case["weighted_L"]))
        outs.append(np.array(m, copy=True))
    m = outs[0]
    require(m.shape == (N, case["K"]) and bool(np.all((m == 0) | (m == 1)))
            and bool(np.all(m.sum(axis=1) == 1)),
            lambda: "HySC.fit on %d nodes in %d components: not a one-hot N x K matrix (shape %r, "
            "row sums %r)" % (N, len(case["rings"]), m.shape, sorted(set(m.sum(axis=1).tolist()))),
            key="hysc-large-valid")
    require(np.array_equal(outs[0], outs[1]),
            lambda: "two HySC fits with seed %d on %d nodes in %d components differ in %d rows"
            % (case["seed"], N, len(case["rings"]), int((outs[0] != outs[1]).any(axis=1).sum())),
            key="hysc-large-determinism")
    ctx.label("N=%d" % (N // 25 * 25))
    ctx.nontrivial(N > 100)



# --------------------------------------------------------------------------
# cross_process: the same fit in another interpreter run (another PYTHONHASHSEED) -- nothing may
# depend on the iteration order of a set of string labels


def cross_digest(case):
    h = build(case)
    # the order in which the input lists its nodes and hyperedges in this interpreter (the
    # incidence matrix follows it; the order of a listing is nobody's promise)
    listing = [repr(list(h.get_nodes())), repr([tuple(e) for e in h.get_edges()])]
    model, u, w, maxL, ev = run_mt(case, h)
    return {"listing": listing,
            "u": np.asarray(u, dtype=float).tolist(), "w": np.asarray(w, dtype=float).tolist(),
            "maxL": float(maxL)}


@st.composite
def cross_cases(draw, tier):
    c = draw(mt_cases(tier, n_real=(1, 2)))
    c["max_iter"] = min(c["max_iter"], 15)
    c["hashseed"] = draw(st.sampled_from([1, 12345]))
    return c


def check_cross_process(case, ctx):
    from ..common import in_child
    nodes, edges, covered = abstract(case)
    classify(case, ctx, nodes, edges, covered)
    if os.environ.get("PYTHONHASHSEED") == str(case["hashseed"]):
        ctx.label("this interpreter already runs with the child's hash seed (not judged)")
        return
    here = cross_digest(case)
    there = in_child("hgxverif.props.c17", "cross_digest", case, case["hashseed"])
    if here["listing"] != there["listing"]:
        # the container lists the same content in another order there: sums run in another
        # order, which the estimator is not to blame for
        ctx.label("input listed in another order by the other interpreter (not judged)")
        return
    require(here == there,
            lambda: "HypergraphMT.fit with seed %d returns log-likelihood %r here and %r in an "
                    "interpreter started with PYTHONHASHSEED=%d (u equal: %s, w equal: %s)"
            % (case["seed"], here["maxL"], there["maxL"], case["hashseed"],
               here["u"] == there["u"], here["w"] == there["w"]), key="depends-on-hashseed")
    ctx.nontrivial(case["kind"] == "strs")


CLAUSES = [
    Clause("mt_validity", lambda tier: mt_cases(tier), check_validity,
           quick=200, thorough=900, shards_quick=2,
           rule="maximum hyperedge size >= 3 and an isolated node present"),
    Clause("mt_bookkeeping", lambda tier: mt_cases(tier, n_real=(1, 4), window=True),
           check_bookkeeping,
           quick=150, thorough=600, shards_quick=2,
           rule=">= 2 realisations whose final log-likelihoods differ"),
    Clause("mt_cross_process", cross_cases, check_cross_process, quick=24, thorough=40,
           rule="string node labels"),
    Clause("mt_ascent", lambda tier: mt_cases(tier, normalizeU=False, ascent=True), check_ascent,
           quick=300, thorough=1200, shards_quick=3,
           rule=">= 5 strict increases of the log-likelihood among the demanded comparisons and "
                "maximum hyperedge size >= 3",
           known={"psi-cancellation": lambda case, v: v.key == "psi-cancellation"}),
    Clause("mt_definition", lambda tier: mt_cases(tier, min_value_par=0.0), check_definition,
           quick=300, thorough=1200, shards_quick=3,
           rule="maximum hyperedge size >= 3, max_iter >= 5, definition finite"),
    Clause("mt_determinism", lambda tier: mt_cases(tier, n_real=(1, 2)), check_determinism,
           quick=120, thorough=500, shards_quick=2,
           rule="maximum hyperedge size >= 3 or an isolated node present"),
    Clause("hysc", hysc_cases, check_hysc, quick=200, thorough=900, shards_quick=2,
           rule=">= 2 clusters used and (an isolated node or maximum hyperedge size >= 3)"),
    Clause("hysc_large", hysc_large_cases, check_hysc_large, quick=12, thorough=40,
           rule="more than 100 nodes in 2-4 connected components"),
]
