"""Supplementary coverage-guided campaign for the two text readers of C06 (hMETIS, HIF).

libFuzzer (atheris) supplies the bytes, Hypothesis' `fuzz_one_input` decodes them through the
SAME grammar strategies as the C06 clauses (structure-aware: every input is a syntactically
valid file/document), and the SAME oracle decides.  Coverage feedback is taken from
hypergraphx.readwrite and hypergraphx.core.  Nothing is claimed from this beyond "N more
executions, none violated"; it runs after the Hypothesis search of the thorough tier.

usage: atheris_c06.py <hmetis|hif> [-runs=N] [-seed=N]      (exit 1 + VIOLATION line on failure)
"""
import json
import os
import sys

V = os.path.dirname(os.path.dirname(os.path.abspath(__file__)))
sys.path.insert(0, os.path.join(V, ".deps"))
sys.path.insert(0, V)

import atheris  # noqa: E402

from hgxverif import engine  # noqa: E402

engine.setup_paths()
with atheris.instrument_imports(include=["hypergraphx.readwrite", "hypergraphx.core"]):
    import hypergraphx  # noqa: F401,E402
    import hypergraphx.readwrite.load  # noqa: F401,E402
    import hypergraphx.readwrite.hif  # noqa: F401,E402

from hypothesis import HealthCheck, given, settings  # noqa: E402

from hgxverif.props import c06  # noqa: E402

which = sys.argv[1]
clause = {c.name: c for c in c06.CLAUSES}[which]
count = {"n": 0}


@settings(database=None, deadline=None, suppress_health_check=list(HealthCheck))
@given(clause.strategy("thorough"))
def target(case):
    count["n"] += 1
    try:
        engine.run_case(clause, case, engine.Ctx())
    except engine.Violation as v:
        path = engine.write_replay("C06", which, {"case": json.loads(engine.canon(case)),
                                                  "message": v.msg, "trace": None}, 0, "thorough")
        print("  clause %s (atheris): %s" % (which, v.msg[:500]))
        print("VIOLATION property=C06 replay=%s" % path, flush=True)
        os._exit(1)


def main():
    argv = [sys.argv[0]] + sys.argv[2:]
    atheris.Setup(argv, target.hypothesis.fuzz_one_input)
    atheris.Fuzz()


if __name__ == "__main__":
    main()
