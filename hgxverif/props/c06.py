"""C06 -- save/load round trip (4 container types x text/binary), hMETIS and HIF readers.

Round trip: an object of each container type is built through the public API by
a scripted history (hgxverif/oracles/build0607.py: constructor arguments, extra
hyperedges/nodes inserted and removed, re-insertions, keep_edges shrinks, clear(),
metadata reached through set_attr/remove_attr ...), so that the internal id
tables are not the trivial ones; it is saved into a fresh TemporaryDirectory,
loaded, and the complete public observation of the loaded object (the observe
functions of C01..C04) is compared with that of the original taken before saving,
by value and (unfiltered queries) by type of every label, weight and metadata value;
the saved object itself is observed again after every save (values, types, listing order).
File names have dotted stems / dotted directories; ``binary`` is omitted for half of the
text saves.

hMETIS: a grammar strategy renders a syntactically valid .hgr file; the oracle is
the list of hyperedges the generator emitted.

HIF: the case *is* the HIF document; the oracle never looks at the reader's
numbering: the name -> node-id map is recovered from the node and incidence
records the public API returns.
"""

import json
import os
import random
import tempfile
from collections import Counter

from hypothesis import strategies as st

from .. import strategies as S
from ..common import dc, diff_obs
from ..engine import Clause, Violation, require
from ..oracles import build0607 as B

ASSUMPTIONS = [
    "node labels are all ints or all strs; metadata keys are strs other than the reserved "
    "hyperedge keys weight/time/layer and the implementation-set hypergraph keys weighted/type; "
    "metadata values are JSON values (optionally tuples instead of lists at the top level)",
    "loaded vs. original are compared through the public API only: type, the C01..C04 observation "
    "(nodes, hyperedges with direction/time/layer, every order/size filter, weights, incidence, "
    "degrees, node and hyperedge metadata), weightedness, hypergraph metadata",
    "metadata is compared after JSON normalisation (tuple == list); hyperedge metadata of an object "
    "loaded from text is compared modulo the reserved keys weight/time/layer; hypergraph metadata "
    "is compared modulo the implementation-set keys weighted/type (weightedness itself is "
    "compared through is_weighted and the weights)",
    "MultiplexHypergraph.get_existing_layers is not compared (layers of removed records: unspecified)",
    "files are written as <stem>.<json|hgx> with stem in {g, my.graph, a.b.c}, optionally below "
    "a fresh sub-directory whose names contain dots; binary always agrees with the extension and "
    "is omitted (documented default False) for half of the text saves",
    "saving does not modify the object: the full observation (values and their types) and the "
    "ORDER of get_nodes() / get_edges() of the saved object are the same before and after every "
    "save (orders are only ever compared on one and the same object)",
    "loaded vs. original are also compared by type (int / float / bool / str, of labels, times, "
    "weights and metadata values; list == tuple) on the unfiltered queries, reported under the "
    "separate key loaded-differs-in-type; both formats can represent these types",
    "in the second save of a round-trip case weights 0, 2**60 and -2 are set on further hyperedges "
    "when there are enough (a container that refuses -2 with ValueError is excluded and counted)",
    "every round-trip case saves the object twice: as built, and again after "
    "set_hypergraph_metadata(<drawn dict>) (wholesale replacement, the implementation-set fields "
    "are gone) and, when weighted, after one weight became a non-integer float; then the same "
    "add_edge/remove_edge calls are applied to the original and to the loaded object and the "
    "observations compared once more (the loaded object is the same hypergraph, not a frozen picture)",
    "hMETIS: header 'E N [fmt]', fmt in {absent,0,1,10,11}; distinct node sets; tokens of the "
    "header and of the hyperedge lines separated by one or more spaces (no tabs), optional leading "
    "and trailing blanks; vertex-weight lines iff fmt >= 10; '%' comment lines "
    "and blank lines anywhere; N up to 15; lines end in \\n or (all of them) in \\r\\n; which of the N vertices become nodes is not part of the statement "
    "(any set between the union of the hyperedges and 1..N is accepted)",
    "HIF: documents with the three lists nodes/edges/incidences, unique node and edge ids, no "
    "repeated incidence pair, type absent/'undirected'/'asc'; two edge ids with the same incidence "
    "set give one hyperedge whose records may be either's; a node or hyperedge without a record in "
    "the file may carry {} or only its own id; hypergraph-level 'metadata' is not in the statement "
    "and not compared",
]

RESERVED = ("weight", "time", "layer")
EDGE_META_Q = ("edges_meta", "edge_meta", "window_meta")
NODE_META_Q = ("nodes_meta", "node_meta")


def _io():
    from hypergraphx.readwrite.load import load_hypergraph
    from hypergraphx.readwrite.save import save_hypergraph
    return save_hypergraph, load_hypergraph


def jnorm(v):
    if isinstance(v, (list, tuple)):
        return [jnorm(x) for x in v]
    if isinstance(v, dict):
        return {k: jnorm(x) for k, x in v.items()}
    return v


def _norm_obs(o, strip_reserved):
    """JSON-normalise every metadata dict of an observation; returns (obs, hypergraph metadata)."""
    o = dict(o)
    o.pop("existing_layers", None)
    hg = o.pop("__hg_meta__")
    for q in list(o):
        # also the filtered listings, whose keys are ("edges_meta", <filter>)
        if q in EDGE_META_Q or (isinstance(q, tuple) and q and q[0] in EDGE_META_Q):
            o[q] = {k: (jnorm({f: x for f, x in v.items()
                               if not (strip_reserved and f in RESERVED)})
                        if isinstance(v, dict) else v) for k, v in o[q].items()}
    for q in NODE_META_Q:
        if q in o:
            o[q] = {k: jnorm(v) for k, v in o[q].items()}
    user = ({f: jnorm(x) for f, x in hg.items() if f not in B.HG_OWN}
            if isinstance(hg, dict) else hg)
    return o, user


def type_diff(e, o, path=""):
    """First place where two == observations differ in the TYPE of a label, weight or
    metadata value (1 / 1.0 / True, "2" / 2), as text; None when there is none.  Lists and
    tuples count as one type (JSON arrays); containers are matched element by element."""
    seq = (list, tuple)
    if isinstance(e, seq) and isinstance(o, seq):
        for i, (x, y) in enumerate(zip(e, o)):
            d = type_diff(x, y, "%s[%d]" % (path, i))
            if d:
                return d
        return None
    if isinstance(e, dict) and isinstance(o, dict):
        theirs = {kk: kk for kk in o}
        for kk in e:
            if kk not in theirs:
                continue
            d = (type_diff(kk, theirs[kk], "%s<key %r>" % (path, kk))
                 or type_diff(e[kk], o[theirs[kk]], "%s[%r]" % (path, kk)))
            if d:
                return d
        return None
    if isinstance(e, (set, frozenset)) and isinstance(o, (set, frozenset)):
        theirs = {x: x for x in o}
        for x in e:
            if x in theirs:
                d = type_diff(x, theirs[x], "%s{%r}" % (path, x))
                if d:
                    return d
        return None
    if type(e) is not type(o):
        return "%s: expected %r (%s), got %r (%s)" % (path or "value", e, type(e).__name__, o,
                                                      type(o).__name__)
    return None


def _typed(o):
    """The part of an observation whose types are compared: the unfiltered queries (the
    filtered listings and the per-node tables restate the same labels, weights and metadata
    dicts many times over)."""
    return {q: v for q, v in o.items()
            if isinstance(q, str) and not (isinstance(v, dict) and v
                                           and all(isinstance(x, dict) and any(
                                               isinstance(kk, tuple) or kk is None for kk in x)
                                               for x in v.values()))
            and q != "get_edges(time_window)"}


STEMS = ["g", "my.graph", "a.b.c"]


def _save_to(save, obj, d, fmt, sel, ctx):
    """Save obj below directory d as <stem>.<fmt>; the selector chooses the file stem (with or
    without dots), a sub-directory with dots in its names, and whether the ``binary`` argument
    is left at its default (False) for the text format.  The extension always agrees with
    ``binary``.  Returns the path."""
    stem = STEMS[sel % 3]
    if (sel // 3) % 2:
        d = os.path.join(d, "run.1", "v2.0")
        os.makedirs(d, exist_ok=True)
        ctx.label("path:dotted_directory")
    if stem != "g":
        ctx.label("path:dotted_stem")
    path = os.path.join(d, stem + "." + fmt)
    if fmt == "json" and (sel // 6) % 2:
        save(obj, path)
        ctx.label("binary_argument_omitted")
    else:
        save(obj, path, binary=(fmt == "hgx"))
    return path


def _listing(h):
    """the plain listings, in the order the object gives them"""
    return {"get_nodes()": list(h.get_nodes()), "get_edges()": list(h.get_edges())}


def _require_untouched(h, k, U, probes, before, before_listing, how):
    after = k.observe(h, U, probes)
    df = diff_obs(before, after)
    require(df is None, lambda: "%s modified the object it saved: %s" % (how, df),
            key="save-mutates")
    td = type_diff(_typed(before), _typed(after))
    require(td is None, lambda: "%s modified the object it saved (type of a value): %s"
            % (how, td), key="save-mutates-type")
    after_listing = _listing(h)
    require(after_listing == before_listing,
            lambda: "%s changed the order in which the saved object lists its nodes / hyperedges: "
                    "before %r, after %r" % (how, before_listing, after_listing),
            key="save-reorders")


# --------------------------------------------------------------------------
# building the object to save


def build_object(case, ctx):
    T = B.derive(case["content"])
    U = case["content"]["universe"]["labels"]
    h, b = B.build(T, U, case["side"])
    k = b.k
    post = []
    if case["tuple_values"]:
        # JSON arrays may be given as tuples: every top-level list value becomes a tuple
        for n, meta in T["nodes"].items():
            for f, v in meta.items():
                if isinstance(v, list):
                    h.set_attr_to_node_metadata(n, f, tuple(v))
                    post.append(["set_attr_to_node_metadata", n, f, "tuple"])
        for key, (w, meta) in T["edges"].items():
            for f, v in meta.items():
                if isinstance(v, list):
                    k.ad.r_set_attr_edge(h, k.ad.record_of_key(key, 1), f, tuple(v))
                    post.append(["set_attr_to_edge_metadata", k.probe(key), f, "tuple"])
        for f, v in T["hg_user"].items():
            if isinstance(v, list):
                h.set_attr_to_hypergraph_metadata(f, tuple(v))
        if post:
            ctx.label("tuple_valued_metadata")
    probes = [k.probe(key) for key in T["edges"]]
    ctx.trace = {"type": T["type"], "history": b.trace, "then": post}
    # classification
    used = set()
    for key in T["edges"]:
        used |= k.nodes_of(key)
    iso = any(n not in used for n in T["nodes"])
    wmeta = T["weighted"] and any(m for (_, m) in T["edges"].values())
    if iso:
        ctx.label("isolated_node")
    if wmeta:
        ctx.label("weighted_hyperedge_with_metadata")
    if T["type"] in ("TemporalHypergraph", "MultiplexHypergraph"):
        sets = Counter(frozenset(k.nodes_of(key)) for key in T["edges"])
        if any(c > 1 for c in sets.values()):
            ctx.label("same_node_set_at_two_times_or_layers")
    ctx.label("weighted" if T["weighted"] else "unweighted")
    ctx.label("labels:" + case["content"]["universe"]["kind"])
    if not T["edges"]:
        ctx.label("no_hyperedges")
    B.history_labels(b, ctx)
    return h, T, U, k, probes, (iso and wmeta)


def _describe(case_trace):
    s = repr(case_trace)
    return s if len(s) < 1200 else s[:1200] + "..."


def _roundtrip(fmt):
    def check(case, ctx):
        save, load = _io()
        h, T, U, k, probes, nontrivial = build_object(case, ctx)

        trips = []

        def round_trip(phase, obj=None, src_is_text_loaded=False):
            obj = h if obj is None else obj
            before = k.observe(obj, U, probes)
            listing = _listing(obj)
            trips.append(phase)
            with tempfile.TemporaryDirectory() as d:
                path = _save_to(save, obj, d, fmt, case.get("path", 0) + 5 * (len(trips) - 1), ctx)
                loaded = load(path)
            what = "%s%s saved as .%s and loaded" % (T["type"], phase, fmt)
            # saving does not modify the object being saved
            _require_untouched(obj, k, U, probes, before, listing,
                               "save_hypergraph(%s%s, binary=%s)" % (T["type"], phase, fmt == "hgx"))
            require(type(loaded).__name__ == T["type"],
                    lambda: "%s: type of the loaded object is %s, expected %s"
                    % (what, type(loaded).__name__, T["type"]), key="type")
            after = k.observe(loaded, U, probes)
            eo, ehg = _norm_obs(before, src_is_text_loaded)
            oo, ohg = _norm_obs(after, fmt == "json")
            d = diff_obs(eo, oo)
            require(d is None, lambda: "%s: %s   (built by %s)" % (what, d, _describe(ctx.trace)),
                    key="loaded-differs")
            require(ehg == ohg,
                    lambda: "%s: hypergraph metadata (without the keys weighted/type) expected %r, "
                            "got %r" % (what, ehg, ohg), key="hypergraph-metadata")
            # ... with the same numeric / bool / str types (both formats can represent them)
            td = type_diff(_typed(eo), _typed(oo)) or type_diff(ehg, ohg, "hypergraph metadata")
            require(td is None, lambda: "%s: equal but of another type: %s   (built by %s)"
                    % (what, td, _describe(ctx.trace)), key="loaded-differs-in-type")
            return loaded, what

        first_loaded, _ = round_trip("")
        # objects loaded earlier are independent of later loads: edit the metadata of the loaded
        # object in place (items without metadata on purpose: a default dict shared between
        # loads would carry the edit over) and take the original through the format again
        edited = False
        for n in sorted(T["nodes"], key=repr):
            if not T["nodes"][n]:
                first_loaded.set_attr_to_node_metadata(n, "zq", 1)
                edited = True
                break
        for key in T["order"]:
            if not T["edges"][key][1]:
                k.ad.r_set_attr_edge(first_loaded, k.ad.record_of_key(key, 1), "zq", 1)
                edited = True
                break
        if edited:
            round_trip(" (again, after an in-place metadata edit on the object loaded before)")
            ctx.label("reload_after_editing_first_load")
        # second round trip of the same object (every case, so that these sub-cases are not
        # left to chance): the hypergraph metadata replaced wholesale through
        # set_hypergraph_metadata (the implementation-set 'weighted'/'type' fields are gone)
        # and, when weighted, one non-integer weight (JSON-representable, restored exactly)
        then = ctx.trace["then"]
        h.set_hypergraph_metadata(dc(case["wholesale"]))
        then.append(["set_hypergraph_metadata", case["wholesale"]])
        if T["weighted"] and T["edges"]:
            key = T["order"][0]
            k.ad.r_set_weight(h, k.ad.record_of_key(key, 2), T["edges"][key][0] + 0.5)
            then.append(["set_weight", k.probe(key), T["edges"][key][0] + 0.5])
            ctx.label("float_weight")
            if len(T["order"]) > 2:
                # a weight of exactly 0 is a weight too (falsy values must survive the format)
                key0 = T["order"][2]
                k.ad.r_set_weight(h, k.ad.record_of_key(key0, 4), 0)
                then.append(["set_weight", k.probe(key0), 0])
                ctx.label("zero_weight")
            # an integer beyond 2**53 (not a float in disguise) and a negative weight, on the
            # second and the fourth hyperedge (which gets which depends on the case)
            i_huge, i_neg = (1, 3) if case.get("path", 0) % 2 == 0 else (3, 1)
            if len(T["order"]) > i_huge:
                key1 = T["order"][i_huge]
                k.ad.r_set_weight(h, k.ad.record_of_key(key1, 5), 2 ** 60)
                then.append(["set_weight", k.probe(key1), 2 ** 60])
                ctx.label("huge_int_weight")
            if len(T["order"]) > i_neg:
                key3 = T["order"][i_neg]
                try:
                    k.ad.r_set_weight(h, k.ad.record_of_key(key3, 6), -2)
                    then.append(["set_weight", k.probe(key3), -2])
                    ctx.label("negative_weight")
                except ValueError:
                    # nothing says that a negative weight can be stored
                    ctx.exclude("the container refuses a negative hyperedge weight")
        loaded, what = round_trip(" (after %r)" % (then[-4:],))
        # the loaded object is the same hypergraph: the same further calls (a new hyperedge on
        # possibly new nodes, then the removal of an old hyperedge) lead to the same observation
        ad = k.ad
        rec = ad.fresh_record(B.expand_edge(case["after"]), U)
        key = ad.key_of(rec)
        if key not in T["edges"]:
            ops = [{"op": "add_edge", "e": rec, "meta": dc(case["after"]["meta"]),
                    "w": B.expand_edge(case["after"])["w"] if T["weighted"] else None}]
            if T["order"]:
                ops.append({"op": "remove_edge", "e": ad.record_of_key(T["order"][0], 3)})
            for obj in (h, loaded):
                for c in ops:
                    B.H.apply_real(ad, obj, c)
            probes2 = probes + [k.probe(key)]
            eo, _ = _norm_obs(k.observe(h, U, probes2), False)
            oo, _ = _norm_obs(k.observe(loaded, U, probes2), fmt == "json")
            d = diff_obs(eo, oo)
            require(d is None,
                    lambda: "%s, then %r applied to the original and to the loaded object: %s"
                    % (what, ops, d), key="loaded-diverges-after-further-calls")
            td = type_diff(_typed(eo), _typed(oo))
            require(td is None,
                    lambda: "%s, then %r applied to the original and to the loaded object: equal "
                            "but of another type: %s" % (what, ops, td),
                    key="loaded-diverges-after-further-calls-in-type")
            ctx.label("further_calls_checked")
        # a loaded object is itself a hypergraph the property ranges over (its hyperedge
        # metadata may now carry the reserved keys the text format stores): change a weight
        # on it and take it through the same format once more
        if T["weighted"] and len(T["order"]) > 1:
            key2 = T["order"][1]
            new_w = T["edges"][key2][0] + 3
            ad.r_set_weight(loaded, ad.record_of_key(key2, 1), new_w)
            round_trip(" (loaded object after set_weight(%r, %r), second hop)"
                       % (k.probe(key2), new_w), obj=loaded, src_is_text_loaded=(fmt == "json"))
            ctx.label("second_hop_after_set_weight")
        ctx.nontrivial(nontrivial)
    return check


def check_save_pure(case, ctx):
    save, load = _io()
    h, T, U, k, probes, nontrivial = build_object(case, ctx)
    how = ""
    if case.get("wholesale_first"):
        # the hypergraph metadata replaced wholesale: the implementation-set fields
        # 'weighted' / 'type' are not in the dict when the object is saved
        h.set_hypergraph_metadata(dc(case["wholesale"]))
        ctx.trace["then"].append(["set_hypergraph_metadata", case["wholesale"]])
        ctx.label("hypergraph_metadata_replaced_wholesale")
        how = " after set_hypergraph_metadata(%r)" % (case["wholesale"],)
    before = k.observe(h, U, probes)
    listing = _listing(h)
    order = ["json", "hgx"] if case["json_first"] else ["hgx", "json"]
    with tempfile.TemporaryDirectory() as d:
        for i, fmt in enumerate(order):
            _save_to(save, h, d, fmt, case.get("path", 0) + 5 * i, ctx)
            _require_untouched(h, k, U, probes, before, listing,
                               "save_hypergraph(%s%s, binary=%s)" % (T["type"], how, fmt == "hgx"))
    ctx.label("type:" + T["type"])
    ctx.nontrivial(bool(T["edges"]) and (T["weighted"] or T["type"] in
                                         ("TemporalHypergraph", "MultiplexHypergraph")))


def _object_strategy(type_name, extra=None):
    def strat(tier):
        quick = tier == "quick"
        d = {
            "content": B.contents(type_name, max_edges=5 if quick else 7),
            "side": B.sides(6 if quick else 10),
            "wholesale": B.rich_metadata(),
            "tuple_values": st.booleans(),
            "after": B.edge_content(),
            "path": st.sampled_from(range(12)),
        }
        d.update(extra or {})
        return st.fixed_dictionaries(d)
    return strat


# --------------------------------------------------------------------------
# hMETIS

COMMENTS = ["% a comment", "%", "   % indented comment 3 4", "%1 2 3", "%% 7 7", "% 2 2 1"]


@st.composite
def hgr_files(draw, tier):
    # up to 15 vertices: ids with two digits
    n = draw(st.one_of(st.integers(1, 8), st.integers(9, 15)))
    edges = draw(st.lists(
        st.lists(st.integers(1, n), min_size=1, max_size=min(n, 5), unique=True),
        min_size=draw(st.sampled_from([0, 1, 1, 1, 2, 2, 3])), max_size=6,
        unique_by=lambda e: tuple(sorted(e))))
    fmt = draw(st.sampled_from([None, 0, 1, 10, 11, 1, 11]))
    decor = draw(st.lists(st.tuples(st.integers(0, 20), st.integers(-2, len(COMMENTS) - 1)),
                          max_size=5))
    return {
        "N": n, "edges": edges, "fmt": fmt,
        "weights": draw(st.lists(st.integers(1, 99), min_size=len(edges), max_size=len(edges))),
        "vertex_weights": draw(st.lists(st.integers(0, 9), min_size=n, max_size=n)),
        "decor": [list(t) for t in decor],     # (position, comment index or blank line)
        "lead": draw(st.booleans()), "trail": draw(st.booleans()),
        "wide": draw(st.booleans()),           # several spaces between tokens of a hyperedge line
        "wide_header": draw(st.sampled_from([False] * 4 + [True])),
        "final_newline": draw(st.booleans()),
        "crlf": draw(st.sampled_from([False, False, True])),   # lines end in \r\n
    }


def render_hgr(c):
    sep = "   " if c["wide"] else " "
    weighted = c["fmt"] is not None and c["fmt"] % 10 == 1
    lines = [("  " if c["wide_header"] else " ").join(
        str(x) for x in ([len(c["edges"]), c["N"]] + ([c["fmt"]] if c["fmt"] is not None else [])))]
    for i, e in enumerate(c["edges"]):
        toks = ([c["weights"][i]] if weighted else []) + list(e)
        lines.append(sep.join(str(x) for x in toks))
    if c["fmt"] is not None and c["fmt"] >= 10:
        lines += [str(w) for w in c["vertex_weights"]]
    lines = [("  " if c["lead"] else "") + l + ("  " if c["trail"] else "") for l in lines]
    for pos, ci in sorted(c["decor"], key=lambda t: -t[0]):
        text = "" if ci == -1 else "   " if ci == -2 else COMMENTS[ci]
        lines.insert(pos % (len(lines) + 1), text)
    nl = "\r\n" if c.get("crlf") else "\n"
    return nl.join(lines) + (nl if c["final_newline"] else "")


def check_hmetis(case, ctx):
    _, load = _io()
    text = render_hgr(case)
    ctx.trace = {"file": text.split("\n")}
    with tempfile.TemporaryDirectory() as d:
        path = os.path.join(d, "g.hgr")
        with open(path, "w", newline="") as f:     # (no newline translation: \r\n stays \r\n)
            f.write(text)
        h = load(path)
    weighted = case["fmt"] is not None and case["fmt"] % 10 == 1
    want = {tuple(sorted(e)): (case["weights"][i] if weighted else 1)
            for i, e in enumerate(case["edges"])}
    got = Counter(tuple(sorted(e)) for e in h.get_edges())
    require(got == Counter(want.keys()),
            lambda: "hMETIS reader: get_edges() = %r, the file lists %r; file %r"
            % (dict(got), sorted(want), text), key="hgr-edges")
    require(h.is_weighted() == weighted,
            lambda: "hMETIS reader: is_weighted() = %r for fmt %r" % (h.is_weighted(), case["fmt"]),
            key="hgr-weighted")
    for e, w in want.items():
        require(h.get_weight(e) == w,
                lambda: "hMETIS reader: get_weight(%r) = %r, the file says %r; file %r"
                % (e, h.get_weight(e), w, text), key="hgr-weight")
    nodes = Counter(h.get_nodes())
    union = set()
    for e in want:
        union |= set(e)
    require(all(c == 1 for c in nodes.values()) and union <= set(nodes) <= set(range(1, case["N"] + 1)),
            lambda: "hMETIS reader: nodes %r, expected the vertices of the hyperedges %r (and at "
                    "most 1..%d)" % (sorted(nodes.elements()), sorted(union), case["N"]),
            key="hgr-nodes")
    has_comment = any(ci >= 0 for _, ci in case["decor"])
    ctx.label("fmt:%s" % case["fmt"])
    if has_comment:
        ctx.label("comment_lines")
    if any(ci < 0 for _, ci in case["decor"]):
        ctx.label("blank_lines")
    if case["wide"]:
        ctx.label("several_spaces")
    if case["wide_header"]:
        ctx.label("several_spaces_in_header")
    if case.get("crlf"):
        ctx.label("crlf_line_endings")
    if any(v >= 10 for e in case["edges"] for v in e):
        ctx.label("two_digit_vertex_id")
    if not case["edges"]:
        ctx.label("no_hyperedges")
    ctx.nontrivial(has_comment and weighted and len(case["edges"]) >= 2)


# --------------------------------------------------------------------------
# HIF

EDGE_IDS = {"strs": ["e1", "e2", "E10", "a", "7", "x y", "B"], "ints": [0, 5, 12, -1, 3, 8, 100]}


def _attrs(draw, rec):
    """optional HIF fields of a record"""
    a = draw(st.integers(0, 5))
    if a % 2:
        rec["attrs"] = draw(st.sampled_from(B.META_POOL))
    if a >= 4:
        rec["weight"] = draw(st.sampled_from([1, 2, 0.5, 3.0]))
    return rec


@st.composite
def hif_docs(draw, tier):
    kind = draw(st.sampled_from(["ints", "strs"]))
    nodes = draw(st.lists(st.sampled_from(S.INT_POOL if kind == "ints" else S.STR_POOL),
                          min_size=1, max_size=7, unique=True))
    ekind = draw(st.sampled_from(["ints", "strs"]))
    eids = draw(st.lists(st.sampled_from(EDGE_IDS[ekind]), max_size=5, unique=True))
    incidences, edge_recs, in_some = [], [], set()
    earlier = []
    for eid in eids:
        members = draw(st.lists(st.sampled_from(nodes), max_size=4, unique=True))
        if earlier and draw(st.integers(0, 3)) == 0:
            # a second name for an incidence set that is already described (in another order)
            members = list(reversed(draw(st.sampled_from(earlier))))
        if members:
            earlier.append(members)
        for m in members:
            in_some.add(m)
            incidences.append(_attrs(draw, {"edge": eid, "node": m}))
        if not members or draw(st.integers(0, 3)) > 0:
            edge_recs.append(_attrs(draw, {"edge": eid}))
    node_recs = []
    for n in nodes:
        # a node that is in no incidence exists only through its record
        if n not in in_some or draw(st.integers(0, 3)) > 0:
            node_recs.append(_attrs(draw, {"node": n}))
    rng = random.Random(draw(st.integers(0, 10**6)))
    rng.shuffle(incidences)
    rng.shuffle(edge_recs)
    rng.shuffle(node_recs)
    doc = {"nodes": node_recs, "edges": edge_recs, "incidences": incidences}
    t = draw(st.sampled_from([None, "undirected", "asc"]))
    if t is not None:
        doc["type"] = t
    if draw(st.booleans()):
        doc["metadata"] = draw(st.sampled_from(B.META_POOL))
    return {"doc": doc}


def check_hif(case, ctx):
    from hypergraphx.readwrite.hif import read_hif
    doc = case["doc"]
    with tempfile.TemporaryDirectory() as d:
        path = os.path.join(d, "g.hif.json")
        with open(path, "w") as f:
            json.dump(doc, f)
        h = read_hif(path)
    node_rec = {r["node"]: r for r in doc["nodes"]}
    edge_rec = {r["edge"]: r for r in doc["edges"]}
    members = {}
    for inc in doc["incidences"]:
        members.setdefault(inc["edge"], set()).add(inc["node"])
    names = set(node_rec) | {inc["node"] for inc in doc["incidences"]}

    # 1. name -> node id, recovered from the records the public API returns
    name2id = {}

    def bind(name, uid, src):
        if name in name2id and name2id[name] != uid:
            raise Violation("HIF reader: node %r of the file is node %r according to %s but node "
                            "%r elsewhere" % (name, uid, src, name2id[name]), key="hif-node-map")
        name2id[name] = uid

    nodes_meta = h.get_nodes(metadata=True)
    for uid, md in nodes_meta.items():
        if isinstance(md, dict) and "node" in md:
            bind(md["node"], uid, "its node record")
    inc_meta = h.get_all_incidences_metadata()
    for key, rec in inc_meta.items():
        require(isinstance(key, tuple) and len(key) == 2 and isinstance(rec, dict) and "node" in rec,
                lambda: "HIF reader: incidence table entry %r -> %r is not ((hyperedge, node) -> "
                        "incidence record)" % (key, rec), key="hif-incidence-shape")
        bind(rec["node"], key[1], "an incidence record")
    require(set(name2id) == names,
            lambda: "HIF reader: nodes of the file %r, nodes that can be identified in the result "
                    "%r" % (sorted(names, key=repr), sorted(name2id, key=repr)), key="hif-nodes")
    require(len(set(name2id.values())) == len(name2id),
            lambda: "HIF reader: two nodes of the file share one node id: %r" % (name2id,),
            key="hif-node-map")
    require(Counter(h.get_nodes()) == Counter(name2id.values()),
            lambda: "HIF reader: get_nodes() = %r, expected exactly the ids %r of the file's nodes"
            % (sorted(h.get_nodes(), key=repr), name2id), key="hif-nodes")
    for name, uid in name2id.items():
        md = h.get_node_metadata(uid)
        ok = [node_rec[name]] if name in node_rec else [{}, {"node": name}]
        require(jnorm(md) in ok,
                lambda: "HIF reader: record of node %r is %r, the file has %r"
                % (name, md, ok[0] if name in node_rec else None), key="hif-node-record")

    # 2. hyperedges = distinct incidence sets
    def as_edge(ms):
        return tuple(sorted(name2id[m] for m in ms))

    by_set = {}
    for eid, ms in members.items():
        by_set.setdefault(as_edge(ms), []).append(eid)
    got = Counter(tuple(sorted(e)) for e in h.get_edges())
    require(got == Counter(by_set.keys()),
            lambda: "HIF reader: get_edges() = %r, the incidence sets of the file are %r (node ids "
                    "%r)" % (dict(got), sorted(by_set), name2id), key="hif-edges")
    for e, eids in by_set.items():
        # "one hyperedge per described incidence set together with the ... hyperedge ...
        # attribute records of the file": when one of the names of the set has a record, the
        # hyperedge carries a record of the file (either one, if two names have one)
        ok = [edge_rec[eid] for eid in eids if eid in edge_rec]
        if not ok:
            for eid in eids:
                ok += [{}, {"edge": eid}]
        elif len(eids) > 1 and len(ok) < len(eids):
            ctx.label("two_edge_ids_one_incidence_set_one_record")
        md = h.get_edge_metadata(e)
        require(jnorm(md) in ok,
                lambda: "HIF reader: record of hyperedge %r (edge ids %r) is %r, the file has %r"
                % (e, eids, md, [edge_rec.get(x) for x in eids]), key="hif-edge-record")
    # 3. incidence records
    want_inc = {}
    for inc in doc["incidences"]:
        want_inc.setdefault((as_edge(members[inc["edge"]]), name2id[inc["node"]]), []).append(inc)
    got_keys = {(tuple(sorted(k[0])), k[1]) for k in inc_meta}
    require(got_keys == set(want_inc),
            lambda: "HIF reader: incidence records exist for %r, the file has incidences %r"
            % (sorted(got_keys, key=repr), sorted(want_inc, key=repr)), key="hif-incidences")
    for (e, uid), recs in want_inc.items():
        md = h.get_incidence_metadata(e, uid)
        require(jnorm(md) in recs,
                lambda: "HIF reader: get_incidence_metadata(%r, %r) = %r, the file has %r"
                % (e, uid, md, recs), key="hif-incidence-record")
    # classification
    shared = Counter()
    for e in by_set:
        shared.update(e)
    if any(len(v) > 1 for v in by_set.values()):
        ctx.label("two_edge_ids_one_incidence_set")
    if any(eid not in members for eid in edge_rec):
        ctx.label("edge_record_without_incidences")
    if any(n not in node_rec for n in names):
        ctx.label("incidence_only_node")
    if any(n not in {i["node"] for i in doc["incidences"]} for n in node_rec):
        ctx.label("isolated_node")
    ctx.label("type:%s" % doc.get("type"))
    ctx.nontrivial(len(by_set) >= 2 and any(c >= 2 for c in shared.values()))


# --------------------------------------------------------------------------

_RT_RULE = ("object with at least one isolated node and at least one metadata-carrying weighted "
            "hyperedge; distinct by canonical JSON of the case")

CLAUSES = [
    Clause("roundtrip_%s.%s" % (fmt, name), _object_strategy(name), _roundtrip(fmt),
           quick=150, thorough=1000, rule=_RT_RULE)
    for fmt in ("json", "hgx") for name in B.TYPES
] + [
    Clause("save_does_not_mutate", _object_strategy(None, {"json_first": st.booleans(), "wholesale_first": st.booleans()}),
           check_save_pure, quick=200, thorough=1000, shards_quick=2,
           rule="object with hyperedges that is weighted, temporal or multiplex (the text format "
                "then writes reserved keys next to the hyperedge metadata)"),
    Clause("hmetis", lambda tier: hgr_files(tier), check_hmetis, quick=400, thorough=2000,
           rule="file with comment lines, hyperedge weights and at least two hyperedges"),
    Clause("hif", lambda tier: hif_docs(tier), check_hif, quick=400, thorough=2000,
           rule="document with at least two hyperedges that share a node"),
]

# supplementary coverage-guided campaigns run after the Hypothesis search of the thorough tier
# (libFuzzer through atheris drives the same grammar strategies and the same oracle)
POST_THOROUGH = [
    ("atheris:hmetis", ["{verif}/tools/atheris_c06.py", "hmetis", "-runs=40000"]),
    ("atheris:hif", ["{verif}/tools/atheris_c06.py", "hif", "-runs=15000"]),
]
