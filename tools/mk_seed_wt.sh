#!/bin/bash
# usage: mk_seed_wt.sh 05 08 ...   creates /tmp/seed_cNN worktrees of /repo HEAD with PROPERTY.txt
for i in "$@"; do
  git -C /repo worktree remove --force /tmp/seed_c$i 2>/dev/null
  git -C /repo worktree add -q --detach /tmp/seed_c$i HEAD && echo made $i
  python3 - "$i" <<'PY'
import json, sys
i = sys.argv[1]
for l in open('/verif/properties.jsonl'):
    p = json.loads(l)
    if p['id'] == 'C' + i:
        open('/tmp/seed_c%s/PROPERTY.txt' % i, 'w').write("%s: %s\n\nStatement: %s\n\nQuantifier: %s\n\nAnchored files: %s\n" % (p['id'], p['title'], p['statement'], p['quantifier']['text'], ", ".join(p['anchors']['files'])))
PY
done
