"""C13 -- configuration models preserve every node's degree and every hyperedge size.

Invariant over random executions.  The code under test draws from the *global*
``numpy.random`` (undirected model) or ``random`` (directed model) state, so
every call is preceded by ``random.seed(k); numpy.random.seed(k)`` with ``k``
taken from the case; each input is run with several drawn seeds (this is how
"all outcomes of the random choices" is sampled).

The oracle never looks at *which* hypergraph comes back, only at invariants
that every execution of the chain must keep:

* a node has, at every hyperedge size (only in total when ``detailed=False``),
  at most the degree it has in the input -- the degrees of the input are
  counted from the abstract content of the case, those of the output both from
  its hyperedge listing and from ``degree(node, size=k)``;
* every output hyperedge lists distinct nodes of the input and the multiset of
  output sizes (directed: ``(|source|, |target|)`` shapes) is a sub-multiset of
  the input's (each output hyperedge is a rewritten input hyperedge);
* when the output has as many hyperedges as the input: equality of every
  degree and of the size / shape multiset;
* when it has r fewer ("two reshuffled hyperedges coincided" is the only
  licence the statement gives): some r hyperedges of the output listing, taken
  with repetition as the coinciding copies, must account exactly for the missing
  memberships and sizes / shapes; with ``n_steps=0`` nothing is reshuffled and
  the count must be the input's;
* (own key ``input-modified``, not part of the statement) the argument still
  lists the same hyperedges, weights and nodes after the call;
* with ``size=`` / ``order=``: the hyperedges of all other sizes are exactly
  those of the input.
"""

import random
from collections import Counter

import numpy as np
from hypothesis import strategies as st

from .. import strategies as S
from ..common import permuted
from ..engine import Clause, require
from ..common import with_history  # noqa: E402

ASSUMPTIONS = [
    "oracle = invariants over the random execution (degree per node and size never higher; "
    "equality and equal size/shape multiset when the hyperedge count is preserved; other sizes "
    "present unchanged); input degrees are counted from the case, output degrees from the "
    "hyperedge listing and from the public degree queries",
    "the global numpy.random / random states are seeded from integers in the case right before "
    "every call; 'all outcomes of the random choices' is sampled with several seeds per input",
    "a node of the input that the output does not list counts as degree 0 there (the property "
    "claims degrees, not the node set: the models drop isolated nodes)",
    "weights and metadata of the input are outside the statement (the models return a fresh "
    "unweighted hypergraph); weighted inputs are generated only to exercise the code path",
    "label in {'edge','stub'} only; label='vertex' and n_clash are outside the quantifier; "
    "n_steps and/or label are omitted in about a tenth of the cases (defaults 1000 / 'edge')",
    "a lower hyperedge count is accepted only when r = |input| - |output| hyperedges taken with "
    "repetition from the output listing explain the missing memberships (per (node,size) when "
    "detailed, per node otherwise; directed: per (node, source/target)) and the missing sizes / "
    "shapes (exhaustive search; r > 6 is excluded and counted); the API degree sequences of a "
    "directed output may pair with source/target either way",
    "n_steps=0: the input hyperedges are distinct and nothing is reshuffled, so the count is kept",
    "the models are expected not to modify their argument (hyperedges, weights, nodes): checked "
    "under the separate key 'input-modified' because the statement only presumes it",
    "directed: in 3 cases of 5 the output is handed back to the model once or twice (inputs whose "
    "source and target share a node are accepted by DirectedHypergraph); a fed-back output with "
    "fewer than two hyperedges ends the chain",
    "a size/order argument mostly names a size that has hyperedges; one case in eight names an "
    "absent size (nothing to reshuffle: all hyperedges must be returned intact)",
    "directed hyperedges are generated with disjoint non-empty source and target; whether the "
    "output keeps source and target disjoint is not claimed by the property and only labelled",
]

SIZE_POOL = [2, 2, 2, 3, 3, 3, 4, 5, 1]


def _seed(k):
    random.seed(k)
    np.random.seed(k)


def _py(x):
    """numpy scalar -> python value (labels may come back as numpy scalars)."""
    return x.item() if isinstance(x, np.generic) else x


# ---------------------------------------------------------------------------
# undirected


def _warmup(h):
    """Ask the size-restricted model once per present size (results discarded): a split or
    listing remembered per object must not survive the restoration of the content."""
    import numpy as np
    from hypergraphx.generation.configuration_model import configuration_model
    for k in sorted(set(h.get_sizes())):
        np.random.seed(0)
        configuration_model(h, n_steps=1, size=k)
    np.random.seed(0)
    configuration_model(h, n_steps=1)


@with_history(warmup=_warmup)
def _build(case):
    from hypergraphx import Hypergraph
    U = case["labels"]
    edges = [tuple(U[i] for i in permuted(e, case["perm"])) for e in case["edges"]]
    kw = {}
    if case["weighted"]:
        kw = {"weighted": True, "weights": list(case["weights"][:len(edges)])}
    h = Hypergraph(edge_list=edges, **kw)
    if case["all_nodes"]:
        h.add_nodes(list(U))
    in_edges = [frozenset(e) for e in edges]
    in_nodes = set(U) if case["all_nodes"] else set().union(*in_edges)
    return h, in_edges, in_nodes


def _degrees(edges):
    """(node, size) -> degree and node -> degree of a list of node sets."""
    by_size, total = Counter(), Counter()
    for e in edges:
        for n in e:
            by_size[(n, len(e))] += 1
            total[n] += 1
    return by_size, total


def _observe(out, in_nodes, what):
    """Hyperedges (frozensets) and API degrees of an output Hypergraph."""
    from hypergraphx import Hypergraph
    require(isinstance(out, Hypergraph),
            lambda: "%s returned %r, not a Hypergraph" % (what, type(out).__name__),
            key="type")
    listing = []
    for e in out.get_edges():
        e = tuple(_py(n) for n in e)
        require(len(set(e)) == len(e),
                lambda: "%s: output hyperedge %r lists a node twice" % (what, e), key="dup-node")
        listing.append(tuple(sorted(e)))
    dup = [e for e, c in Counter(listing).items() if c > 1]
    require(not dup, lambda: "%s: get_edges() of the result lists %r more than once"
            % (what, dup[0]), key="dup-edge")
    nodes = [_py(n) for n in out.get_nodes()]
    for e in listing:
        for n in e:
            require(n in in_nodes,
                    lambda: "%s: output hyperedge %r contains %r, which is not a node of the "
                    "input (nodes %r)" % (what, e, n, sorted(in_nodes, key=repr)),
                    key="foreign-node")
    sizes = sorted({len(e) for e in listing})
    api_by_size, api_total = Counter(), Counter()
    for n in nodes:
        api_total[n] = out.degree(n)
        for k in sizes:
            api_by_size[(n, k)] = out.degree(n, size=k)
    api_sizes = Counter(out.get_sizes())
    return [frozenset(e) for e in listing], nodes, api_by_size, api_total, api_sizes


def _snapshot(h):
    """What the caller can see of the input: hyperedges with weights, nodes (order-free)."""
    return (Counter((tuple(sorted((_py(n) for n in e), key=repr)), h.get_weight(e))
                    for e in h.get_edges()),
            Counter(_py(n) for n in h.get_nodes()))


def _dsnapshot(h):
    return (Counter(((tuple(sorted((_py(n) for n in e[0]), key=repr)),
                      tuple(sorted((_py(n) for n in e[1]), key=repr))), h.get_weight(e))
                    for e in h.get_edges()),
            Counter(_py(n) for n in h.get_nodes()))


def _input_untouched(what, h, before, snapshot=None):
    # not part of the statement ("than in the input" presumes an input that is still there);
    # own key so that a reader can tell it from the degree claims
    after = (snapshot or _snapshot)(h)
    require(after == before,
            lambda: "%s modified its argument: hyperedges (with weights) before %r, after %r; "
            "nodes before %r, after %r"
            % (what, sorted(before[0].items(), key=repr), sorted(after[0].items(), key=repr),
               sorted(before[1], key=repr), sorted(after[1], key=repr)), key="input-modified")


def _check_degrees(what, in_edges, out_edges, per_size, api_by_size, api_total, api_sizes,
                   n_steps=None, ctx=None):
    in_by, in_tot = _degrees(in_edges)
    out_by, out_tot = _degrees(out_edges)
    in_sizes = Counter(len(e) for e in in_edges)
    out_sizes = Counter(len(e) for e in out_edges)
    same_count = len(out_edges) == len(in_edges)
    if n_steps == 0:
        # nothing is reshuffled and the hyperedges of the input are distinct: none can coincide
        require(same_count,
                lambda: "%s: n_steps=0 reshuffles nothing, yet the output has %d hyperedges and "
                "the input %d; input %s, output %s"
                % (what, len(out_edges), len(in_edges), _fmt(in_edges), _fmt(out_edges)),
                key="count-changed-without-steps")
    views = [("hyperedge listing", out_by, out_tot, out_sizes),
             ("degree()/get_sizes()", api_by_size, api_total, api_sizes)]
    for view, o_by, o_tot, o_sizes in views:
        if per_size:
            for (n, k), d in sorted(o_by.items(), key=repr):
                require(d <= in_by[(n, k)],
                        lambda: "%s: degree of node %r at size %d is %d in the output (%s) but "
                        "%d in the input; input %s, output %s"
                        % (what, n, k, d, view, in_by[(n, k)], _fmt(in_edges), _fmt(out_edges)),
                        key="degree-increased")
        for n, d in sorted(o_tot.items(), key=repr):
            require(d <= in_tot[n],
                    lambda: "%s: total degree of node %r is %d in the output (%s) but %d in the "
                    "input; input %s, output %s"
                    % (what, n, d, view, in_tot[n], _fmt(in_edges), _fmt(out_edges)),
                    key="degree-increased")
        extra = o_sizes - in_sizes
        require(not extra,
                lambda: "%s: the output (%s) has hyperedge sizes %r that no input hyperedge "
                "accounts for; input sizes %r, output sizes %r"
                % (what, view, dict(extra), dict(in_sizes), dict(o_sizes)), key="size-changed")
        if same_count:
            if per_size:
                keys = set(in_by) | set(o_by)
                bad = sorted((k for k in keys if in_by[k] != o_by[k]), key=repr)
                require(not bad,
                        lambda: "%s: hyperedge count preserved (%d) but degree of node %r at size "
                        "%d is %d in the output (%s), %d in the input; input %s, output %s"
                        % (what, len(in_edges), bad[0][0], bad[0][1], o_by[bad[0]], view,
                           in_by[bad[0]], _fmt(in_edges), _fmt(out_edges)),
                        key="degree-changed")
            keys = set(in_tot) | set(o_tot)
            bad = sorted((k for k in keys if in_tot[k] != o_tot[k]), key=repr)
            require(not bad,
                    lambda: "%s: hyperedge count preserved (%d) but total degree of node %r is %d "
                    "in the output (%s), %d in the input; input %s, output %s"
                    % (what, len(in_edges), bad[0], o_tot[bad[0]], view, in_tot[bad[0]],
                       _fmt(in_edges), _fmt(out_edges)), key="degree-changed")
            require(o_sizes == in_sizes,
                    lambda: "%s: hyperedge count preserved (%d) but the size multiset changed "
                    "(%s): input %r, output %r"
                    % (what, len(in_edges), view, dict(in_sizes), dict(o_sizes)),
                    key="size-changed")
        elif len(out_edges) < len(in_edges):
            # "no two reshuffled hyperedges coincided" is the only licence for a lower count:
            # the r missing hyperedges must be copies of hyperedges that are listed
            r = len(in_edges) - len(out_edges)
            if r > R_CAP:
                if ctx is not None:
                    ctx.exclude("more than %d coinciding hyperedges: deficit not searched" % R_CAP)
                continue
            if per_size:
                cands = [(tuple((n, len(e)) for n in e), len(e)) for e in out_edges]
                need = Counter(in_by)
                need.subtract(o_by)
            else:
                cands = [(tuple(e), len(e)) for e in out_edges]
                need = Counter(in_tot)
                need.subtract(o_tot)
            need_sizes = Counter(in_sizes)
            need_sizes.subtract(o_sizes)
            require(_explain_deficit(cands, need, need_sizes, r),
                    lambda: "%s: the output lists %d hyperedge(s) fewer than the input, but no "
                    "%d listed hyperedges (with repetition), taken as the coinciding ones, account "
                    "for the missing memberships (%s) %r and sizes %r; input %s, output %s"
                    % (what, r, r, view, sorted((k for k in need.items() if k[1]), key=repr),
                       {k: v for k, v in need_sizes.items() if v}, _fmt(in_edges),
                       _fmt(out_edges)), key="deficit-unexplained")


R_CAP = 6


def _explain_deficit(cands, need_memb, need_shapes, r):
    """Is there a multiset D of r candidates (repetition allowed) whose memberships add up to
    need_memb and whose shapes add up to need_shapes?  cands = [(membership keys, shape)].
    The models return set(final chain state): a lower count can only come from chain
    hyperedges that coincide with one that IS listed, so the missing memberships must be
    those of r copies of listed hyperedges.  Depth-first search, pruned by the deficit."""
    if any(v < 0 for v in need_memb.values()) or any(v < 0 for v in need_shapes.values()):
        return False
    if sum(need_shapes.values()) != r:
        return False
    need = {k: v for k, v in need_memb.items() if v > 0}
    shp = {k: v for k, v in need_shapes.items() if v > 0}
    cands = [(ks, sh) for ks, sh in cands
             if shp.get(sh, 0) > 0 and all(need.get(k, 0) > 0 for k in ks)]

    def rec(start, left):
        if left == 0:
            return not need and not shp
        for i in range(start, len(cands)):
            ks, sh = cands[i]
            if shp.get(sh, 0) <= 0 or any(need.get(k, 0) <= 0 for k in ks):
                continue
            for k in ks:
                need[k] -= 1
                if not need[k]:
                    del need[k]
            shp[sh] -= 1
            if not shp[sh]:
                del shp[sh]
            ok = rec(i, left - 1)
            for k in ks:
                need[k] = need.get(k, 0) + 1
            shp[sh] = shp.get(sh, 0) + 1
            if ok:
                return True
        return False

    return rec(0, r)


def _fmt(edges):
    return repr(sorted((tuple(sorted(e, key=repr)) for e in edges), key=lambda t: (len(t), repr(t))))


DEFAULT_N_STEPS = 1000   # documented default of configuration_model (used for labels only)


def _call_args(case):
    kw = {}
    if case["n_steps"] is not None:       # None = argument omitted (default 1000)
        kw["n_steps"] = case["n_steps"]
    if case["label"] is not None:         # None = argument omitted (default 'edge')
        kw["label"] = case["label"]
    if case["detailed"] is not None:
        kw["detailed"] = case["detailed"]
    return kw


def check_undirected(case, ctx):
    from hypergraphx.generation.configuration_model import configuration_model
    kw = _call_args(case)
    detailed = case["detailed"] is not False
    changed = merged = False
    trace = []
    for k in case["seeds"]:
        h, in_edges, in_nodes = _build(case)
        what = "configuration_model(h, %s) [numpy seed %d]" % (
            ", ".join("%s=%r" % kv for kv in kw.items()), k)
        _seed(k)
        snap = _snapshot(h)
        out = configuration_model(h, **kw)
        _input_untouched(what, h, snap)
        out_edges, _nodes, a_by, a_tot, a_sizes = _observe(out, in_nodes, what)
        trace.append({"seed": k, "output": sorted(sorted(e, key=repr) for e in out_edges)})
        ctx.trace = {"input": sorted(sorted(e, key=repr) for e in in_edges), "runs": trace}
        _check_degrees(what, in_edges, out_edges, detailed, a_by, a_tot, a_sizes,
                       n_steps=case["n_steps"], ctx=ctx)
        changed = changed or set(out_edges) != set(in_edges)
        merged = merged or len(out_edges) < len(in_edges)
    _classify(case, ctx, [len(e) for e in case["edges"]], changed, merged)
    ctx.label("detailed=%r" % (case["detailed"],), "label=%s" % case["label"])


def _classify(case, ctx, sizes, changed, merged):
    rep = max(Counter(sizes).values())
    ctx.label("labels=" + case["kind"])
    ctx.label("changed" if changed else "unchanged")
    if merged:
        ctx.label("merged(count dropped)")
    if len(set(sizes)) > 1:
        ctx.label("mixed sizes")
    if case.get("weighted"):
        ctx.label("weighted input")
    if case.get("all_nodes"):
        ctx.label("isolated nodes possible")
    if 1 in sizes:
        ctx.label("has singleton")
    if "n_steps" in case:
        ns = case["n_steps"]
        if ns is None:
            ctx.label("n_steps omitted")
        else:
            ctx.label("n_steps=0" if ns == 0 else "n_steps<10" if ns < 10 else "n_steps>=10")
        if case["label"] is None:
            ctx.label("label omitted")
        ns = DEFAULT_N_STEPS if ns is None else ns
    else:
        ns = None
    ctx.nontrivial((ns is None or ns >= 10) and rep >= 3 and changed)


def check_restricted(case, ctx):
    from hypergraphx.generation.configuration_model import configuration_model
    size, present = _chosen_size(case)
    if size not in present:
        ctx.label("size argument names an absent size")
    kw = _call_args(case)
    if case["by"] == "size":
        kw["size"] = size
    else:
        kw["order"] = size - 1
    changed = merged = False
    trace = []
    for k in case["seeds"]:
        h, in_edges, in_nodes = _build(case)
        what = "configuration_model(h, %s) [numpy seed %d]" % (
            ", ".join("%s=%r" % kv for kv in kw.items()), k)
        _seed(k)
        snap = _snapshot(h)
        out = configuration_model(h, **kw)
        _input_untouched(what, h, snap)
        out_edges, _nodes, a_by, a_tot, a_sizes = _observe(out, in_nodes, what)
        trace.append({"seed": k, "output": sorted(sorted(e, key=repr) for e in out_edges)})
        ctx.trace = {"input": sorted(sorted(e, key=repr) for e in in_edges), "size": size,
                     "runs": trace}
        oth_in = {e for e in in_edges if len(e) != size}
        oth_out = {e for e in out_edges if len(e) != size}
        require(oth_in == oth_out,
                lambda: "%s: hyperedges of sizes other than %d must be returned intact; missing "
                "%s, unexpected %s; input %s, output %s"
                % (what, size, _fmt(oth_in - oth_out), _fmt(oth_out - oth_in), _fmt(in_edges),
                   _fmt(out_edges)), key="others-not-intact")
        # the other sizes are intact, so the per-size claim follows from the total one also
        # when detailed=False
        _check_degrees(what, in_edges, out_edges, True, a_by, a_tot, a_sizes,
                       n_steps=case["n_steps"], ctx=ctx)
        sub_in = [e for e in in_edges if len(e) == size]
        sub_out = [e for e in out_edges if len(e) == size]
        changed = changed or set(sub_out) != set(sub_in)
        merged = merged or len(sub_out) < len(sub_in)
    sizes = [len(e) for e in case["edges"]]
    n_of_size = sizes.count(size)
    rep = max(Counter(sizes).values())
    _classify(case, ctx, sizes, changed, merged)
    ctx.label("by=" + case["by"], "edges of the chosen size: %s"
              % ("1" if n_of_size == 1 else "2" if n_of_size == 2 else ">=3"))
    ctx.label("other sizes present" if len(present) > 1 else "uniform input")
    # the engine ORs nontrivial flags: re-state the rule for this clause explicitly
    ns = DEFAULT_N_STEPS if case["n_steps"] is None else case["n_steps"]
    ctx.is_nontrivial = bool(ns >= 10 and n_of_size >= 3 and changed
                             and len(present) > 1 and rep >= 3)


def _chosen_size(case):
    """size_sel = 0 names the most frequent size, i > 0 the i-th other one."""
    cnt = Counter(len(e) for e in case["edges"])
    present = sorted(cnt, key=lambda k: (-cnt[k], k))
    if case["size_sel"] % 8 == 7:
        # a size without any hyperedge: nothing is reshuffled, everything is returned intact
        return min(k for k in range(2, 9) if k not in cnt), present
    return present[case["size_sel"] % len(present)], present


# (lo, hi) classes; Hypothesis favours the first entry of sampled_from (about 30 %), so the
# first one is an interesting class and 0 / tiny chains keep a share of about 10 % each
N_STEP_CLASSES = [(10, 30), (0, 0), (1, 9), (10, 30), (20, 60), (20, 60), (40, 120), (100, 200)]
N_STEPS = st.sampled_from(N_STEP_CLASSES).flatmap(lambda c: st.integers(c[0], c[1]))


@st.composite
def _hypergraph_cases(draw, tier, restricted):
    """>= 2 distinct hyperedges: a block of 2..6 hyperedges of one 'main' size (so that the
    same-size proposal of the detailed chain has something to do) plus 0..4 hyperedges of
    drawn sizes 1..5; small universes make coinciding reshuffled hyperedges frequent."""
    big = tier != "quick"
    u = draw(S.universes(min_size=4, max_size=8 if big else 7))
    n = len(u["labels"])
    k = draw(st.sampled_from([k for k in (2, 2, 3, 3, 4) if k < n]))
    ksub = st.lists(st.integers(0, n - 1), min_size=k, max_size=k, unique=True)
    main = draw(st.lists(ksub, min_size=draw(st.sampled_from([3, 2, 3, 4])),
                         max_size=7 if big else 6, unique_by=lambda e: tuple(sorted(e))))
    pool = [j for j in SIZE_POOL if j <= min(n, 5)]
    other = st.sampled_from(pool).flatmap(
        lambda j: st.lists(st.integers(0, n - 1), min_size=j, max_size=j, unique=True))
    extra = draw(st.lists(other, min_size=draw(st.sampled_from([2, 0, 1, 2, 3])),
                          max_size=5 if big else 4,
                          unique_by=lambda e: tuple(sorted(e))))
    seen = {tuple(sorted(e)) for e in main}
    edges = list(main)
    for e in extra:
        if tuple(sorted(e)) not in seen:
            seen.add(tuple(sorted(e)))
            edges.append(e)
    # "staircase" family (one case in six, unrestricted model only): exactly two hyperedges
    # share a size and all the others have pairwise different sizes, so that the detailed
    # chain has to redraw its pair many times before it finds a same-size one
    stair = (not restricted) and draw(st.integers(0, 5)) == 0
    if stair and draw(st.booleans()):
        # large variant: 21 hyperedges of sizes 1..20 on 24 nodes (sizes all different except
        # one pair), where a same-size pair is drawn with probability about 1/20 only
        n = 24
        u = {"kind": "range", "labels": list(range(n))}
        k2 = draw(st.sampled_from([2, 3, 4]))
        start = draw(st.integers(0, n - 1))
        edges = [[(start + 5 * j + i) % n for i in range(j)] for j in range(1, 21)]
        edges.append([(start + 7 + i) % n for i in range(k2)])
        seen2, uniq = set(), []
        for e in edges:
            if tuple(sorted(e)) not in seen2:
                seen2.add(tuple(sorted(e)))
                uniq.append(e)
        edges = uniq
    elif stair:
        u = draw(S.universes(min_size=8, max_size=8))
        n = 8
        k2 = draw(st.sampled_from([2, 3]))
        pair = draw(st.lists(st.lists(st.integers(0, n - 1), min_size=k2, max_size=k2, unique=True),
                             min_size=2, max_size=2, unique_by=lambda e: tuple(sorted(e))))
        edges = list(pair)
        for j in (1, 2, 3, 4, 5, 6, 7, 8):
            if j != k2:
                edges.append(draw(st.lists(st.integers(0, n - 1), min_size=j, max_size=j,
                                           unique=True)))
    # listed in a drawn order (the chain indexes the listing)
    edges = permuted(edges, draw(st.integers(0, 999)))
    case = {
        "kind": u["kind"], "labels": u["labels"], "edges": edges,
        "perm": draw(st.integers(0, 999)),
        "weighted": draw(st.sampled_from([False, False, False, True])),
        "all_nodes": draw(st.booleans()),
        "label": draw(st.sampled_from(["edge", "stub"])),
        # None = argument omitted (default detailed=True)
        "detailed": draw(st.sampled_from([True, False, None] if not restricted
                                         else [True, True, False, None])),
        "n_steps": draw(N_STEPS),
        "seeds": draw(st.lists(S.seeds, min_size=2 if not big else 3, max_size=3 if not big else 5,
                               unique=True)),
    }
    if stair:
        case["detailed"] = draw(st.sampled_from([True, None]))
        case["n_steps"] = draw(st.sampled_from([200, 100, 200]))
        case["staircase"] = True
    else:
        # defaults: n_steps (1000) and / or label ('edge') omitted in about a tenth of the cases
        # (never for the staircase family: 1000 steps of pair redrawing are too slow there)
        omit = draw(st.sampled_from(["-"] * 14 + ["n", "n", "nl", "l"]))
        if "n" in omit:
            case["n_steps"] = None
        if "l" in omit:
            case["label"] = None
    case["weights"] = (draw(st.lists(S.weights_int, min_size=len(edges), max_size=len(edges)))
                       if case["weighted"] else [])
    if restricted:
        case["size_sel"] = draw(st.sampled_from([0, 0, 0, 1, 2, 3, 7]))
        case["by"] = draw(st.sampled_from(["size", "order"]))
    return case


# ---------------------------------------------------------------------------
# directed


@with_history
def _build_directed(case):
    from hypergraphx import DirectedHypergraph
    U = case["labels"]
    edges = []
    for s, t in case["edges"]:
        edges.append((tuple(U[i] for i in permuted(s, case["perm"])),
                      tuple(U[i] for i in permuted(t, case["perm"] + 1))))
    kw = {}
    if case["weighted"]:
        kw = {"weighted": True, "weights": list(case["weights"][:len(edges)])}
    h = DirectedHypergraph(edge_list=edges, **kw)
    if case["all_nodes"]:
        h.add_nodes(list(U))
    in_edges = [(frozenset(s), frozenset(t)) for s, t in edges]
    in_nodes = set(U) if case["all_nodes"] else set().union(*[s | t for s, t in in_edges])
    return h, in_edges, in_nodes


def _ddegrees(edges):
    src, tgt = Counter(), Counter()
    for s, t in edges:
        for n in s:
            src[n] += 1
        for n in t:
            tgt[n] += 1
    return src, tgt


def _dfmt(edges):
    return repr(sorted(((tuple(sorted(s, key=repr)), tuple(sorted(t, key=repr)))
                        for s, t in edges), key=repr))


def _api_directed(h):
    from hypergraphx.measures.directed.degree import in_degree_sequence, out_degree_sequence
    i = Counter({_py(n): d for n, d in in_degree_sequence(h).items()})
    o = Counter({_py(n): d for n, d in out_degree_sequence(h).items()})
    return i, o


def check_directed(case, ctx):
    from hypergraphx import DirectedHypergraph
    from hypergraphx.generation.directed_configuration_model import directed_configuration_model
    changed = merged = overlap = fed_overlap = False
    trace = []
    if case.get("overlap_family") and any(set(a) & set(b) for a, b in case["edges"]):
        ctx.label("input hyperedge with a node in both source and target")
    for k in case["seeds"]:
        h, in_edges, in_nodes = _build_directed(case)
        # feedback rounds: the output of the model (which may hold hyperedges whose source and
        # target share a node) is handed back to the model as its next input
        for rnd in range(1 + case.get("feedback", 0)):
            fed_overlap = fed_overlap or (rnd > 0 and any(s & t for s, t in in_edges))
            api_in_i, api_in_o = _api_directed(h)
            what = "directed_configuration_model(%s) [random seed %d]" % (
                "h" if rnd == 0 else "output of round %d" % rnd, k + rnd)
            snap = _dsnapshot(h)
            _seed(k + rnd)
            out = directed_configuration_model(h)
            _input_untouched(what, h, snap, _dsnapshot)
            require(isinstance(out, DirectedHypergraph),
                    lambda: "%s returned %r, not a DirectedHypergraph" % (what, type(out).__name__),
                    key="type")
            listing = []
            for e in out.get_edges():
                s, t = e
                s, t = tuple(_py(x) for x in s), tuple(_py(x) for x in t)
                require(len(set(s)) == len(s) and len(set(t)) == len(t),
                        lambda: "%s: output hyperedge %r lists a node twice in its source or target"
                        % (what, e), key="dup-node")
                listing.append((frozenset(s), frozenset(t)))
            require(len(set(listing)) == len(listing),
                    lambda: "%s: get_edges() of the result lists a hyperedge twice: %s"
                    % (what, _dfmt(listing)), key="dup-edge")
            trace.append({"seed": k + rnd, "round": rnd,
                          "output": [[sorted(s, key=repr), sorted(t, key=repr)]
                                                for s, t in listing]})
            ctx.trace = {"input": [[sorted(s, key=repr), sorted(t, key=repr)] for s, t in in_edges],
                         "runs": trace}
            for s, t in listing:
                for n in s | t:
                    require(n in in_nodes,
                            lambda: "%s: output hyperedge (%r, %r) contains %r, not a node of the "
                            "input" % (what, sorted(s, key=repr), sorted(t, key=repr), n),
                            key="foreign-node")
            in_src, in_tgt = _ddegrees(in_edges)
            out_src, out_tgt = _ddegrees(listing)
            api_out_i, api_out_o = _api_directed(out)
            in_shapes = Counter((len(s), len(t)) for s, t in in_edges)
            out_shapes = Counter((len(s), len(t)) for s, t in listing)
            same = len(listing) == len(in_edges)
            views = [("source-membership counted from get_edges()", in_src, out_src),
                     ("target-membership counted from get_edges()", in_tgt, out_tgt),
                     ("in_degree_sequence()", api_in_i, api_out_i),
                     ("out_degree_sequence()", api_in_o, api_out_o)]
            for view, din, dout in views:
                for n, d in sorted(dout.items(), key=repr):
                    require(d <= din[n],
                            lambda: "%s: %s of node %r is %d in the output but %d in the input; "
                            "input %s, output %s" % (what, view, n, d, din[n], _dfmt(in_edges),
                                                     _dfmt(listing)), key="degree-increased")
                if same:
                    bad = sorted((n for n in set(din) | set(dout) if din[n] != dout[n]), key=repr)
                    require(not bad,
                            lambda: "%s: hyperedge count preserved (%d) but %s of node %r is %d in "
                            "the output, %d in the input; input %s, output %s"
                            % (what, len(in_edges), view, bad[0], dout[bad[0]], din[bad[0]],
                               _dfmt(in_edges), _dfmt(listing)), key="degree-changed")
            extra = out_shapes - in_shapes
            require(not extra,
                    lambda: "%s: output has (|source|,|target|) shapes %r that no input hyperedge "
                    "accounts for; input %s, output %s" % (what, dict(extra), _dfmt(in_edges),
                                                           _dfmt(listing)), key="shape-changed")
            if same:
                require(out_shapes == in_shapes,
                        lambda: "%s: hyperedge count preserved (%d) but the multiset of "
                        "(|source|,|target|) shapes changed: input %r, output %r"
                        % (what, len(in_edges), dict(in_shapes), dict(out_shapes)),
                        key="shape-changed")
            elif len(listing) < len(in_edges):
                # the model returns the set of the final chain hyperedges: a lower count can only
                # come from chain hyperedges coinciding with one that is listed
                r = len(in_edges) - len(listing)
                if r > R_CAP:
                    ctx.exclude("more than %d coinciding hyperedges: deficit not searched" % R_CAP)
                else:
                    cands = [(tuple([(n, "source") for n in s] + [(n, "target") for n in t]),
                              (len(s), len(t))) for s, t in listing]
                    need_shapes = Counter(in_shapes)
                    need_shapes.subtract(out_shapes)
                    # (in_degree_sequence counts source memberships in this library; the oracle does
                    # not depend on which of the two sequences is which: either pairing may explain)
                    for view, pairings in (
                            ("get_edges()", [((in_src, out_src), (in_tgt, out_tgt))]),
                            ("in/out_degree_sequence()",
                             [((api_in_i, api_out_i), (api_in_o, api_out_o)),
                              ((api_in_o, api_out_o), (api_in_i, api_out_i))])):
                        needs = []
                        for d_src, d_tgt in pairings:
                            need = Counter()
                            for side, (din, dout) in (("source", d_src), ("target", d_tgt)):
                                for n in set(din) | set(dout):
                                    if din[n] != dout[n]:
                                        need[(n, side)] = din[n] - dout[n]
                            needs.append(need)
                        need = needs[0]
                        require(any(_explain_deficit(cands, nd, need_shapes, r) for nd in needs),
                                lambda: "%s: the output lists %d hyperedge(s) fewer than the input, "
                                "but no %d listed hyperedges (with repetition), taken as the "
                                "coinciding ones, account for the missing memberships (%s) %r and "
                                "shapes %r; input %s, output %s"
                                % (what, r, r, view, sorted(need.items(), key=repr),
                                   {k: v for k, v in need_shapes.items() if v}, _dfmt(in_edges),
                                   _dfmt(listing)), key="deficit-unexplained")
            changed = changed or set(listing) != set(in_edges)
            merged = merged or len(listing) < len(in_edges)
            overlap = overlap or any(s & t for s, t in listing)
            if len(listing) < 2:      # the quantifier asks for at least two hyperedges
                break
            h, in_edges, in_nodes = out, listing, {_py(n) for n in out.get_nodes()}
    shapes = Counter((len(s), len(t)) for s, t in case["edges"])
    ctx.label("labels=" + case["kind"], "changed" if changed else "unchanged")
    if merged:
        ctx.label("merged(count dropped)")
    if overlap:
        ctx.label("output has a node in both source and target (not claimed either way)")
    if case.get("feedback"):
        ctx.label("output fed back as input")
    if fed_overlap:
        ctx.label("input (fed back) with a node in both source and target")
    if len(shapes) > 1:
        ctx.label("mixed shapes")
    if case["weighted"]:
        ctx.label("weighted input")
    if case["all_nodes"]:
        ctx.label("isolated nodes possible")
    ctx.nontrivial(len(case["edges"]) >= 3 and changed)


@st.composite
def _directed_cases(draw, tier):
    big = tier != "quick"
    u = draw(S.universes(min_size=3, max_size=8 if big else 7))
    n = len(u["labels"])

    # one case in five: "reply-all" hyperedges -- some source nodes are also targets of the same
    # hyperedge (accepted by DirectedHypergraph; such a node counts in both degrees)
    overlap = draw(st.integers(0, 4)) == 0

    @st.composite
    def dedge(draw):
        nodes = draw(st.lists(st.integers(0, n - 1), min_size=2, max_size=min(n, 5), unique=True))
        cut = draw(st.integers(1, len(nodes) - 1))
        src, tgt = nodes[:cut], nodes[cut:]
        if overlap and draw(st.integers(0, 2)) > 0:
            k = draw(st.integers(1, len(src)))
            tgt = tgt + src[:k]
        return [src, tgt]

    edges = draw(st.lists(dedge(), min_size=2, max_size=9 if big else 7,
                          unique_by=lambda e: (tuple(sorted(e[0])), tuple(sorted(e[1])))))
    case = {
        "kind": u["kind"], "labels": u["labels"], "edges": edges,
        "perm": draw(st.integers(0, 999)),
        "weighted": draw(st.sampled_from([False, False, False, True])),
        "all_nodes": draw(st.booleans()),
        "seeds": draw(st.lists(S.seeds, min_size=2 if not big else 3, max_size=3 if not big else 5,
                               unique=True)),
        # number of times the output is handed back to the model as its next input
        "feedback": draw(st.sampled_from([0, 0, 1, 1, 2])),
        "overlap_family": overlap,
    }
    case["weights"] = (draw(st.lists(S.weights_int, min_size=len(edges), max_size=len(edges)))
                       if case["weighted"] else [])
    return case


CLAUSES = [
    Clause(
        "undirected", lambda tier: _hypergraph_cases(tier, False), check_undirected,
        quick=300, thorough=3000, shards_quick=2,
        rule="n_steps >= 10, at least 3 hyperedges of one size, and for at least one of the drawn "
             "seeds the output hyperedge set differs from the input's",
    ),
    Clause(
        "restricted", lambda tier: _hypergraph_cases(tier, True), check_restricted,
        quick=300, thorough=3000, shards_quick=2,
        rule="size/order argument naming a size with >= 3 hyperedges, hyperedges of another size "
             "present, n_steps >= 10, reshuffled part differs from the input for some seed",
    ),
    Clause(
        "directed", _directed_cases, check_directed,
        quick=300, thorough=3000, shards_quick=2,
        rule="at least 3 directed hyperedges and for at least one of the drawn seeds the output "
             "hyperedge set differs from the input's",
    ),
]
